"""C14 -- options resolve by the documented precedence: call > user options > defaults.

Engine E1: the three layers are symbolic dictionaries over the key universe
K = keys of default_options + {iter, fluid, hyd_flag, interactive_plotting, t_start} + kappa, where
kappa is a generic key different from all literals.  One VC per key and clause, valid for every
presence pattern and every value at once."""
import ast
import re
import z3

from pvc.harness import unit
from pvc import src as S, kern as K, ev as E, twin as T
from pvc.val import *  # noqa
from pvc.symdict import SymDict, PV, pv_const, pv_axioms, KAPPA, PyVal, to_pv, _truthy

PS = "pandapipes.pf.pipeflow_setup"
M_KEYS = ("max_iter_hyd", "max_iter_therm", "max_iter_bidirect")


def universe():
    d = S.get_module(PS).constant("default_options")
    ks = list(d.keys()) + ["iter", "fluid", "hyd_flag", "interactive_plotting", "t_start", KAPPA]
    return d, ks


def run(ctx, key, make_args, hooks=None, contracts=None):
    return T.run_paths(ctx, key, make_args, hooks=hooks, contracts=contracts,
                       dict_universe=universe()[1])


def expand_spec(d, k):
    """(present, value) of key k after the `iter` shorthand has been applied to layer d"""
    p, v = d["present"][k], d["value"][k]
    if k in M_KEYS:
        has_iter = band(d["present"]["iter"], d["value"]["iter"] != pv_const(None))
        return bor(p, has_iter), z3.If(B(p), v, d["value"]["iter"])
    return p, v


def snap(sd):
    p, v = sd.snapshot()
    return {"present": {k: (z3.BoolVal(x) if isinstance(x, bool) else x) for k, x in p.items()},
            "value": v}


# ---------------------------------------------------------------------------------------------

@unit("C14", "_iteration_check", functions=[PS + ":_iteration_check"], engine="E1")
def iteration_check(ctx):
    ctx.assume("A6")
    _, uni = universe()
    holder = {}

    def mk():
        holder["d"] = SymDict(uni, "opts")
        holder["old"] = snap(holder["d"])
        return [holder["d"]], {}
    paths = run(ctx, PS + ":_iteration_check", mk)
    ctx.decided("cover/paths", "cover", len(paths) >= 2, witness="%d paths" % len(paths))
    ax = None
    for k in uni:
        gp, gv = [], []
        for p in paths:
            d = p.args[0][0]
            if ax is None:
                ax = True
            old = snap(SymDict(uni, "opts"))
            ep, evl = expand_spec(old, k)
            new = snap(d)
            gp.append(z3.Implies(p.cond(), new["present"][k] == B(ep)))
            gv.append(z3.Implies(z3.And(p.cond(), B(ep)), new["value"][k] == evl))
            ctx.decided("no-raise/%s" % k, "ensures", p.exc is None, witness=str(p.exc)) if k == uni[0] else None
        ctx.ob("ensures/present[%s]" % k, "ensures", pv_axioms(), z3.And(*gp))
        ctx.ob("ensures/value[%s]" % k, "ensures", pv_axioms(), z3.And(*gv))


@unit("C14", "_mode_check", functions=[PS + ":_mode_check"], engine="E1")
def mode_check(ctx):
    ctx.assume("A6")
    _, uni = universe()

    def mk():
        d = SymDict(uni, "opts")
        d.present["mode"] = True
        return [d], {}
    paths = run(ctx, PS + ":_mode_check", mk)
    old = snap(SymDict(uni, "opts"))
    for k in uni:
        gp, gv = [], []
        for p in paths:
            new = snap(p.args[0][0])
            if k == "mode":
                exp = z3.If(old["value"]["mode"] == pv_const("all"), pv_const("sequential"),
                            old["value"]["mode"])
                gp.append(z3.Implies(p.cond(), new["present"][k]))
                gv.append(z3.Implies(p.cond(), new["value"][k] == exp))
            else:
                gp.append(z3.Implies(p.cond(), new["present"][k] == old["present"][k]))
                gv.append(z3.Implies(z3.And(p.cond(), old["present"][k]),
                                     new["value"][k] == old["value"][k]))
        ctx.ob("ensures/present[%s]" % k, "ensures", pv_axioms(), z3.And(*gp))
        ctx.ob("ensures/value[%s]" % k, "ensures", pv_axioms(), z3.And(*gv))


def c_iteration_check(ev, args, kwargs):
    """callee contract of _iteration_check, applied at the call sites in init_options"""
    d = args[0]
    if isinstance(d, dict):
        raise Unsupported("_iteration_check on a concrete dict")
    old = snap(d)
    for k in M_KEYS:
        ep, evl = expand_spec(old, k)
        d.present[k] = ep
        d.value[k] = evl
        d.writes.append(k)
    return None


def c_mode_check(ev, args, kwargs):
    d = args[0]
    # requires: 'mode' present (key-safety obligation at the call site)
    ev.safety("key", d.present["mode"], None)
    d.value["mode"] = z3.If(d.value["mode"] == pv_const("all"), pv_const("sequential"), d.value["mode"])
    d.writes.append("mode")
    return None


def resolve_spec(k, C, U, D, numba_installed, fluid_name):
    """the value in force for key k according to the property statement.
    Returns (present, value, is_documented_coupling)"""
    def base(kk):
        cp, cv = expand_spec(C, kk)
        up, uv = expand_spec(U, kk)
        dp = kk in D
        dv = to_pv(D[kk]).t if dp else pv_const(None)
        return bor(cp, up, dp), z3.If(B(cp), cv, z3.If(B(up), uv, dv))
    p, v = base(k)
    if k == "reuse_internal_data":
        op, ov = base("only_update_hydraulic_matrix")
        v = z3.If(_truthy(ov), v, pv_const(False))
    if k == "mode":
        v = z3.If(v == pv_const("all"), pv_const("sequential"), v)
    if k == "use_numba" and not numba_installed:
        v = pv_const(False)
    return p, v


def _init_options(ctx, numba_installed, with_user):
    ctx.assume("A6")
    D, uni = universe()
    fluid = E.Obj("fluid", {"name": "the_fluid", "is_gas": False},
                  cls=S.get_module("pandapipes.properties.fluids").classes["Fluid"])
    holder = {}

    def mk():
        U = SymDict(uni, "user")
        C = SymDict(uni, "call")
        items = {"fluid": fluid}
        if with_user:
            items["user_pf_options"] = U
        net = K.NetObj(items)
        holder.update(U=U, C=C, net=net)
        return [net], {"__symdict__": C}

    def glob(module, name):
        if name == "numba_installed":
            return numba_installed
        return None
    cs = {PS + ":_iteration_check": c_iteration_check, PS + ":_mode_check": c_mode_check}
    paths = run(ctx, PS + ":init_options", mk, hooks={"global": glob}, contracts=cs)
    ctx.use_function(S.get_function(PS + ":_iteration_check"))
    ctx.use_function(S.get_function(PS + ":_mode_check"))
    C0, U0 = snap(SymDict(uni, "call")), snap(SymDict(uni, "user"))
    if not with_user:
        U0 = snap(SymDict.from_concrete(uni, {}, "user"))
    ax = pv_axioms
    normal = [p for p in paths if p.exc is None]
    ctx.decided("cover/returns", "cover", len(normal) >= 1, witness="no returning path")
    for kx, p in enumerate(paths):
        if p.exc is not None:
            ctx.decided("no-raise#%d" % kx, "ensures", False, witness="init_options raises %s" % p.exc.cls)
    excluded = ("interactive_plotting", "t_start")
    for k in uni:
        sp, sv = resolve_spec(k, C0, U0, D, numba_installed, "the_fluid")
        gp, gv, gp_code, gv_code = [], [], [], []
        for p in normal:
            net = p.args[0][0]
            opts = net.items.get("_options")
            if not isinstance(opts, SymDict):
                ctx.decided("stores-_options", "ensures", False, witness="net['_options'] not set")
                return
            new = snap(opts)
            gp.append(z3.Implies(p.cond(), new["present"][k] == B(sp)))
            gv.append(z3.Implies(z3.And(p.cond(), B(sp)), new["value"][k] == sv))
            if k == "fluid":
                gp_code.append(z3.Implies(p.cond(), new["present"][k]))
                gv_code.append(z3.Implies(p.cond(), new["value"][k] == pv_const("the_fluid")))
            if k in excluded:
                gp_code.append(z3.Implies(p.cond(), z3.Not(new["present"][k])))
        rp = make_replay(k, uni, C0, U0, with_user, sp, sv)
        ctx.ob("resolve/present[%s]" % k, "ensures", ax(), z3.And(*gp), replay=rp)
        ctx.ob("resolve/value[%s]" % k, "ensures", ax(), z3.And(*gv), replay=rp)
        if gp_code:
            ctx.ob("implemented/present[%s]" % k, "ensures", ax(), z3.And(*gp_code))
        if gv_code:
            ctx.ob("implemented/value[%s]" % k, "ensures", ax(), z3.And(*gv_code))
    # frame: stored layers unchanged
    for kx, p in enumerate(normal):
        dw = []
        for (mod, nm), g in p.globals.items():
            if hasattr(g, "writes") and g.writes:
                dw.append("%s.%s%s" % (mod, nm, g.writes))
        ctx.decided("frame/module-globals#%d" % kx, "frame", not dw,
                    witness="module-level dictionary written: %s" % dw)
        net = p.args[0][0]
        if with_user:
            Uf = net.items.get("user_pf_options")
            ctx.decided("frame/user_pf_options-identity#%d" % kx, "frame", Uf is not None and
                        isinstance(Uf, SymDict), witness="user_pf_options replaced")
            if isinstance(Uf, SymDict):
                new = snap(Uf)
                g = z3.And(*[z3.And(new["present"][k] == U0["present"][k],
                                    z3.Implies(U0["present"][k], new["value"][k] == U0["value"][k]))
                             for k in uni])
                ctx.ob("frame/user_pf_options#%d" % kx, "frame", ax() + [p.cond()], g)
        Cf = p.args[1]["__symdict__"]
        new = snap(Cf)
        g = z3.And(*[z3.And(new["present"][k] == C0["present"][k],
                            z3.Implies(C0["present"][k], new["value"][k] == C0["value"][k])) for k in uni])
        ctx.ob("frame/kwargs#%d" % kx, "frame", ax() + [p.cond()], g)
        others = [k for k in net.writes if k not in ("_options",)]
        ctx.decided("frame/net-keys#%d" % kx, "frame", not others,
                    witness="init_options writes net keys %s" % others)
    # key-safety: every opts["x"] read succeeds (KeyError paths would have been raising paths)
    ctx.check_safety(paths, ax(), "init_options", kinds=("key",))


def model_pyval(m, t, memo):
    """python value for an element of the uninterpreted sort PyVal in model m"""
    from pvc.symdict import _consts
    v = m.eval(t, model_completion=True)
    for c, x in _consts.values():
        if m.eval(c, model_completion=True).eq(v):
            if isinstance(x, Fraction):
                return float(x) if x.denominator != 1 else int(x)
            return x
    key = str(v)
    if key not in memo:
        truthy = z3.is_true(m.eval(_truthy(t), model_completion=True))
        falsy_pool = [0, "", {"__tuple__": []}, 0.0]
        n = len(memo)
        memo[key] = ("value_%d" % n) if truthy else falsy_pool[n % len(falsy_pool)]
    return memo[key]


def make_replay(k, uni, C0, U0, with_user, sp, sv):
    def rp(m):
        memo = {}

        def layer(L):
            out = {}
            for kk in uni:
                if z3.is_true(m.eval(B(L["present"][kk]), model_completion=True)):
                    name = "some_other_option" if kk == KAPPA else kk
                    out[name] = model_pyval(m, L["value"][kk], memo)
            return out
        exp_p = z3.is_true(m.eval(B(sp), model_completion=True))
        return {"handler": "init_options",
                "input": {"user": layer(U0) if with_user else None, "kwargs": layer(C0),
                          "key": "some_other_option" if k == KAPPA else k,
                          "expected_present": exp_p,
                          "expected_value": model_pyval(m, sv, memo) if exp_p else None},
                "expected": "call > user options > defaults (with the documented couplings)"}
    return rp


for _nb in (True, False):
    for _wu in (True, False):
        def _mk(nb=_nb, wu=_wu):
            @unit("C14", "init_options/numba_%s/user_%s" % ("installed" if nb else "missing",
                                                           "set" if wu else "absent"),
                  functions=[PS + ":init_options"], engine="E1")
            def _u(ctx):
                _init_options(ctx, nb, wu)
        _mk()


@unit("C14", "set_user_pf_options", functions=[PS + ":set_user_pf_options"], engine="E1")
def set_user(ctx):
    ctx.assume("A6")
    D, uni = universe()
    for reset in (False, True):
        for has in (True, False):
            def mk():
                U = SymDict(uni, "user")
                C = SymDict(uni, "kw")
                items = {"user_pf_options": U} if has else {}
                return [K.NetObj(items), reset], {"__symdict__": C}
            paths = run(ctx, PS + ":set_user_pf_options", mk)
            U0, C0 = snap(SymDict(uni, "user")), snap(SymDict(uni, "kw"))
            start_empty = reset or not has
            for k in uni:
                g = []
                for p in paths:
                    if p.exc is not None:
                        g.append(z3.Not(p.cond()))
                        continue
                    Uf = p.args[0][0].items.get("user_pf_options")
                    if not isinstance(Uf, SymDict):
                        if isinstance(Uf, dict):
                            Uf = SymDict.from_concrete(uni, Uf, "u")
                        else:
                            g.append(z3.BoolVal(False))
                            continue
                    new = snap(Uf)
                    bp = z3.BoolVal(False) if start_empty else U0["present"][k]
                    ep = z3.Or(C0["present"][k], bp)
                    evl = z3.If(C0["present"][k], C0["value"][k], U0["value"][k])
                    g.append(z3.Implies(p.cond(), z3.And(new["present"][k] == ep,
                                                         z3.Implies(ep, new["value"][k] == evl))))
                ctx.ob("ensures/reset=%s/has=%s/[%s]" % (reset, has, k), "ensures", pv_axioms(), z3.And(*g))
            for kx, p in enumerate(paths):
                dw = [("%s.%s" % gk) for gk, g in p.globals.items() if getattr(g, "writes", None)]
                ctx.decided("frame/module-globals/reset=%s/has=%s#%d" % (reset, has, kx), "frame", not dw,
                            witness="written: %s" % dw)


@unit("C14", "net_option_accessors", functions=[PS + ":get_net_option", PS + ":set_net_option",
                                                PS + ":get_net_options"], engine="E1")
def accessors(ctx):
    ctx.assume("A6")
    D, uni = universe()
    for k in ("tol_p", KAPPA):
        def mk():
            return [K.NetObj({"_options": SymDict(uni, "opts")}), k], {}
        if k == KAPPA:
            continue
        paths = run(ctx, PS + ":get_net_option", mk)
        O0 = snap(SymDict(uni, "opts"))
        g = []
        for p in paths:
            if p.exc is None:
                g.append(z3.Implies(p.cond(), z3.And(O0["present"][k], p.result.t == O0["value"][k])))
            else:
                g.append(z3.Implies(p.cond(), z3.And(z3.Not(O0["present"][k]),
                                                     z3.BoolVal(p.exc.cls == "UserWarning"))))
        ctx.ob("get_net_option/%s" % k, "ensures", pv_axioms(), z3.And(*g))

    def mk2():
        return [K.NetObj({"_options": SymDict(uni, "opts")}), "alpha", PV(z3.Const("newval", PyVal))], {}
    paths = run(ctx, PS + ":set_net_option", mk2)
    O0 = snap(SymDict(uni, "opts"))
    for k in uni:
        g = []
        for p in paths:
            new = snap(p.args[0][0].items["_options"])
            if k == "alpha":
                g.append(z3.Implies(p.cond(), z3.And(new["present"][k], new["value"][k] == z3.Const("newval", PyVal))))
            else:
                g.append(z3.Implies(p.cond(), z3.And(new["present"][k] == O0["present"][k],
                                                     z3.Implies(O0["present"][k], new["value"][k] == O0["value"][k]))))
        ctx.ob("set_net_option/[%s]" % k, "ensures", pv_axioms(), z3.And(*g))


# ---------------------------------------------------------------------------------------------
# documented defaults = default_options

DOC_RE = re.compile(r"-\s+\*\*(\w+)\*\*\s+\((\w+)\):\s+([^\s]+)\s+-")


def parse_doc_defaults():
    f = S.get_function(PS + ":init_options")
    doc = ast.get_docstring(f.node) or ""
    out = {}
    for m in DOC_RE.finditer(doc):
        name, typ, val = m.group(1), m.group(2), m.group(3).strip()
        out[name] = (typ, val)
    return out


def _norm(v):
    if isinstance(v, str):
        s = v.strip('"').strip("'")
        if s in ("True", "False"):
            return s == "True"
        try:
            return Fraction(s)
        except (ValueError, ZeroDivisionError):
            return s
    if isinstance(v, bool):
        return v
    if isinstance(v, (int, Fraction)):
        return Fraction(v)
    return v


@unit("C14", "documented_defaults", functions=[PS + ":init_options"], engine="E1")
def documented_defaults(ctx):
    D, uni = universe()
    doc = parse_doc_defaults()
    ctx.decided("cover/doc-entries", "cover", len(doc) >= 10, witness="only %d documented options parsed" % len(doc))
    for name, (typ, val) in sorted(doc.items()):
        ok = name in D and _norm(val) == _norm(D[name])
        ctx.decided("default[%s]" % name, "schema", ok,
                    witness="documented default %s, default_options has %s" % (
                        val, (float(D[name]) if isinstance(D.get(name), Fraction) else D.get(name))),
                    replay={"handler": "doc_default", "input": {"option": name, "documented": val}})


# ---------------------------------------------------------------------------------------------
# the call layer reaches init_options unchanged (pipeflow forwards **kwargs)

PF = "pandapipes.pipeflow"


@unit("C14", "pipeflow_forwards_kwargs", functions=[PF + ":pipeflow"], engine="E1")
def pipeflow_forwards(ctx):
    ctx.assume("A6")
    D, uni = universe()
    seen = {}

    def c_init_options(ev, args, kwargs):
        seen["kw"] = kwargs.get("__symdict__", {k: v for k, v in kwargs.items()})
        seen["net"] = args[0]
        raise E._Raise(E.ExcVal("StopHere"))     # nothing after the call matters for this obligation
    holder = {}

    def mk():
        C = SymDict(uni, "call")
        holder["C"] = C
        net = K.NetObj({"fluid": E.Obj("fluid", {"name": "f"}), "user_pf_options": SymDict(uni, "user")})
        holder["net"] = net
        return [net, None], {"__symdict__": C}
    paths = run(ctx, PF + ":pipeflow", mk, contracts={PS + ":init_options": c_init_options})
    C0 = snap(SymDict(uni, "call"))
    ctx.decided("cover/init_options-called", "cover", "kw" in seen and all(
        p.exc is not None and p.exc.cls == "StopHere" for p in paths),
        witness="init_options not reached on every path: %s" % [str(p.exc) for p in paths])
    kw = seen.get("kw")
    if not isinstance(kw, SymDict):
        ctx.decided("forwards-symbolic-kwargs", "ensures", False, witness="init_options received %r" % (kw,))
        return
    new = snap(kw)
    for k in uni:
        g = z3.And(new["present"][k] == C0["present"][k],
                   z3.Implies(C0["present"][k], new["value"][k] == C0["value"][k]))
        ctx.ob("forwarded[%s]" % k, "ensures", pv_axioms() + [p.cond() for p in paths[:1]], g,
               replay=lambda m, _k=k: {"handler": "pipeflow_kwargs", "input": {"key": "some_other_option" if _k == KAPPA else _k},
                                       "expected": "an option passed to pipeflow() reaches init_options unchanged, also when its value is None"})
    ctx.decided("same-net", "ensures", seen.get("net") is holder.get("net"), witness="init_options called on another object")


# ---------------------------------------------------------------------------------------------
# the resolved options are the ones APPLIED: every unknown of the bidirectional stage is tested against the tolerance option
# of its own name (tol_m for mass flows, tol_p for pressures, tol_T for temperatures) -- shared with C05

def _mk14(part):
    @unit("C14", "applied_tolerances/bidirectional/%s" % part.replace(":", "-"), functions=["pandapipes.pipeflow:bidirectional"], engine="E1")
    def _u(ctx):
        from contracts.C05 import _stage
        _stage(ctx, "bidirectional", "constant", part)


import contracts.C05 as _C05  # noqa
for _u_, _ in _C05.STAGE_UNKNOWNS["bidirectional"]:
    _mk14("tol:" + _u_)
