"""Specification functions, written from the property statements and doc/source/components/*.rst
(NOT from the code).  They work on the value algebra of pvc.val, i.e. on z3 terms and on python
numbers alike (concrete evaluation is used by the replay)."""
from fractions import Fraction
from pvc.val import arith, absval, power, log10, log, exp, sqrt, compare, ite, neg, PI
from pvc import val as V

G = Fraction("9.81")
P_CONV = 100000
P_N = Fraction("1.01325")
T_N = Fraction("273.15")


def add(*xs):
    out = xs[0]
    for x in xs[1:]:
        out = arith("+", out, x)
    return out


def sub(a, b):
    return arith("-", a, b)


def mul(*xs):
    out = xs[0]
    for x in xs[1:]:
        out = arith("*", out, x)
    return out


def div(a, b):
    return arith("/", a, b)


# ---- hydraulics ---------------------------------------------------------------------------------

def reynolds(m, d, eta, area):
    """Re = |v| d rho / eta = |m| d / (eta A)"""
    return div(mul(absval(m), d), mul(eta, area))


def lambda_nikuradse(re, k, d, gas):
    """doc: lambda = 64/Re + 1/(-2 log10(k/(3.71 d)))^2 ; the laminar part is 0 at Re = 0.
    For gases the code documents 2*log10(d/k)+1.14 -- algebraically 2*log10(3.71 d/k) with
    2*log10(3.71) = 1.1388 rounded to 1.14 (recorded as finding F19, spec follows the code's
    documented constant for gases)."""
    lam_lam = ite(compare("<=", absval(re), Fraction("1e-8")), 0, div(64, re))
    return add(lam_lam, lambda_turbulent(k, d, gas))


def lambda_turbulent(k, d, gas):
    if gas:
        return div(1, power(add(mul(2, log10(div(d, k))), Fraction("1.14")), 2))
    return div(1, power(mul(-2, log10(div(k, mul(Fraction("3.71"), d)))), 2))


def lambda_swamee_jain(re, k, d):
    return div(Fraction("0.25"),
               power(log10(add(div(k, mul(Fraction("3.7"), d)), div(Fraction("5.74"), power(re, Fraction("0.9"))))), 2))


def colebrook_residual(lam, re, k, d):
    """1/sqrt(lam) + 2 log10(2.51/(Re sqrt(lam)) + k/(3.71 d)) = 0"""
    return add(div(1, sqrt(lam)),
               mul(2, log10(add(div(Fraction("2.51"), mul(re, sqrt(lam))), div(k, mul(Fraction("3.71"), d))))))


def residual_liquid(m, pf_abs, pt_abs, pl, dh, rho, lam, L, d, zeta, area):
    """p_f - p_t + PL + rho g dh / 1e5 - (lam L/d + zeta) * rho v|v| / (2e5), v = m/(rho A)"""
    v = div(m, mul(rho, area))
    fric = mul(add(div(mul(lam, L), d), zeta), div(mul(rho, v, absval(v)), 2 * P_CONV))
    return sub(add(sub(pf_abs, pt_abs), pl, div(mul(rho, G, dh), P_CONV)), fric)


def friction_loss_liquid(m, rho, lam, L, d, zeta, area):
    v = div(m, mul(rho, area))
    return mul(add(div(mul(lam, L), d), zeta), div(mul(rho, v, absval(v)), 2 * P_CONV))


def residual_gas(m, pf_abs, pt_abs, pl, dh, rho, rho_n, lam, L, d, zeta, area, tm, comp):
    """p_f - p_t + PL + rho g dh/1e5 - (lam L/d + zeta) m|m| p_N T_m K / (rho_N A^2 T_N (p_f+p_t) 1e5)"""
    fric = div(mul(add(div(mul(lam, L), d), zeta), m, absval(m), P_N, tm, comp),
               mul(rho_n, area, area, T_N, add(pf_abs, pt_abs), P_CONV))
    return sub(add(sub(pf_abs, pt_abs), pl, div(mul(rho, G, dh), P_CONV)), fric)


def mean_pressure(pf, pt):
    """p_m = 2/3 (p_f^3 - p_t^3)/(p_f^2 - p_t^2), p_f where equal"""
    return ite(compare("==", pf, pt), pf,
               div(mul(2, sub(power(pf, 3), power(pt, 3))), mul(3, sub(power(pf, 2), power(pt, 2)))))


def gas_density(rho_n, p_abs, t, comp):
    """rho = rho_N p T_N / (T p_N K)"""
    return div(mul(rho_n, T_N, p_abs), mul(t, P_N, comp))


def normfactor(p_abs, t, comp):
    """v = v_N * T p_N K / (p T_N)"""
    return div(mul(P_N, t, comp), mul(T_N, p_abs))


def p_amb(height):
    """barometric formula p_N (1 - h 0.0065 / 288.15)^5.255"""
    return mul(P_N, power(sub(1, div(mul(height, Fraction("0.0065")), Fraction("288.15"))), Fraction("5.255")))


# ---- thermal -------------------------------------------------------------------------------------

def thermal_branch_residual(t_in, t_out, t_ext, alpha, d_o, L, cp, m, tl, qext):
    """T_ext + (T_in - T_ext) exp(-alpha pi D_o L / (cp |m|)) - T_out + TL - q_ext/(cp |m|)"""
    am = absval(m)
    e = exp(neg(div(mul(alpha, PI, d_o, L), mul(cp, am))))
    return sub(add(sub(add(t_ext, mul(sub(t_in, t_ext), e)), t_out), tl), div(qext, mul(cp, am)))


def mix_term(cp_mean, m, t_out, t_node):
    """contribution of an entering stream to the node energy balance: cp_mean |m| (T_out - T_n)"""
    return mul(cp_mean, absval(m), sub(t_out, t_node))
