"""C16 -- element creation keeps the net referentially intact, atomic and as documented.

Engine E5 (schema / wiring contracts on the real create functions).  Every `create_*` function of
pandapipes/create.py is discovered from the AST (catalogue obligation: none may be left out) and
evaluated symbolically with untyped python values (PV) for all parameters.  The pandas / pandapower
callees are replaced by *recording contracts*:

    add_new_component(net, C)                      registers the table if absent           (recorded)
    _get_index_with_check / _get_multiple_...      returns the checked new index           (assumed: raises on duplicates)
    _check_junction_element / _check_branch /      raise UserWarning for unknown junctions (assumed: pandapower)
      _check_branches / _check_element / ...
    _check_std_type                                proved separately from its source
    _set_entries / _set_multiple_entries           add exactly the rows `index` with the given entries (assumed: pandas)

Obligations per function and path, decided on the recorded trace:
  wiring      index checked for the written table, every junction / pipe / std-type reference checked,
              the written index is the checked one and is returned
  atomic      every check precedes the first write; no raise after a write; (known finding F7: the
              component table is registered before the checks)
  entries     the written columns are the component's input columns; column c carries parameter c
              (bool columns: its truth value); std-type columns carry the loaded type's parameters
  defaults    documented default == signature default
  bulk        the bulk function writes the same columns from the corresponding parameters with the
              same defaults and the plural checks
"""
import ast
import re
import z3

from pvc.harness import unit, venv_run
from pvc import src as S, kern as K, ev as E, classes as CL, symdict as SD, twin as T
from pvc.val import *  # noqa
from pvc import val as V

# property-level native oracle used as the replay of refuted obligations that carry no model-specific replay
FALLBACK_REPLAY = {"handler": "bounded_any", "input": {"what": "create_functions"}, "expected": "creation wiring / atomicity / bulk = single / std type = parameters on the native net"}

CR = "pandapipes.create"
CT = "pandapipes.component_models.component_toolbox"

NOT_ELEMENT_CREATORS = {"create_empty_network", "create_fluid_from_lib"}
# component class and table written by each create function are read from the trace, not listed here
REF_JUNCTION = {"junction", "from_junction", "to_junction", "return_junction", "flow_junction", "controlled_junction",
                "junctions", "from_junctions", "to_junctions", "return_junctions", "flow_junctions", "controlled_junctions"}
CHECKS = ("_check_junction_element", "_check_branch", "_check_branches", "_check_multiple_junction_elements",
          "_check_element", "_check_multiple_elements", "_check_std_type", "_get_index_with_check",
          "_get_multiple_index_with_check")
WRITES = ("_set_entries", "_set_multiple_entries")


def creators():
    mod = S.get_module(CR)
    return sorted(n for n in mod.functions if n.startswith("create_") and n not in NOT_ELEMENT_CREATORS)


def params_of(fref):
    a = fref.node.args
    names = [x.arg for x in a.args]
    defaults = {}
    for nm, d in zip(names[len(names) - len(a.defaults):], a.defaults):
        defaults[nm] = d
    return names, defaults, (a.kwarg.arg if a.kwarg else None)


class Trace(list):
    pass


class RecTable:
    """a geodata / element table that only records label-addressed stores"""

    def __init__(self, name, trace):
        self.name, self.trace = name, trace

    def getattr_(self, ev, attr, lineno):
        if attr in ("loc", "at"):
            return _RecAcc(self, attr)
        if attr == "index":
            return _RecIndex(self)
        if attr == "columns":
            return E.Opaque("columns of " + self.name) if hasattr(E, "Opaque") else None
        raise Unsupported("table attribute %s.%s" % (self.name, attr))

    def getitem(self, ev, key, lineno):
        return _RecCol(self, key)


class _RecAcc:
    def __init__(self, t, kind):
        self.t, self.kind = t, kind

    def setitem(self, ev, idx, v, lineno):
        self.t.trace.append(("write:%s" % self.t.name, [idx, v], {}))


class _RecIndex:
    def __init__(self, t):
        self.t = t

    def contains(self, ev, x, *a):
        return z3.Bool("in!%s.index" % self.t.name)


class _RecCol:
    def __init__(self, t, key):
        self.t, self.key = t, key

    def getattr_(self, ev, attr, lineno):
        if attr == "loc":
            return self
        raise Unsupported("column attribute %s" % attr)

    def getitem(self, ev, key, lineno):
        return SD.PV(z3.Const("cell!%s.%s" % (self.t.name, self.key), SD.PyVal))


def run_creator(ctx, name, extra_kwargs=None, arg_override=None, std_for=None, contracts_extra=None):
    fref = S.get_function(CR + ":" + name)
    ctx.use_function(fref)
    names, defaults, kwarg = params_of(fref)
    cur = {}
    new_index = SD.PV(z3.Const("new_index", SD.PyVal))
    std = std_entry()

    def rec(nm, ret=None):
        def c(ev, args, kwargs):
            cur["t"].append((nm, list(args), dict(kwargs)))
            return ret() if callable(ret) else ret
        return c

    contracts = {CT + ":add_new_component": rec("add_new_component"),
                 CR + ":_set_entries": rec("_set_entries"), CR + ":_set_multiple_entries": rec("_set_multiple_entries"),
                 CR + ":_check_junction_element": rec("_check_junction_element"), CR + ":_check_branch": rec("_check_branch"),
                 CR + ":_check_std_type": rec("_check_std_type"), CR + ":_check_branches": rec("_check_branches"),
                 CR + ":_check_multiple_junction_elements": rec("_check_multiple_junction_elements"),
                 CR + ":_add_multiple_branch_geodata": rec("write:geodata"),
                 "pandapipes.std_types.std_types:load_std_type": (rec("load_std_type", lambda: std) if std_for is None else
                                                                  (lambda ev, a, k: (cur["t"].append(("load_std_type", list(a), dict(k))),
                                                                                     std_for(a[1]))[1])),
                 CR + ":_auto_ext_grid_type": rec("_auto_ext_grid_type", lambda: SD.PV(z3.Const("auto_type", SD.PyVal))),
                 CR + ":_auto_ext_grid_types": rec("_auto_ext_grid_types", lambda: SD.PV(z3.Const("auto_type", SD.PyVal))),
                 "pandapipes.std_types.std_types:create_pump_std_type": rec("write:std_types"),
                 "pandapipes.toolbox:check_pressure_controllability": rec("check_pressure_controllability", lambda: z3.Bool("controllable")),
                 "pandapipes.toolbox:_deprecation_check_u": (lambda ev, a, k: None),
                 "pandapipes.toolbox:_deprecation_check_k": (lambda ev, a, k: None)}

    class _Ext:
        def __init__(self, nm):
            self.nm = nm

        def call(self, ev, args, kwargs, lineno):
            cur["t"].append((self.nm, list(args), dict(kwargs)))
            if self.nm in ("PumpStdType", "regression_function"):
                return SD.PV(z3.Const("obj!" + self.nm, SD.PyVal))
            return new_index if "index" in self.nm else None

    def glob(m, nm):
        if nm in ("_get_index_with_check", "_get_multiple_index_with_check", "_check_element", "_check_multiple_elements"):
            return _Ext(nm)
        if nm in ("PumpStdType", "regression_function"):
            return _Ext(nm)
        return None

    def mk():
        tr = Trace()
        cur["t"] = tr
        net = K.NetObj({"junction_geodata": RecTable("junction_geodata", tr), "pipe_geodata": RecTable("pipe_geodata", tr),
                        "pipe": RecTable("pipe", tr)})
        net.trace = tr
        net.std_entry = std
        args = [net] + [SD.PV(z3.Const("arg!" + p, SD.PyVal)) for p in names[1:]]
        if name in GEODATA_NONE and "geodata" in names:
            args[names.index("geodata")] = None
        for k_, v_ in (arg_override or {}).items():
            args[names.index(k_)] = v_() if callable(v_) else v_
        return args, dict(extra_kwargs or {})
    if std_for is not None:
        contracts["pandapipes.component_models.component_toolbox:retrieve_u"] = lambda ev, a, k: dict(a[0])
    contracts.update(contracts_extra or {})
    ev = E.Evaluator(hooks={"global": glob}, contracts=contracts, max_paths=256)
    paths = ev.run_all(fref, mk)
    for p in paths:
        ctx.inlined |= p.inlined
    return fref, names, defaults, paths


def std_entry():
    """an entry of net.std_types['pipe']: real-valued parameters, the heat transfer coefficient may be NaN"""
    return {"inner_diameter_mm": z3.Real("std!inner_diameter_mm"), "outer_diameter_mm": z3.Real("std!outer_diameter_mm"),
            "k_mm": z3.Real("std!k_mm"), "u_w_per_m2k": NS(z3.Real("std!u_w_per_m2k"), z3.Bool("std!u_w_per_m2k!nan"))}


# pandas-heavy geodata branches (pd.concat / DataFrame construction) are outside the subset: evaluated with geodata=None
GEODATA_NONE = {"create_junctions"}
# element-wise numpy validation of untyped sequences is outside the subset: covered by the bounded stand-in only
OUTSIDE_SUBSET = {"create_valves": "np.isin / boolean masks over untyped et / element sequences",
                  "create_heat_consumers": "np.zeros / pd.isnull bookkeeping over untyped parameter sequences"}


def pv_is(v, name):
    return isinstance(v, SD.PV) and v.t.eq(z3.Const("arg!" + name, SD.PyVal))


def first(trace, kinds):
    for k, (nm, _, _) in enumerate(trace):
        if nm in kinds or any(nm.startswith(x) for x in kinds if x.endswith(":")):
            return k
    return None


def is_write(nm):
    return nm in WRITES or nm.startswith("write:")


def analyse(ctx, name, bulk):
    fref, names, defaults, paths = run_creator(ctx, name)
    normal = [p for p in paths if p.exc is None]
    ctx.decided("%s/evaluated" % name, "cover", len(normal) >= 1, witness=str([str(p.exc) for p in paths]))
    info = {"table": None, "cols": None, "names": names, "defaults": defaults}
    for kx, p in enumerate(paths):
        tr = p.args[0][0].trace
        nms = [t[0] for t in tr]
        wpos = [k for k, n in enumerate(nms) if is_write(n)]
        cpos = [k for k, n in enumerate(nms) if n in CHECKS]
        if p.exc is not None:
            ctx.decided("%s/atomic/no-raise-after-write#%d" % (name, kx), "ensures", not wpos,
                        witness="raises %s after %s" % (p.exc, [nms[k] for k in wpos]))
            continue
        if "_set_entries" not in nms and "_set_multiple_entries" not in nms:
            # returns without creating anything: only allowed as the documented refusal of an uncontrollable pressure controller
            ctx.decided("%s/returns-without-creating#%d" % (name, kx), "ensures",
                        name == "create_pressure_control" and "check_pressure_controllability" in nms, witness=str(nms))
            continue
        ctx.decided("%s/atomic/checks-before-first-write#%d" % (name, kx), "ensures",
                    bool(wpos) and all(c < wpos[0] for c in cpos), witness=str(nms))
        reg = [k for k, n in enumerate(nms) if n == "add_new_component"]
        info["registered_after_checks"] = info.get("registered_after_checks", True) and \
            bool(reg) and bool(cpos) and reg[0] > max(cpos)
        info["order_witness"] = str(nms)
        w = [t for t in tr if t[0] in WRITES]
        ctx.decided("%s/wiring/one-row-write#%d" % (name, kx), "ensures", len(w) == 1, witness=str(nms))
        if len(w) != 1:
            continue
        _, wargs, wkw = w[0]
        table = wargs[1]
        info["table"] = table
        # index wiring
        ic = [t for t in tr if t[0] in ("_get_index_with_check", "_get_multiple_index_with_check")]
        ok = (len(ic) == 1 and ic[0][1][1] == table and pv_is(ic[0][1][2], "index")
              and isinstance(wargs[2], SD.PV) and wargs[2].t.eq(z3.Const("new_index", SD.PyVal))
              and isinstance(p.result, SD.PV) and p.result.t.eq(z3.Const("new_index", SD.PyVal)))
        ctx.decided("%s/wiring/index-checked-written-returned#%d" % (name, kx), "ensures", ok, witness=str(ic))
        # component registration matches the table
        comp = [t for t in tr if t[0] == "add_new_component"]
        tn = None
        if comp and hasattr(comp[0][1][1], "name"):
            m = CL.lookup_method(comp[0][1][1], "table_name")
            ps = E.Evaluator().run_all(m, lambda: ([comp[0][1][1]], {}))
            tn = ps[0].result if len(ps) == 1 else None
        ctx.decided("%s/wiring/registered-component-owns-table#%d" % (name, kx), "ensures", tn == table, witness=repr((tn, table)))
        # references
        checked = []
        for nm, a, kw in tr:
            if nm in CHECKS:
                checked += [x for x in list(a) + list(kw.values()) if isinstance(x, SD.PV)]
        for r in [x for x in names if x in REF_JUNCTION]:
            ctx.decided("%s/wiring/reference-checked/%s#%d" % (name, r, kx), "ensures",
                        any(pv_is(x, r) for x in checked), witness=str(nms))
        if "std_type" in names and name in ("create_pipe", "create_pipes", "create_pump"):
            sc = [t for t in tr if t[0] == "_check_std_type"]
            ctx.decided("%s/wiring/std-type-checked#%d" % (name, kx), "ensures",
                        bool(sc) and pv_is(sc[0][1][1], "std_type") and sc[0][1][2] == ("pump" if "pump" in name else "pipe"),
                        witness=str(sc))
        # entries
        entries = dict(wkw)
        entries.pop("preserve_dtypes", None)
        if comp and hasattr(comp[0][1][1], "name"):
            m = CL.lookup_method(comp[0][1][1], "get_component_input")
            ps = E.Evaluator().run_all(m, lambda: ([comp[0][1][1]], {}))
            cols = ps[0].result if len(ps) == 1 and ps[0].exc is None else None
            okc = isinstance(cols, list) and all(isinstance(c, tuple) and len(c) == 2 for c in cols)
            ctx.decided("%s/entries/input-columns-known#%d" % (name, kx), "cover", okc, witness=repr(cols))
            if okc:
                colnames = [c[0] for c in cols]
                info["cols"] = colnames
                ctx.decided("%s/entries/every-input-column-written#%d" % (name, kx), "ensures",
                            all(c in entries for c in colnames), witness=str(sorted(set(colnames) - set(entries))))
                ctx.decided("%s/entries/no-undeclared-column#%d" % (name, kx), "ensures",
                            all(c in colnames for c in entries), witness=str(sorted(set(entries) - set(colnames))))
                boolcols = {c[0] for c in cols if c[1] == "bool"}
                for c in colnames:
                    if c not in entries:
                        continue
                    src = source_param(c, names, bulk)
                    v = entries[c]
                    if (name, c) in DERIVED or ("*", c) in DERIVED and name in DERIVED[("*", c)][0]:
                        key = (name, c) if (name, c) in DERIVED else ("*", c)
                        good, wit = DERIVED[key][1](name, v, tr, p)
                        ctx.decided("%s/entries/column-%s-derived-as-documented#%d" % (name, c, kx), "ensures", good, witness=wit)
                        continue
                    if src is None:
                        ctx.decided("%s/entries/column-%s-has-a-source#%d" % (name, c, kx), "ensures", False,
                                    witness="no parameter named like the column and no derivation rule: %r" % (v,))
                        continue
                    good = pv_is(v, src) or (c in boolcols and is_z3(v) and v.eq(SD.PV(z3.Const("arg!" + src, SD.PyVal)).truthy()))
                    ctx.decided("%s/entries/column-%s-carries-parameter-%s#%d" % (name, c, src, kx), "ensures", good, witness=repr(v))
        info.setdefault("entries", []).append(entries)
        if any(t[0] == "load_std_type" for t in tr):
            e0, e1 = std_entry(), p.args[0][0].std_entry

            def same(a, b):
                if isinstance(a, NS):
                    return isinstance(b, NS) and a.t.eq(b.t)
                return is_z3(b) and a.eq(b)
            ctx.decided("%s/frame/std-type-library-entry-untouched#%d" % (name, kx), "frame",
                        set(e0) == set(e1) and all(same(e0[k], e1[k]) for k in e0), witness=repr(e1))
        if name == "create_pump_from_parameters":
            # the referenced standard type exists afterwards: either created here or checked
            ok = any(t[0] in ("write:std_types", "_check_std_type") for t in tr)
            info["std_ref_ok"] = info.get("std_ref_ok", True) and ok
    if name == "create_pump_from_parameters":
        ctx.decided("%s/wiring/std-type-created-or-checked" % name, "ensures", info.get("std_ref_ok", False),
                    witness="a path writes std_type=new_std_type_name without creating or checking that type",
                    replay={"handler": "create_pump_unknown_type", "input": {}})
    # F7: the component table (and component_list entry) is created before the reference checks can reject the call
    ctx.decided("%s/atomic/component-registered-after-checks" % name, "ensures", info.get("registered_after_checks", False),
                witness=info.get("order_witness"),
                replay={"handler": "create_registers_before_check", "input": {"function": name}})
    return info


def _d_auto_type(name, v, tr, p):
    """type of pressure/temperature fixing elements: the result of _auto_ext_grid_type(s) applied to the pressure,
    the temperature and the given type"""
    calls = [t for t in tr if t[0] in ("_auto_ext_grid_type", "_auto_ext_grid_types")]
    pn = {"create_ext_grid": ("p_bar", "t_k"), "create_ext_grids": ("p_bar", "t_k"),
          "create_circ_pump_const_pressure": ("p_flow_bar", "t_flow_k"),
          "create_circ_pump_const_mass_flow": ("p_flow_bar", "t_flow_k")}[name]
    ok = (len(calls) == 1 and pv_is(calls[0][1][0], pn[0]) and pv_is(calls[0][1][1], pn[1]) and pv_is(calls[0][1][2], "type")
          and isinstance(v, SD.PV) and v.t.eq(z3.Const("auto_type", SD.PyVal)))
    return ok, repr((v, calls))


def _d_mass_init(name, v, tr, p):
    """initial content limited to [min, max] (documented)"""
    ok = any(pv_is(v, x) for x in ("init_m_stored_kg", "max_m_stored_kg", "min_m_stored_kg"))
    conds = str(p.conds)
    if pv_is(v, "max_m_stored_kg"):
        ok = ok and "pylt(arg!max_m_stored_kg, arg!init_m_stored_kg)" in conds
    if pv_is(v, "min_m_stored_kg"):
        ok = ok and ("pylt(arg!init_m_stored_kg, arg!min_m_stored_kg)" in conds or "pylt(arg!max_m_stored_kg, arg!min_m_stored_kg)" in conds)
    if pv_is(v, "init_m_stored_kg"):
        ok = ok and "Not(pylt(arg!max_m_stored_kg, arg!init_m_stored_kg))" in conds \
            and "Not(pylt(arg!init_m_stored_kg, arg!min_m_stored_kg))" in conds
    return ok, repr((v, conds))


def _d_std(colname):
    def f(name, v, tr, p):
        e = p.args[0][0].std_entry
        loads = [t for t in tr if t[0] == "load_std_type"]
        ok = len(loads) >= 1 and pv_is(loads[0][1][1], "std_type") and loads[0][1][2] == "pipe"
        exp = std_entry()[colname]
        if isinstance(exp, NS):
            same = isinstance(v, NS) and is_z3(v.t) and v.t.eq(exp.t)
        else:
            same = is_z3(v) and v.eq(exp)
        return ok and same, repr((v, loads))
    return f


def _d_pump_type(name, v, tr, p):
    return pv_is(v, "new_std_type_name"), repr(v)


def _d_const_none(name, v, tr, p):
    return v is None, repr(v)


def _d_circ_junction(which):
    def f(name, v, tr, p):
        return pv_is(v, which), repr(v)
    return f


DERIVED = {("*", "type"): (("create_ext_grid", "create_ext_grids", "create_circ_pump_const_pressure",
                            "create_circ_pump_const_mass_flow"), _d_auto_type),
           ("create_mass_storage", "init_m_stored_kg"): (None, _d_mass_init),
           ("create_pipe", "inner_diameter_mm"): (None, _d_std("inner_diameter_mm")),
           ("create_pipe", "outer_diameter_mm"): (None, _d_std("outer_diameter_mm")),
           ("create_pipe", "k_mm"): (None, _d_std("k_mm")),
           ("create_pipe", "u_w_per_m2k"): (None, _d_std("u_w_per_m2k")),
           ("create_pipes", "inner_diameter_mm"): (None, _d_std("inner_diameter_mm")),
           ("create_pipes", "outer_diameter_mm"): (None, _d_std("outer_diameter_mm")),
           ("create_pipes", "k_mm"): (None, _d_std("k_mm")),
           ("create_pipes", "u_w_per_m2k"): (None, _d_std("u_w_per_m2k")),
           ("create_pipe_from_parameters", "std_type"): (None, _d_const_none),
           ("create_pipes_from_parameters", "std_type"): (None, _d_const_none),
           ("create_pump_from_parameters", "std_type"): (None, _d_pump_type),
           }


PLURAL = {"junction": "junctions", "from_junction": "from_junctions", "to_junction": "to_junctions", "element": "elements",
          "controlled_junction": "controlled_junctions"}
RENAMED = {("create_circ_pump_const_pressure", "from_junction"): None}


def source_param(col, names, bulk):
    """the parameter that must reach column `col`: same name, or its plural in a bulk function; None if the column is
    derived (ext_grid type, std-type parameters, pump return/flow junction naming) and has its own obligation"""
    if col in names:
        return col
    if bulk and PLURAL.get(col) in names:
        return PLURAL[col]
    return None


@unit("C16", "catalogue", functions=[], engine="E5")
def catalogue(ctx):
    ctx.assume("A6")
    cs = creators()
    ctx.decided("create-functions-found", "cover", len(cs) >= 28, witness=str(cs))
    single = [c for c in cs if c + "s" in cs or (c.replace("_from_parameters", "s_from_parameters") in cs and c != c.replace("_from_parameters", "s_from_parameters"))]
    ctx.decided("bulk-partners-found", "cover", len(single) >= 11, witness=str(single))


def _mk_units():
    for name in creators():
        if name in OUTSIDE_SUBSET:
            continue
        bulk = name.endswith("s") or "s_from_parameters" in name

        def f(ctx, _n=name, _b=bulk):
            ctx.assume("A4", "A6", "A7")
            analyse(ctx, _n, _b)
        unit("C16", "create/" + name, functions=[CR + ":" + name], engine="E5")(f)


_mk_units()


# ---------------------------------------------------------------------------------------------
# documented defaults

DEFAULT_RE = re.compile(r":type\s+(\w+)\s*:[^\n]*?default\s+(.+?)\s*$", re.M)


def doc_defaults(fref):
    doc = ast.get_docstring(fref.node) or ""
    out = {}
    for m in DEFAULT_RE.finditer(doc):
        out[m.group(1)] = m.group(2).strip().rstrip(".")
    return out


def norm_default(txt):
    t = txt.strip()
    t = t.split(",")[0].strip()                    # "None, will be set equal to ..." -> "None"
    m = re.match(r"^([-+]?\d+(?:\.\d*)?(?:[eE][-+]?\d+)?)(?:\s+[A-Za-z/%]+)?$", t)   # "0.2 mm" -> 0.2
    if m:
        return float(m.group(1))
    t = t.strip('"').strip("'")
    low = t.lower()
    if low in ("none", "true", "false"):
        return {"none": None, "true": True, "false": False}[low]
    if low in ("np.inf", "inf", "infinity"):
        return float("inf")
    try:
        return float(t)
    except ValueError:
        return t


def ast_default(node):
    try:
        v = ast.literal_eval(node)
    except Exception:  # noqa
        src = ast.unparse(node)
        if src in ("np.inf", "numpy.inf"):
            return float("inf")
        return src
    if isinstance(v, bool) or v is None or isinstance(v, str):
        return v
    if isinstance(v, (int, float)):
        return float(v)
    return v


@unit("C16", "documented_defaults", functions=[CR + ":" + n for n in creators()], engine="E5")
def documented_defaults(ctx):
    ctx.assume("A6")
    total = 0
    for name in creators():
        fref = S.get_function(CR + ":" + name)
        names, defaults, _ = params_of(fref)
        docs = doc_defaults(fref)
        for prm, node in defaults.items():
            if prm not in docs:
                continue
            total += 1
            sig, doc = ast_default(node), norm_default(docs[prm])
            ctx.decided("%s/default[%s]" % (name, prm), "ensures", sig == doc,
                        witness="signature %r, documented %r" % (sig, docs[prm]),
                        replay={"handler": "create_doc_default", "input": {"function": name, "param": prm, "documented": docs[prm]}})
    ctx.decided("documented-defaults-found", "cover", total >= 60, witness=str(total))


# ---------------------------------------------------------------------------------------------
# bulk == one by one

def partner(name):
    if name.endswith("_from_parameters"):
        return name.replace("_from_parameters", "s_from_parameters")
    return name + "s"


@unit("C16", "bulk_equals_single", functions=[], engine="E5")
def bulk_equals_single(ctx):
    """the bulk function writes the same table and the same columns from the corresponding (plural) parameters, runs the
    plural form of every check and has the same defaults -- with the row-writer contracts this makes a bulk call
    equal to the sequence of single calls"""
    ctx.assume("A4", "A6", "A7")
    cs = creators()
    pairs = [(c, partner(c)) for c in cs if partner(c) in cs]
    ctx.decided("pairs-found", "cover", len(pairs) >= 11, witness=str(pairs))
    check_plural = {"_check_junction_element": "_check_multiple_junction_elements", "_check_branch": "_check_branches",
                    "_get_index_with_check": "_get_multiple_index_with_check", "_check_element": "_check_multiple_elements",
                    "_check_std_type": "_check_std_type", "_auto_ext_grid_type": "_auto_ext_grid_types"}
    for single, bulk in pairs:
        if bulk in OUTSIDE_SUBSET:
            continue
        fs, ns, ds, ps = run_creator(ctx, single)
        fb, nb, db, pb = run_creator(ctx, bulk)

        def main_path(paths):
            best = None
            for p in paths:
                if p.exc is None and any(t[0] in WRITES for t in p.args[0][0].trace):
                    best = p if best is None or len(p.conds) <= len(best.conds) else best
            return best
        a, b = main_path(ps), main_path(pb)
        ok = a is not None and b is not None
        ctx.decided("%s/both-evaluated" % single, "cover", ok)
        if not ok:
            continue
        ta, tb = a.args[0][0].trace, b.args[0][0].trace
        wa = [t for t in ta if t[0] in WRITES][0]
        wb = [t for t in tb if t[0] in WRITES][0]
        ctx.decided("%s/same-table" % single, "ensures", wa[1][1] == wb[1][1], witness=repr((wa[1][1], wb[1][1])))
        ea, eb = dict(wa[2]), dict(wb[2])
        ctx.decided("%s/same-columns" % single, "ensures", set(ea) == set(eb), witness=str(sorted(set(ea) ^ set(eb))))
        for c in sorted(set(ea) & set(eb)):
            sa, sb = param_of_value(ea[c], ns), param_of_value(eb[c], nb)
            if sa is None and sb is None:
                continue
            good = sa is not None and sb is not None and (sb[0] == sa[0] or sb[0] == PLURAL.get(sa[0]) or sb[0] == sa[0] + "s")
            ctx.decided("%s/column-%s-from-corresponding-parameter" % (single, c), "ensures", good, witness=repr((sa, sb)))
        # defaults of corresponding parameters
        for prm, node in ds.items():
            q = prm if prm in db else (PLURAL.get(prm) if PLURAL.get(prm) in db else (prm + "s" if prm + "s" in db else None))
            if q is None:
                continue
            ctx.decided("%s/same-default[%s]" % (single, prm), "ensures", ast_default(node) == ast_default(db[q]),
                        witness="single %r, bulk %r" % (ast_default(node), ast_default(db[q])))
        # plural checks
        ca = [check_plural.get(t[0]) for t in ta if t[0] in check_plural]
        cb = [t[0] for t in tb if t[0] in check_plural.values()]
        ctx.decided("%s/plural-form-of-every-check" % single, "ensures", all(x in cb for x in ca), witness=repr((ca, cb)))


def param_of_value(v, names):
    """(parameter, 'value' | 'truth') if v is a parameter or its truth value"""
    for nme in names[1:]:
        if pv_is(v, nme):
            return (nme, "value")
        if is_z3(v) and v.eq(SD.PV(z3.Const("arg!" + nme, SD.PyVal)).truthy()):
            return (nme, "truth")
    return None


# ---------------------------------------------------------------------------------------------
# the pandapipes-owned check

@unit("C16", "check_std_type", functions=[CR + ":_check_std_type"], engine="E5")
def check_std_type(ctx):
    ctx.assume("A6", "A7")
    fref = S.get_function(CR + ":_check_std_type")
    ctx.use_function(fref)
    has_lib, known = z3.Bool("has_std_types"), z3.Bool("type_known")

    class Lib:
        def contains(self, ev, x, *a):
            return known

    class Net:
        def contains(self, ev, x, *a):
            return has_lib if x == "std_types" else False

        def getitem(self, ev, key, lineno):
            if key == "std_types":
                return {"pipe": Lib(), "pump": Lib()}
            raise Unsupported("net[%r]" % key)
    paths = E.Evaluator().run_all(fref, lambda: ([Net(), SD.PV(z3.Const("arg!std_type", SD.PyVal)), "pipe", "create_pipe"], {}))
    ok_paths = [p for p in paths if p.exc is None]
    bad = [p for p in paths if p.exc is not None]
    ctx.decided("paths", "cover", len(ok_paths) == 1 and len(bad) == 2, witness=str([str(p.exc) for p in paths]))
    for p in ok_paths:
        ctx.ob("returns-only-for-a-known-type", "ensures", [p.cond()], z3.And(has_lib, known))
    for kx, p in enumerate(bad):
        ctx.decided("raises-UserWarning#%d" % kx, "ensures", getattr(p.exc, "cls", None) == "UserWarning" or "UserWarning" in str(p.exc), witness=str(p.exc))
        ctx.ob("raises-only-for-an-unknown-type#%d" % kx, "ensures", [p.cond()], z3.Not(z3.And(has_lib, known)))


@unit("C16", "bounded/native", functions=[CR + ":_set_entries", CR + ":_set_multiple_entries", CR + ":_preserve_dtypes",
                                          CR + ":create_valves", CR + ":create_heat_consumers"], engine="bounded")
def native_bounded(ctx):
    """bounded stand-in for what the recording contracts assume (pandas row writers, pandapower's checks) and for the two
    functions outside the subset: every create function natively on one small populated water net"""
    res = venv_run("bounded.py", {"what": "create_functions"}, timeout=1500)["checks"]
    scope = ("28 create functions on one populated water net (4 junctions, 2 pipes, 1 sink): every junction / pipe / std-type "
             "argument replaced by a missing reference, duplicate index, bulk (2 rows, empty and populated table) against two "
             "single calls, every library pipe type against create_pipe_from_parameters with the type's parameters; explicit "
             "k_mm / u_w_per_m2k overrides (0 and non-zero) on 4 pipe types through create_pipe and create_pipes followed by a second "
             "pipe of the same type; ext grids with p_bar / t_k in {0, None, NaN, value}")
    for k, v in res.items():
        ctx.bounded(k, v["ok"], scope=scope, cases=v["cases"], witness=v.get("witness"),
                    replay={"handler": "bounded_named", "input": {"what": "create_functions", "check": k}} if not v["ok"] else None)


# ---------------------------------------------------------------------------------------------
# the type resolution of the pressure / temperature fixing elements, for every (pressure, temperature, type)

@unit("C16", "auto_ext_grid_type", functions=[CR + ":_auto_ext_grid_type"], engine="E1")
def auto_ext_grid_type(ctx):
    """documented rule: a value counts as NOT GIVEN iff it is None or NaN (0 bar / 0 K are values); both missing is an
    error; 'auto' resolves to the letters of the given values; an explicit type needs its own values; 'tp' is 'pt'"""
    ctx.assume("A6")
    from pvc import symdict as SD
    from pvc.ev import Obj
    p, t = SD.PV(z3.Const("p_bar", SD.PyVal)), SD.PV(z3.Const("t_k", SD.PyVal))
    comp = Obj("comp", {"__name__": "ExtGrid"})
    for typ in ("auto", "p", "t", "pt", "tp", "something-else"):
        paths = T.run_paths(ctx, CR + ":_auto_ext_grid_type", lambda _typ=typ: ([p, t, _typ, comp], {}))
        ctx.decided("%s/paths" % typ, "cover", len(paths) >= 2, witness=str(len(paths)))
        p_null = z3.Or(p.is_none(), p.isnan())
        t_null = z3.Or(t.is_none(), t.isnan())
        if typ == "auto":
            want = [(z3.And(z3.Not(p_null), z3.Not(t_null)), "pt"), (z3.And(z3.Not(p_null), t_null), "p"),
                    (z3.And(p_null, z3.Not(t_null)), "t")]
            err = z3.And(p_null, t_null)
        else:
            need_p, need_t = typ != "t", typ != "p"
            err = z3.Or(z3.And(p_null, t_null), z3.And(p_null, need_p) if need_p else False,
                        z3.And(t_null, need_t) if need_t else False)
            want = [(z3.Not(err), "pt" if typ == "tp" else typ)]
        ax = SD.pv_axioms()
        facts = T.all_facts(paths)
        raises = z3.Or(*[pp.cond() for pp in paths if pp.exc is not None]) if any(pp.exc is not None for pp in paths) else z3.BoolVal(False)
        ctx.ob("%s/rejected-iff-a-needed-value-is-missing" % typ, "ensures", ax + facts, raises == err)
        for cond, res in want:
            g = z3.And(*[z3.Implies(z3.And(pp.cond(), cond), z3.BoolVal(pp.exc is None and pp.result == res)) for pp in paths])
            ctx.ob("%s/resolves-to-%s" % (typ, res), "ensures", ax + facts, g)
        ctx.decided("%s/only-UserWarning-is-raised" % typ, "ensures",
                    all(pp.exc is None or "UserWarning" in str(pp.exc) for pp in paths),
                    witness=str([str(pp.exc) for pp in paths]))


# ---------------------------------------------------------------------------------------------
# std-type parameters are COPIED out of the library: creating an element never writes net.std_types

CTBX = "pandapipes.component_models.component_toolbox"


@unit("C16", "retrieve_u", functions=[CTBX + ":retrieve_u"], engine="E1")
def retrieve_u_contract(ctx):
    """retrieve_u(params) returns a dictionary that is never the argument object and leaves the argument (an entry of
    the std-type library) unwritten, on every path -- so later overrides (k_mm=, u_w_per_m2k=) by the create functions
    cannot change the library and a second element of the same type still equals the type's parameters"""
    ctx.assume("A6")
    keys = ["u_w_per_m2k", "u_w_per_mk", "outer_diameter_mm", "inner_diameter_mm", "nominal_width_mm"]
    made = []

    def mk():
        d = SD.SymDict(keys + [SD.KAPPA], "params")
        made.append(d)
        return [d], {}
    try:
        paths = T.run_paths(ctx, CTBX + ":retrieve_u", mk)
    except Unsupported as e:
        paths = None
        why = str(e)
    if paths is not None:
        ok = len(paths) >= 2
        ctx.decided("paths", "cover", ok, witness=str(len(paths)))
        normal = [p for p in paths if p.exc is None]
        ctx.decided("result-is-never-the-argument-object", "frame",
                    all(p.result is not p.args[0][0] for p in normal) and len(normal) >= 1,
                    witness="a path returns its argument: the caller's later params[...] = ... stores write the std-type library")
        ctx.decided("argument-is-not-written", "frame", all(not p.args[0][0].writes for p in paths),
                    witness=str([p.args[0][0].writes for p in paths]))
        return
    # the arithmetic of the conversion is outside the untyped-value domain: decide the aliasing clause on the AST
    f = S.get_function(CTBX + ":retrieve_u")
    ctx.use_function(f)
    body = [st for st in f.node.body if not (isinstance(st, ast.Expr) and isinstance(st.value, ast.Constant))]
    arg = f.node.args.args[0].arg
    copies = ("copy.deepcopy(%s)" % arg, "deepcopy(%s)" % arg, "dict(%s)" % arg, "%s.copy()" % arg, "{**%s}" % arg,
              "copy.copy(%s)" % arg)
    idx = [(k, st.targets[0].id) for k, st in enumerate(body) if isinstance(st, ast.Assign) and isinstance(st.targets[0], ast.Name)
           and ast.unparse(st.value) in copies]
    ctx.decided("argument-is-copied", "frame", len(idx) >= 1,
                witness="no top-level `<name> = copy.deepcopy(%s)` (or dict / .copy()) in retrieve_u (%s)" % (arg, why))
    if not idx:
        return
    pos, copyname = idx[0]
    bad = []

    def scan(stmts, after_copy):
        for st in stmts:
            for n in ast.walk(st):
                names = lambda e: [x.id for x in ast.walk(e) if isinstance(x, ast.Name)]
                # the ORIGINAL object is `arg` before the copy, and still `arg` afterwards unless the copy rebinds that name
                orig_alive = (not after_copy) or copyname != arg
                if not orig_alive:
                    continue
                if isinstance(n, ast.Return) and n.value is not None and arg in names(n.value):
                    bad.append("line %d returns the argument object itself: %s" % (n.lineno, ast.unparse(n)))
                if isinstance(n, (ast.Assign, ast.AugAssign, ast.Delete)):
                    tg = n.targets if isinstance(n, (ast.Assign, ast.Delete)) else [n.target]
                    for t_ in tg:
                        if isinstance(t_, ast.Subscript) and ast.unparse(t_.value) == arg:
                            bad.append("line %d writes the argument object: %s" % (n.lineno, ast.unparse(n)))
                if isinstance(n, ast.Call) and isinstance(n.func, ast.Attribute) and ast.unparse(n.func.value) == arg \
                        and n.func.attr in ("update", "pop", "setdefault", "clear", "popitem"):
                    bad.append("line %d mutates the argument object: %s" % (n.lineno, ast.unparse(n)))
    scan(body[:pos], False)
    scan(body[pos + 1:], True)
    ctx.decided("no-return-of-or-store-into-the-argument-before-the-copy", "frame", not bad, witness="; ".join(bad))


@unit("C16", "create_pipes/std_type_list", functions=[CR + ":create_pipes"], engine="E5")
def create_pipes_std_type_list(ctx):
    """create_pipes with ONE STD TYPE PER PIPE (a list): every std-type column of row k carries the parameter of the k-th
    named type -- the branch of create_pipes that the scalar evaluation does not reach (list of two symbolic names)"""
    ctx.assume("A6")
    s0, s1 = SD.PV(z3.Const("arg!std_type!0", SD.PyVal)), SD.PV(z3.Const("arg!std_type!1", SD.PyVal))
    cols = ("inner_diameter_mm", "outer_diameter_mm", "k_mm", "u_w_per_m2k")

    def entry(sv):
        tag = "0" if sv.t.eq(s0.t) else ("1" if sv.t.eq(s1.t) else "x")
        return {c: z3.Real("std!%s!%s" % (c, tag)) for c in cols}
    fref, names, defaults, paths = run_creator(ctx, "create_pipes", arg_override={"std_type": lambda: [s0, s1]}, std_for=entry)
    normal = [p for p in paths if p.exc is None]
    ctx.decided("paths", "cover", len(normal) >= 1, witness=str([str(p.exc) for p in paths]))
    for kx, p in enumerate(normal):
        tr = p.args[0][0].trace
        sets = [t for t in tr if t[0] == "_set_multiple_entries"]
        checks = [t for t in tr if t[0] == "_check_std_type"]
        ctx.decided("every-named-type-is-checked#%d" % kx, "ensures",
                    len(checks) == 2 and checks[0][1][1] is s0 and checks[1][1][1] is s1, witness=str(checks))
        ctx.decided("one-bulk-write#%d" % kx, "cover", len(sets) == 1, witness=str(len(sets)))
        if len(sets) != 1:
            continue
        kw = sets[0][2]
        for c in cols:
            v = kw.get(c)
            ok = isinstance(v, list) and len(v) == 2 and all(is_z3(x) for x in v) and \
                v[0].eq(entry(s0)[c]) and v[1].eq(entry(s1)[c])
            ctx.decided("%s-of-row-k-is-that-of-the-k-th-type#%d" % (c, kx), "schema", ok, witness=repr(v))



@unit("C16", "create_pipe/overrides", functions=[CR + ":create_pipe", CR + ":create_pipes"], engine="E5")
def create_pipe_overrides(ctx):
    """explicitly given k_mm / u_w_per_m2k -- ANY given value, also 0 -- replace the std type's value in the row; a value
    that is not given leaves the type's parameter; single and bulk creation agree.  The two deprecation helpers are
    replaced by their contract: they return the given value or None."""
    ctx.assume("A6")
    gk, gu = SD.PV(z3.Const("given!k_mm", SD.PyVal)), SD.PV(z3.Const("given!u_w_per_m2k", SD.PyVal))
    std = {c: z3.Real("std!" + c) for c in ("inner_diameter_mm", "outer_diameter_mm", "k_mm", "u_w_per_m2k")}
    extra = {"pandapipes.toolbox:_deprecation_check_u": (lambda ev, a, k: gu),
             "pandapipes.toolbox:_deprecation_check_k": (lambda ev, a, k: gk)}
    for fn, setter in (("create_pipe", "_set_entries"), ("create_pipes", "_set_multiple_entries")):
        fref, names, defaults, paths = run_creator(ctx, fn, std_for=lambda sv: dict(std), contracts_extra=extra)
        normal = [p for p in paths if p.exc is None]
        ctx.decided("%s/paths" % fn, "cover", len(normal) >= 2, witness=str([str(p.exc) for p in paths]))
        for kx, p in enumerate(normal):
            sets = [t for t in p.args[0][0].trace if t[0] == setter]
            if len(sets) != 1:
                ctx.decided("%s/one-write#%d" % (fn, kx), "cover", False, witness=str(len(sets)))
                continue
            kw = sets[0][2]
            for col, given in (("k_mm", gk), ("u_w_per_m2k", gu)):
                v = kw.get(col)
                is_given = isinstance(v, SD.PV) and v.t.eq(given.t)
                is_std = is_z3(v) and v.eq(std[col])
                ax = SD.pv_axioms()
                ctx.ob("%s/%s/given-value-of-any-kind-reaches-the-row#%d" % (fn, col, kx), "ensures",
                       ax + [p.cond(), z3.Not(given.is_none())], z3.BoolVal(bool(is_given)))
                ctx.ob("%s/%s/type-parameter-when-not-given#%d" % (fn, col, kx), "ensures",
                       ax + [p.cond(), given.is_none()], z3.BoolVal(bool(is_std)))


@unit("C16", "deprecation_checks", functions=["pandapipes.toolbox:_deprecation_check_k", "pandapipes.toolbox:_deprecation_check_u"], engine="E1")
def deprecation_checks(ctx):
    """the contract assumed by create_pipe/overrides: the helpers hand back the value given by the caller (whatever it is),
    else None (k: 0 for a std type without roughness); they remove the key from kwargs so that it is not written twice"""
    ctx.assume("A6")
    keys = ["k_mm", "u_w_per_m2k", "alpha_w_per_m2k", SD.KAPPA]
    ax = lambda: SD.pv_axioms()
    for fn, key in (("_deprecation_check_k", "k_mm"), ("_deprecation_check_u", "u_w_per_m2k")):
        made = {}

        def mk(_fn=fn):
            kw = SD.SymDict(keys, "kwargs")
            made["kw"] = kw
            if _fn.endswith("_k"):
                prm = SD.SymDict(["k_mm", SD.KAPPA], "params")
                made["prm"] = prm
                return [kw, prm], {}
            return [kw], {}
        paths = T.run_paths(ctx, "pandapipes.toolbox:" + fn, mk, dict_universe=keys)
        ok = len(paths) >= 2 and all(p.exc is None for p in paths)
        ctx.decided("%s/paths" % fn, "cover", ok, witness=str([str(p.exc) for p in paths]))
        if not ok:
            continue
        kw0 = SD.SymDict(keys, "kwargs")
        for kx, p in enumerate(paths):
            res = p.result
            given = kw0.present[key]
            rt = SD.to_pv(res).t if res is not None else SD.pv_const(None)
            ctx.ob("%s/given-value-returned#%d" % (fn, kx), "ensures", ax() + [p.cond(), given], rt == kw0.value[key])
            ctx.ob("%s/key-removed-from-kwargs#%d" % (fn, kx), "ensures", ax() + [p.cond(), given],
                   z3.Not(p.args[0][0].present[key]))
            if fn.endswith("_u"):
                ctx.ob("%s/none-when-nothing-given#%d" % (fn, kx), "ensures",
                       ax() + [p.cond(), z3.Not(given), z3.Not(kw0.present["alpha_w_per_m2k"])], rt == SD.pv_const(None))
            else:
                prm0 = SD.SymDict(["k_mm", SD.KAPPA], "params")
                ctx.ob("%s/none-when-the-type-has-a-roughness#%d" % (fn, kx), "ensures",
                       ax() + [p.cond(), z3.Not(given), prm0.present["k_mm"]], rt == SD.pv_const(None))


@unit("C16", "reference_checks/forwarding", functions=[CR + ":_check_branch", CR + ":_check_branches", CR + ":_check_junction_element",
                                                       CR + ":_check_multiple_junction_elements"], engine="E5")
def reference_check_forwarding(ctx):
    """the four reference checks are thin wrappers of pandapower's element checks (assumed contract A4: raise UserWarning
    iff a referenced index is missing in net[<node table>]): each hands over the net and EVERY reference it was given, and
    names the junction table as the table to look the references up in"""
    ctx.assume("A4", "A6")
    net = K.NetObj({})
    a_, b_, i_ = (SD.PV(z3.Const("arg!%s" % n, SD.PyVal)) for n in ("from", "to", "index"))
    cases = [("_check_junction_element", [net, a_], "_check_element", [a_]),
             ("_check_multiple_junction_elements", [net, a_], "_check_multiple_elements", [a_]),
             ("_check_branch", [net, "Pipe", i_, a_, b_], "_check_branch_element", [a_, b_]),
             ("_check_branches", [net, a_, b_, "pipe"], "_check_multiple_branch_elements", [a_, b_])]
    for fn, args, target, refs in cases:
        calls = []

        class _X:
            def __init__(self, nm):
                self.nm = nm

            def call(self, ev, a, k, lineno):
                calls.append((self.nm, list(a), dict(k)))
                return None
        paths = T.run_paths(ctx, CR + ":" + fn, lambda _a=args: (list(_a), {}),
                            hooks={"global": lambda m, n: _X(n) if n in ("_check_element", "_check_multiple_elements",
                                                                          "_check_branch_element", "_check_multiple_branch_elements") else None})
        ok = len(paths) == 1 and paths[0].exc is None and len(calls) == 1 and calls[0][0] == target
        ctx.decided("%s/delegates-to-%s" % (fn, target), "ensures", ok, witness=str(([str(p.exc) for p in paths], [c[0] for c in calls])))
        if not ok:
            continue
        _, a, k = calls[0]
        flat = list(a) + list(k.values())
        ctx.decided("%s/net-handed-over" % fn, "ensures", any(x is net for x in flat), witness=repr(a))
        ctx.decided("%s/every-reference-handed-over" % fn, "ensures", all(any(x is r for x in flat) for r in refs), witness=repr((a, k)))
        table = k.get("element", k.get("node_name"))
        ctx.decided("%s/looked-up-in-the-junction-table" % fn, "ensures", table == "junction" or "junction" in [x for x in a if isinstance(x, str)],
                    witness=repr((a, k)))
