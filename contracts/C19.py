"""C19 -- fluid and standard-type libraries return what their data and documentation say.

Engine E1/E2 on the real property classes: `get_at_value` / `get_at_integral_value` of every
property class are evaluated symbolically for every kind of query (python scalar, ndarray, pandas
Series -- the isinstance branches are path-split; an attribute the abstract input kind does not have
is a failed safety obligation).  The integral contract is  I(u, l) = F(u) - F(l)  with  F' = value,
which gives antisymmetry, additivity and consistency.  Pump curve: scalar path symbolically, array
path as a bounded stand-in (its broadcasting idiom is outside the subset).  Library data files are
a closed finite object and are evaluated exhaustively."""
import os
import z3

from pvc.harness import unit, venv_run
from pvc import src as S, kern as K, twin as T, ev as E
from pvc.val import *  # noqa
from pvc import val as V

FL = "pandapipes.properties.fluids"
PTB = "pandapipes.properties.properties_toolbox"
STC = "pandapipes.std_types.std_type_class"


def fcls(name):
    return S.get_module(FL).classes[name]


def query(kind, name, n):
    """the three kinds of query values"""
    if kind == "scalar":
        return z3.Real(name)
    if kind == "int-ndarray":
        return K.sym_arr(name, n, "i")      # integer dtype query values (e.g. np.array([300, 310]))
    a = K.sym_arr(name, n, "f")
    if kind == "series":
        return K.Series(n, a.f, "f", name)
    return a


def at(x, r):
    return x.f(r) if is_array(x) else x


def run_method(ctx, cname, meth, self_attrs, args, hooks=None):
    def mk():
        return [E.Obj(cname, dict(self_attrs()), cls=fcls(cname))] + list(args()), {}
    return T.run_paths(ctx, FL + ":%s.%s" % (cname, meth), mk, hooks=hooks)


def value_obligations(ctx, label, paths, expect_fn, kind, n, r, requires=(), replay=None):
    """no exception; result shaped like the query; element r equals the spec"""
    ok = [p for p in paths if p.exc is None]
    bad = [p for p in paths if p.exc is not None]
    ctx.decided("%s/no-exception" % label, "safety-attr", not bad,
                witness="raises %s" % ([("%s%s" % (p.exc.cls, p.exc.args)) for p in bad],),
                replay={"handler": "property_query", "input": {"label": label}})
    for kx, p in enumerate(ok):
        res = p.result
        if kind != "scalar":
            shaped = is_array(res) and same_term(res.n, n)
            ctx.decided("%s/shape#%d" % (label, kx), "ensures", shaped,
                        witness="result %r for a query of length n" % (res,))
            if not shaped:
                continue
        ctx.ob("%s/value#%d" % (label, kx), "ensures", list(requires) + [n >= 1, r >= 0, r < n, p.cond()],
               K.eq_val(at(res, r), expect_fn()), replay=(lambda m: replay) if replay else None)


KINDS = ("scalar", "ndarray", "series")


@unit("C19", "FluidPropertyConstant", functions=[FL + ":FluidPropertyConstant.get_at_value",
                                                 FL + ":FluidPropertyConstant.get_at_integral_value"], engine="E1")
def prop_constant(ctx):
    ctx.assume("A1", "A4", "A6")
    n, r, v = z3.Int("NQ"), z3.Int("r"), z3.Real("value")
    attrs = lambda: {"value": v, "warn_dependent_variables": False}
    for kind in KINDS + ("int-ndarray",):
        paths = run_method(ctx, "FluidPropertyConstant", "get_at_value", attrs, lambda: [query(kind, "arg", n)])
        value_obligations(ctx, "value/" + kind, paths, lambda: v, kind, n, r)
        if kind == "int-ndarray":
            continue
        paths = run_method(ctx, "FluidPropertyConstant", "get_at_integral_value", attrs,
                           lambda: [query(kind, "upper", n), query(kind, "lower", n)])
        u, l = query(kind, "upper", n), query(kind, "lower", n)
        value_obligations(ctx, "integral/" + kind, paths, lambda: v * (at(u, r) - at(l, r)), kind, n, r)


@unit("C19", "FluidPropertyLinear", functions=[FL + ":FluidPropertyLinear.get_at_value",
                                               FL + ":FluidPropertyLinear.get_at_integral_value"], engine="E1")
def prop_linear(ctx):
    ctx.assume("A1", "A4", "A6")
    n, r, a, b = z3.Int("NQ"), z3.Int("r"), z3.Real("slope"), z3.Real("offset")
    attrs = lambda: {"slope": a, "offset": b}
    for kind in KINDS:
        paths = run_method(ctx, "FluidPropertyLinear", "get_at_value", attrs, lambda: [query(kind, "arg", n)])
        x = query(kind, "arg", n)
        value_obligations(ctx, "value/" + kind, paths, lambda: b + a * at(x, r), kind, n, r)
        paths = run_method(ctx, "FluidPropertyLinear", "get_at_integral_value", attrs,
                           lambda: [query(kind, "upper", n), query(kind, "lower", n)])
        u, l = query(kind, "upper", n), query(kind, "lower", n)
        F = lambda t: b * t + a * t * t / 2          # antiderivative of  offset + slope * t
        value_obligations(ctx, "integral/" + kind, paths, lambda: F(at(u, r)) - F(at(l, r)), kind, n, r)


@unit("C19", "FluidPropertyInterExtra", functions=[FL + ":FluidPropertyInterExtra.get_at_value",
                                                   FL + ":FluidPropertyInterExtra.get_at_integral_value"], engine="E1")
def prop_interextra(ctx):
    ctx.assume("A1", "A4", "A6")
    n, r = z3.Int("NQ"), z3.Int("r")
    g = z3.Function("interp1d", z3.RealSort(), z3.RealSort())
    attrs = lambda: {"prop_getter": K._UFMethod(g, 1)}
    for kind in ("scalar", "ndarray"):
        paths = run_method(ctx, "FluidPropertyInterExtra", "get_at_value", attrs, lambda: [query(kind, "arg", n)])
        x = query(kind, "arg", n)
        value_obligations(ctx, "value/" + kind, paths, lambda: g(at(x, r)), kind, n, r)
        paths = run_method(ctx, "FluidPropertyInterExtra", "get_at_integral_value", attrs,
                           lambda: [query(kind, "upper", n), query(kind, "lower", n)])
        u, l = query(kind, "upper", n), query(kind, "lower", n)
        # trapezoid between the limits (exact on one linear piece of the interpolant)
        value_obligations(ctx, "integral/" + kind, paths,
                          lambda: (g(at(u, r)) + g(at(l, r))) / 2 * (at(u, r) - at(l, r)), kind, n, r,
                          replay={"handler": "interextra_integral", "input": {},
                                  "expected": "trapezoid between the limits, antisymmetric"})


@unit("C19", "FluidPropertyPolynominal", functions=[FL + ":FluidPropertyPolynominal.get_at_value",
                                                    FL + ":FluidPropertyPolynominal.get_at_integral_value"], engine="E1")
def prop_poly(ctx):
    ctx.assume("A1", "A4", "A6")
    n, r = z3.Int("NQ"), z3.Int("r")
    P = z3.Function("poly1d", z3.RealSort(), z3.RealSort())
    PI_ = z3.Function("polyint", z3.RealSort(), z3.RealSort())
    attrs = lambda: {"prop_getter": K._UFMethod(P, 1), "prop_int_getter": K._UFMethod(PI_, 1)}
    for kind in ("scalar", "ndarray"):
        paths = run_method(ctx, "FluidPropertyPolynominal", "get_at_value", attrs, lambda: [query(kind, "arg", n)])
        x = query(kind, "arg", n)
        value_obligations(ctx, "value/" + kind, paths, lambda: P(at(x, r)), kind, n, r)
        paths = run_method(ctx, "FluidPropertyPolynominal", "get_at_integral_value", attrs,
                           lambda: [query(kind, "upper", n), query(kind, "lower", n)])
        u, l = query(kind, "upper", n), query(kind, "lower", n)
        value_obligations(ctx, "integral/" + kind, paths, lambda: PI_(at(u, r)) - PI_(at(l, r)), kind, n, r)


@unit("C19", "FluidPropertySutherland", functions=[FL + ":FluidPropertySutherland.get_at_value"], engine="E1")
def prop_sutherland(ctx):
    ctx.assume("A1", "A3", "A4", "A6")
    n, r = z3.Int("NQ"), z3.Int("r")
    e0, t0, ts = z3.Reals("eta0 t0 t_sutherland")
    attrs = lambda: {"eta0": e0, "t0": t0, "t_sutherland": ts}
    for kind in ("scalar", "ndarray"):
        paths = run_method(ctx, "FluidPropertySutherland", "get_at_value", attrs, lambda: [query(kind, "arg", n)])
        x = query(kind, "arg", n)
        value_obligations(ctx, "value/" + kind, paths,
                          lambda: e0 * (t0 + ts) / (ts + at(x, r)) * V.val_of(V.power(at(x, r) / t0, Fraction(3, 2))),
                          kind, n, r, requires=[t0 > 0, ts > 0, e0 > 0])


@unit("C19", "integral_lemmas", engine="E1")
def integral_lemmas(ctx):
    """I(u,l) = F(u) - F(l) implies antisymmetry and additivity; trapezoid: antisymmetry only"""
    ctx.assume("A1")
    F = z3.Function("F", z3.RealSort(), z3.RealSort())
    u, l, m = z3.Reals("u l m")
    I = lambda a, b: F(a) - F(b)
    ctx.ob("antiderivative/antisymmetric", "lemma", [], I(u, l) == -I(l, u))
    ctx.ob("antiderivative/additive", "lemma", [], I(u, m) + I(m, l) == I(u, l))
    g = z3.Function("g", z3.RealSort(), z3.RealSort())
    Tz = lambda a, b: (g(a) + g(b)) / 2 * (a - b)
    ctx.ob("trapezoid/antisymmetric", "lemma", [], Tz(u, l) == -Tz(l, u))
    # on one linear piece g(t) = c0 + c1 t the trapezoid is exact and additive
    c0, c1 = z3.Reals("c0 c1")
    lin = [g(u) == c0 + c1 * u, g(l) == c0 + c1 * l, g(m) == c0 + c1 * m]
    ctx.ob("trapezoid/additive-on-a-linear-piece", "lemma", lin, Tz(u, m) + Tz(m, l) == Tz(u, l))
    ctx.ob("linear/consistent-with-value", "lemma", [],
           (c0 * u + c1 * u * u / 2) - (c0 * l + c1 * l * l / 2) == (c0 + c1 * (u + l) / 2) * (u - l))


# ---------------------------------------------------------------------------------------------
# pump curve

@unit("C19", "pump_curve/scalar", functions=[STC + ":PumpStdType.get_pressure"], engine="E1")
def pump_scalar(ctx):
    ctx.assume("A1", "A4", "A6")
    v = z3.Real("vdot")
    for deg in (1, 2, 3):
        coef = [z3.Real("c%d" % k) for k in range(deg + 1)]        # highest power first (np.polyfit)

        def mk():
            rp = Arr(deg + 1, lambda j: coef[j] if not is_z3(j) else V.R(0), "f")
            so = E.Obj("pump", {"reg_par": rp, "name": "P"}, cls=S.get_module(STC).classes["PumpStdType"])
            return [so, v], {}
        paths = T.run_paths(ctx, STC + ":PumpStdType.get_pressure", mk)
        poly = 0
        for k, c in enumerate(coef):
            poly = poly + c * V.val_of(V.power(v * 3600, deg - k))
        exp = z3.If(v < 0, 0, z3.If(poly >= 0, poly, 0))
        g = []
        for p in paths:
            if p.exc is not None:
                g.append(z3.Not(p.cond()))
            else:
                g.append(z3.Implies(p.cond(), K.eq_val(p.result, exp)))
        ctx.ob("degree%d/lift" % deg, "ensures", [], z3.And(*g))
        ctx.ob("degree%d/non-negative" % deg, "ensures", [],
               z3.And(*[z3.Implies(p.cond(), V.R(p.result) >= 0) for p in paths if p.exc is None]))


@unit("C19", "pump_curve/array", functions=[STC + ":PumpStdType.get_pressure"], engine="bounded")
def pump_array(ctx):
    """bounded stand-in: the array branch against the scalar contract for all flow vectors of length
    <= 3 over a grid of signs, three library pump types and a synthetic decreasing curve"""
    res = venv_run("bounded.py", {"what": "pump_array"})
    ctx.bounded("array-equals-scalar", res["ok"],
                scope="vdot vectors of length 0..3 over {-2e-3,-1e-9,0,1e-3,5e-3,5e-2} m3/s; library pumps P1,P2,P3 + synthetic",
                cases=res["cases"], witness=res.get("witness"),
                replay={"handler": "pump_array", "input": res.get("witness")} if not res["ok"] else None)


# ---------------------------------------------------------------------------------------------
# mixtures (component counts 1..4: explicit sums -- bounded in the number of components)

@unit("C19", "mixtures", functions=[PTB + ":calculate_mass_fraction_from_molar_fraction",
                                    PTB + ":calculate_mixture_molar_mass", PTB + ":calculate_mixture_density",
                                    PTB + ":calculate_mixture_heat_capacity"], engine="E2")
def mixtures(ctx):
    ctx.assume("A1", "A4", "A6")
    for n in (1, 2, 3, 4):
        x = [z3.Real("x%d" % i) for i in range(n)]
        M = [z3.Real("M%d" % i) for i in range(n)]
        pos = [xi > 0 for xi in x] + [mi > 0 for mi in M] + [sum(x) == 1]
        mk_arr = lambda vals: Arr(n, lambda j, _v=vals: _v[j] if not is_z3(j) else V.R(0), "f")
        paths = T.run_paths(ctx, PTB + ":calculate_mass_fraction_from_molar_fraction",
                            lambda: ([mk_arr(x), mk_arr(M)], {}))
        ok = len(paths) == 1 and paths[0].exc is None
        ctx.decided("n=%d/mass_fraction/returns" % n, "cover", ok, witness=str([str(p.exc) for p in paths]))
        if not ok:
            continue
        w = [paths[0].result.f(i) for i in range(n)]
        ctx.ob("n=%d/mass_fraction/sums-to-one" % n, "ensures", pos, sum(V.R(wi) for wi in w) == 1)
        den = sum(x[i] * M[i] for i in range(n))
        ctx.ob("n=%d/mass_fraction/value" % n, "ensures", pos,
               z3.And(*[V.R(w[i]) == x[i] * M[i] / den for i in range(n)]))
        # molar mass from molar fractions equals molar mass from the corresponding mass fractions
        pm = T.run_paths(ctx, PTB + ":calculate_mixture_molar_mass", lambda: ([mk_arr(M)], {"components_molar_proportions": mk_arr(x)}))
        pw = T.run_paths(ctx, PTB + ":calculate_mixture_molar_mass",
                         lambda: ([mk_arr(M)], {"components_mass_proportions": mk_arr([x[i] * M[i] / den for i in range(n)])}))
        ctx.ob("n=%d/molar_mass/molar-and-mass-forms-agree" % n, "ensures", pos,
               V.R(pm[0].result) == V.R(pw[0].result))
        lo = lambda vals: z3.And(*[z3.Or(*[v <= u for v in vals]) for u in vals])
        mm = V.R(pm[0].result)
        ctx.ob("n=%d/molar_mass/within-component-bounds" % n, "ensures", pos,
               z3.And(z3.Or(*[mm >= m_ for m_ in M]), z3.Or(*[mm <= m_ for m_ in M])))
        rho = [z3.Real("rho%d" % i) for i in range(n)]
        wv = [z3.Real("w%d" % i) for i in range(n)]
        posw = [wi > 0 for wi in wv] + [ri > 0 for ri in rho] + [sum(wv) == 1]
        pd_ = T.run_paths(ctx, PTB + ":calculate_mixture_density", lambda: ([mk_arr(rho), mk_arr(wv)], {}))
        dm = V.R(pd_[0].result)
        ctx.ob("n=%d/density/within-component-bounds" % n, "ensures", posw,
               z3.And(z3.Or(*[dm >= r_ for r_ in rho]), z3.Or(*[dm <= r_ for r_ in rho])))
        cp = [z3.Real("cp%d" % i) for i in range(n)]
        pc = T.run_paths(ctx, PTB + ":calculate_mixture_heat_capacity", lambda: ([mk_arr(cp), mk_arr(wv)], {}))
        cm = V.R(pc[0].result)
        ctx.ob("n=%d/heat_capacity/within-component-bounds" % n, "ensures",
               [wi > 0 for wi in wv] + [sum(wv) == 1],
               z3.And(z3.Or(*[cm >= c_ for c_ in cp]), z3.Or(*[cm <= c_ for c_ in cp])))


# ---------------------------------------------------------------------------------------------
# library data (closed and finite: evaluated exhaustively from the files of the working tree)

def read_numbers(path):
    rows = []
    with open(path) as f:
        for line in f:
            line = line.split("#")[0].strip()
            if line:
                rows.append([Fraction(t) for t in line.split()])
    return rows


@unit("C19", "library_data", functions=[FL + ":call_lib"], engine="E1")
def library_data(ctx):
    root = os.path.join(S.SRC, "pandapipes", "properties")
    mod = S.get_module(FL)
    liquids, gases = mod.constant("_LIQUIDS"), mod.constant("_GASES")
    fluids = list(liquids) + list(gases)
    ctx.decided("fluids-found", "cover", len(fluids) >= 8, witness=str(fluids))
    for fl in fluids:
        d = os.path.join(root, fl)
        for prop in ("density", "viscosity", "heat_capacity"):
            p = os.path.join(d, prop + ".txt")
            ok = os.path.exists(p)
            rows = read_numbers(p) if ok else []
            xs = [r[0] for r in rows]
            ctx.decided("%s/%s/table" % (fl, prop), "schema",
                        ok and len(rows) >= 2 and all(len(r) == 2 for r in rows) and xs == sorted(set(xs)),
                        witness="table missing, not two columns, or abscissae not strictly increasing")
        pc, pd_ = os.path.join(d, "compressibility.txt"), os.path.join(d, "der_compressibility.txt")
        if os.path.exists(pc) and os.path.exists(pd_):
            slope = read_numbers(pc)[0][0]
            der = read_numbers(pd_)[0][0]
            ctx.decided("%s/der_compressibility-equals-slope" % fl, "schema", slope == der,
                        witness="compressibility slope %s, stored derivative %s" % (float(slope), float(der)),
                        replay={"handler": "der_compressibility", "input": {"fluid": fl}})
    # call_lib wires file <-> property class as documented
    f = S.get_function(FL + ":call_lib")
    import ast
    src = ast.unparse(f.node)
    for prop, kind in (("density", "interextra_property"), ("viscosity", "interextra_property"),
                       ("heat_capacity", "interextra_property"), ("molar_mass", "constant_property"),
                       ("der_compressibility", "constant_property"), ("compressibility", "linear_property")):
        ctx.structural("call_lib/%s" % prop, "schema", "properties['%s'] = %s('%s')" % (prop, kind, prop) in src,
                    witness="call_lib does not build %s with %s" % (prop, kind))


@unit("C19", "std_type_parameters_reach_the_row", functions=["pandapipes.create:create_pipes"], engine="E5")
def std_type_rows(ctx):
    """standard-type parameters reach the pipe row, also when one type is named per pipe (shared with C16)"""
    from contracts.C16 import create_pipes_std_type_list
    create_pipes_std_type_list(ctx)


@unit("C19", "FluidPropertyInterExtra/constructor", functions=[FL + ":FluidPropertyInterExtra.__init__"], engine="E1")
def prop_interextra_init(ctx):
    """requires@callsite of the assumed contract of scipy's interp1d (A4: the piecewise-linear function through the given
    points, whatever the order of the rows, extrapolating when asked to): the property object is built from (x, y) in that
    order with no option that changes that meaning (kind, assume_sorted, axis, copy, bounds_error) -- only fill_value"""
    ctx.assume("A4", "A6")
    x, y = K.sym_arr("x_values", z3.Int("NX"), "f"), K.sym_arr("y_values", z3.Int("NX"), "f")
    for method, want in (("interpolate_extrapolate", {"fill_value": "extrapolate"}), ("Interpolate_Extrapolate", {"fill_value": "extrapolate"}),
                         ("interpolate", {})):
        calls = []

        class _I:
            def call(self, ev, args, kwargs, lineno):
                calls.append((list(args), dict(kwargs)))
                return K._UFMethod(z3.Function("interp1d", z3.RealSort(), z3.RealSort()), 1)
        obj = E.Obj("FluidPropertyInterExtra", {}, cls=fcls("FluidPropertyInterExtra"))
        try:
            paths = T.run_paths(ctx, FL + ":FluidPropertyInterExtra.__init__", lambda: ([obj, x, y, method], {}),
                                hooks={"global": lambda m, n: _I() if n == "interp1d" else None},
                                contracts={FL + ":FluidProperty.__init__": lambda ev, a, k: None})
        except Unsupported as e:
            ctx.undecided("%s/subset" % method, "unsupported", str(e))
            continue
        ok = len(paths) == 1 and paths[0].exc is None and len(calls) == 1
        ctx.decided("%s/one-interpolant-built" % method, "cover", ok, witness=str(([str(p.exc) for p in paths], len(calls))))
        if not ok:
            continue
        a, kw = calls[0]
        ctx.decided("%s/points-are-(x,y)-in-that-order" % method, "requires@callsite", len(a) == 2 and a[0] is x and a[1] is y,
                    witness=repr(a))
        ctx.decided("%s/no-option-that-changes-the-interpolant" % method, "requires@callsite", kw == want,
                    witness="interp1d keyword arguments %r, expected %r" % (kw, want))
