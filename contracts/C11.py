"""C11 -- heat exchangers, consumers and circulation pumps report consistent heat duties.

Engine E2 on the real HeatConsumer classmethods (row-generic over the consumer rows f..t of the
pit) plus algebraic lemmas that tie the per-mode pit updates to the thermal residual of C10:
with LENGTH = 0, ALPHA = 0, TL = 0 the cooling-law residual is  T_in - T_out - q/(c |m|), hence a
zero residual means  q = |m| c (T_in - T_out)  -- the reported heat equals mass flow times mean
heat capacity times the reported temperature drop.
Loop energy closure of circulation pumps is a whole-network sum and is NOT decided here."""
import z3

from pvc.harness import unit
from pvc import src as S, kern as K, twin as T, ev as E, classes
from pvc.val import *  # noqa
from pvc import val as V
from contracts import spec as SP
from contracts.C02 import forall_b, forall_n, forall_real
from contracts.C10 import cp_branch_spec, flow_nodes

BR = "pandapipes.idx_branch"
ND = "pandapipes.idx_node"
HC = "pandapipes.component_models.heat_consumer_component"
CT = "pandapipes.component_models.component_toolbox"
PT = "pandapipes.properties.properties_toolbox"
IT = "pandapipes.pf.internals_toolbox"
RX = "pandapipes.pf.result_extraction"

NCB = K.const(BR, "branch_cols")
NCN = K.const(ND, "node_cols")
for _n in ("FROM_NODE", "TO_NODE", "MDOTINIT", "QEXT", "JAC_DERIV_DP1", "JAC_DERIV_DM", "JAC_DERIV_DP",
           "LOAD_VEC_BRANCHES", "TOUTINIT", "JAC_DERIV_DT", "JAC_DERIV_DTOUT", "LOAD_VEC_BRANCHES_T",
           "FLOW_RETURN_CONNECT", "FROM_NODE_T_SWITCHED", "LENGTH", "ALPHA", "TL"):
    globals()["B_" + _n] = K.const(BR, _n)
N_TINIT = K.const(ND, "TINIT")
INT_B = (B_FROM_NODE, B_TO_NODE, B_FROM_NODE_T_SWITCHED)

HCC = S.get_module(HC).classes["HeatConsumer"]


def hc_const(name):
    for st in HCC.node.body:
        if isinstance(st, __import__("ast").Assign) and st.targets[0].id == name:
            return HCC.module._eval_const(st.value, 0)
    raise S.SourceError("HeatConsumer.%s" % name)


C_MASS, C_QEXT, C_DELTAT, C_TRETURN, C_MODE = [hc_const(x) for x in ("MASS", "QEXT", "DELTAT", "TRETURN", "MODE")]
MF_DT, MF_TR, QE_MF, QE_DT, QE_TR = [hc_const(x) for x in ("MF_DT", "MF_TR", "QE_MF", "QE_DT", "QE_TR")]
NCC = hc_const("internal_cols")


# ---------------------------------------------------------------------------------------------
# mode table

@unit("C11", "mode_table", functions=[HC + ":HeatConsumer.create_component_array"], engine="E2")
def mode_table(ctx):
    ctx.assume("A1", "A4", "A6")
    n = z3.Int("NHC")
    cols = {"deltat_k": ("f", True), "treturn_k": ("f", True), "qext_w": ("f", True),
            "controlled_mdot_kg_per_s": ("f", True)}

    def mk():
        tbl = K.sym_table("heat_consumer", n, cols)
        return [HCC, K.NetObj({"heat_consumer": tbl}), {}], {}
    paths = T.run_paths(ctx, HC + ":HeatConsumer.create_component_array", mk)
    tbl = K.sym_table("heat_consumer", n, cols)
    r = z3.Int("r")
    rng = [n >= 1, r >= 0, r < n]
    given = {k: bnot(nan_of(tbl.columns[c].f(r))) for k, c in
             (("dt", "deltat_k"), ("tr", "treturn_k"), ("qe", "qext_w"), ("mf", "controlled_mdot_kg_per_s"))}
    pairs = {("mf", "dt"): MF_DT, ("mf", "tr"): MF_TR, ("qe", "mf"): QE_MF, ("qe", "dt"): QE_DT,
             ("qe", "tr"): QE_TR}
    ctx.decided("cover/paths", "cover", len(paths) == 1 and paths[0].exc is None,
                witness="%d paths" % len(paths))
    p = paths[0]
    arr = p.args[0][2].get("heat_consumer")
    ctx.decided("stores-component-array", "ensures", isinstance(arr, Pit), witness=repr(arr))
    if not isinstance(arr, Pit):
        return
    for (a, b), code in pairs.items():
        only = [B(given[k]) if k in (a, b) else z3.Not(B(given[k])) for k in given]
        ctx.ob("mode[%s+%s]" % (a, b), "ensures", rng + only,
               K.eq_val(arr.f(r, C_MODE), code))
    for nm, col, src in (("DELTAT", C_DELTAT, "deltat_k"), ("TRETURN", C_TRETURN, "treturn_k"),
                         ("QEXT", C_QEXT, "qext_w"), ("MASS", C_MASS, "controlled_mdot_kg_per_s")):
        ctx.ob("column[%s]" % nm, "ensures", rng, K.eq_val(arr.f(r, col), tbl.columns[src].f(r)))
    codes = sorted(set(pairs.values()))
    ctx.decided("mode-codes-distinct", "ensures", len(codes) == 5 and 0 not in codes,
                witness="mode codes %s" % codes)


# ---------------------------------------------------------------------------------------------
# adaption functions

def make_world(extra_comp_nan=()):
    fluid = K.make_fluid(False)
    f, t = z3.Int("f_hc"), z3.Int("t_hc")
    spec = T.ArgSpec([
        ("cls", "const", dict(value=HCC)),
        ("net", "obj", dict(make=lambda: K.NetObj({
            "fluid": fluid,
            "_pit": {"components": {"heat_consumer": K.sym_pit("consumer_array", t - f, NCC)}}}))),
        ("branch_pit", "pit", dict(rows="b", ncols=NCB, int_cols=INT_B)),
        ("node_pit", "pit", dict(rows="n", ncols=NCN)),
        ("branch_pit_old", "const", dict(value=None)),
        ("node_pit_old", "const", dict(value=None)),
        ("idx_lookups", "const", dict(value={"heat_consumer": (f, t)})),
        ("options", "const", dict(value={})),
    ])
    return fluid, spec, f, t


def world_contracts(fluid, stage="hydraulics"):
    def c_component_array(ev, args, kwargs):
        # contract of get_component_array (C03 unit component_array): aligned with the active pit block of the stage only
        # for only_active=True and the mode of that stage
        net = args[0]
        ctype = kwargs.get("component_type", args[2] if len(args) > 2 else "branch")
        mode = kwargs.get("mode", args[3] if len(args) > 3 else "hydraulics")
        only_active = kwargs.get("only_active", args[4] if len(args) > 4 else True)
        if only_active is True and mode == stage and ctype == "branch" and args[1] == "heat_consumer":
            return net.items["_pit"]["components"][args[1]]
        return K.sym_pit("consumer_array_not_aligned_with_the_active_block", z3.Int("n_unaligned"), NCC)

    def c_cp(ev, args, kwargs):
        fl, npit, bp = args
        if isinstance(bp, PitComp):
            return Comp(bp.mask, lambda j: cp_branch_spec(fluid, bp.base, npit, j), "f")
        return Arr(bp.n, lambda j: cp_branch_spec(fluid, bp, npit, j), "f")

    def c_from(ev, args, kwargs):
        bp = args[0]
        if isinstance(bp, PitComp):
            return Comp(bp.mask, lambda j: flow_nodes(bp.base, j)[0], "i")
        return Arr(bp.n, lambda j: flow_nodes(bp, j)[0], "i")
    return {CT + ":get_component_array": c_component_array, PT + ":get_branch_cp": c_cp,
            IT + ":get_from_nodes_corrected": c_from}


def world_req(sp, fluid, f, t):
    bp = sp.objs["branch_pit"]
    return [f >= 0, f <= t, t <= sp.NB,
            forall_b(sp, lambda i: z3.And(
                z3.ToInt(bp.f(i, B_FROM_NODE)) >= 0, z3.ToInt(bp.f(i, B_FROM_NODE)) < sp.NN,
                z3.ToInt(bp.f(i, B_TO_NODE)) >= 0, z3.ToInt(bp.f(i, B_TO_NODE)) < sp.NN,
                z3.Or(z3.ToInt(bp.f(i, B_FROM_NODE_T_SWITCHED)) == 0,
                      z3.ToInt(bp.f(i, B_FROM_NODE_T_SWITCHED)) == 1))),
            forall_real(lambda x: fluid.ufs["heat_capacity"](x) > 0)]


def run_method(ctx, name):
    fluid, spec, f, t = make_world()
    stage = "heat_transfer" if name.endswith("_thermal") else "hydraulics"
    paths = T.run_paths(ctx, HC + ":HeatConsumer." + name, spec.build, contracts=world_contracts(fluid, stage))
    spec.build()
    return fluid, spec, f, t, paths


def consumer_of(spec):
    return K.sym_pit("consumer_array", z3.Int("t_hc") - z3.Int("f_hc"), NCC)


def col_goal(paths, k, c, expect_fn, extra=()):
    """for all paths: global row k of the final branch pit, column c, equals expect"""
    gs = []
    for p in paths:
        if p.exc is not None:
            gs.append(z3.Not(p.cond()))
            continue
        gs.append(z3.Implies(z3.And(p.cond(), *extra), K.eq_val(p.args[0][2].f(k, c), expect_fn(p))))
    return z3.And(*gs)


@unit("C11", "adaption_after_derivatives_hydraulic",
      functions=[HC + ":HeatConsumer.adaption_after_derivatives_hydraulic"], engine="E2")
def after_hyd(ctx):
    ctx.assume("A1", "A4", "A6")
    fluid, spec, f, t, paths = run_method(ctx, "adaption_after_derivatives_hydraulic")
    bp0, np0 = spec.objs["branch_pit"], spec.objs["node_pit"]
    cons = consumer_of(spec)
    k = z3.Int("k")          # a global pit row inside the consumer block
    i = k - f
    req = spec.base() + world_req(spec, fluid, f, t) + [k >= f, k < t]
    mode = cons.f(i, C_MODE)
    is_tr = mode == QE_TR
    cp = cp_branch_spec(fluid, bp0, np0, k)
    fn_c, _ = flow_nodes(bp0, k)
    t_in, t_out = np0.f(fn_c, N_TINIT), bp0.f(k, B_TOUTINIT)
    q = bp0.f(k, B_QEXT)
    dfdm = SP.mul(neg(cp), SP.sub(t_out, t_in))            # d/dm of  -q + cp (T_in - T_out) m
    ign = z3.Or(t_out >= t_in, q == 0)
    m_new = ite(z3.And(is_tr, ign), 0, bp0.f(k, B_MDOTINIT))
    ctx.ob("ensures/JAC_DERIV_DP", "ensures", req, col_goal(paths, k, B_JAC_DERIV_DP, lambda p: 0))
    ctx.ob("ensures/JAC_DERIV_DP1", "ensures", req, col_goal(paths, k, B_JAC_DERIV_DP1, lambda p: 0))
    ctx.ob("ensures/JAC_DERIV_DM", "ensures", req,
           col_goal(paths, k, B_JAC_DERIV_DM, lambda p: ite(z3.And(is_tr, z3.Not(ign)), dfdm, 1)))
    ctx.ob("ensures/MDOTINIT", "ensures", req, col_goal(paths, k, B_MDOTINIT, lambda p: m_new))
    # QE_TR: Newton residual of  q = cp (T_in - T_out) m ; every other mode: identity row (m kept)
    ctx.ob("ensures/LOAD_VEC_BRANCHES", "ensures", req,
           col_goal(paths, k, B_LOAD_VEC_BRANCHES,
                    lambda p: ite(is_tr, SP.add(neg(q), SP.mul(dfdm, m_new)), 0)))
    # frame: rows outside the consumer block are untouched
    o = z3.Int("o")
    reqo = spec.base() + world_req(spec, fluid, f, t) + [o >= 0, o < spec.NB, z3.Or(o < f, o >= t)]
    for nm, c in (("JAC_DERIV_DM", B_JAC_DERIV_DM), ("LOAD_VEC_BRANCHES", B_LOAD_VEC_BRANCHES),
                  ("MDOTINIT", B_MDOTINIT)):
        ctx.ob("frame/other-rows/%s" % nm, "frame", reqo, col_goal(paths, o, c, lambda p, _c=c: bp0.f(o, _c)))
    ctx.check_safety(paths, spec.base() + world_req(spec, fluid, f, t), "fn")


@unit("C11", "adaption_before_derivatives_hydraulic",
      functions=[HC + ":HeatConsumer.adaption_before_derivatives_hydraulic"], engine="E2")
def before_hyd(ctx):
    ctx.assume("A1", "A4", "A6")
    fluid, spec, f, t, paths = run_method(ctx, "adaption_before_derivatives_hydraulic")
    bp0, np0 = spec.objs["branch_pit"], spec.objs["node_pit"]
    cons = consumer_of(spec)
    k = z3.Int("k")
    i = k - f
    j = z3.Int("i")
    nz = z3.ForAll([j], z3.Implies(z3.And(j >= 0, j < t - f, cons.f(j, C_MODE) == QE_DT),
                                   cons.f(j, C_DELTAT) != 0))
    req = spec.base() + world_req(spec, fluid, f, t) + [k >= f, k < t, nz]
    cp = cp_branch_spec(fluid, bp0, np0, k)
    m_exp = ite(cons.f(i, C_MODE) == QE_DT, SP.div(bp0.f(k, B_QEXT), SP.mul(cp, cons.f(i, C_DELTAT))),
                bp0.f(k, B_MDOTINIT))
    ctx.ob("ensures/MDOTINIT", "ensures", req, col_goal(paths, k, B_MDOTINIT, lambda p: m_exp))
    ctx.ob("frame/QEXT", "frame", req, col_goal(paths, k, B_QEXT, lambda p: bp0.f(k, B_QEXT)))
    ctx.check_safety(paths, spec.base() + world_req(spec, fluid, f, t) + [nz], "fn")


@unit("C11", "adaption_before_derivatives_thermal",
      functions=[HC + ":HeatConsumer.adaption_before_derivatives_thermal"], engine="E2")
def before_therm(ctx):
    ctx.assume("A1", "A4", "A6")
    fluid, spec, f, t, paths = run_method(ctx, "adaption_before_derivatives_thermal")
    bp0, np0 = spec.objs["branch_pit"], spec.objs["node_pit"]
    cons = consumer_of(spec)
    k = z3.Int("k")
    i = k - f
    req = spec.base() + world_req(spec, fluid, f, t) + [k >= f, k < t]
    cp = cp_branch_spec(fluid, bp0, np0, k)
    fn_c, _ = flow_nodes(bp0, k)
    t_in = np0.f(fn_c, N_TINIT)
    m = bp0.f(k, B_MDOTINIT)
    mode = cons.f(i, C_MODE)
    q_exp = ite(mode == MF_TR, SP.mul(cp, m, SP.sub(t_in, cons.f(i, C_TRETURN))),
                ite(mode == MF_DT, SP.mul(cp, m, cons.f(i, C_DELTAT)), bp0.f(k, B_QEXT)))
    ctx.ob("ensures/QEXT", "ensures", req, col_goal(paths, k, B_QEXT, lambda p: q_exp))
    ctx.ob("frame/MDOTINIT", "frame", req, col_goal(paths, k, B_MDOTINIT, lambda p: m))
    ctx.ob("frame/TOUTINIT", "frame", req, col_goal(paths, k, B_TOUTINIT, lambda p: bp0.f(k, B_TOUTINIT)))


@unit("C11", "adaption_after_derivatives_thermal",
      functions=[HC + ":HeatConsumer.adaption_after_derivatives_thermal"], engine="E2")
def after_therm(ctx):
    ctx.assume("A1", "A4", "A6")
    fluid, spec, f, t, paths = run_method(ctx, "adaption_after_derivatives_thermal")
    bp0 = spec.objs["branch_pit"]
    cons = consumer_of(spec)
    k = z3.Int("k")
    i = k - f
    req = spec.base() + world_req(spec, fluid, f, t) + [k >= f, k < t]
    fixed = z3.And(cons.f(i, C_MODE) == QE_TR, bp0.f(k, B_QEXT) != 0)
    # QE_TR with heat demand: the outlet temperature row becomes the identity  T_out = T_out(init)
    for nm, c, v in (("LOAD_VEC_BRANCHES_T", B_LOAD_VEC_BRANCHES_T, 0), ("JAC_DERIV_DTOUT", B_JAC_DERIV_DTOUT, 1),
                     ("JAC_DERIV_DT", B_JAC_DERIV_DT, 0)):
        ctx.ob("ensures/%s" % nm, "ensures", req,
               col_goal(paths, k, c, lambda p, _c=c, _v=v: ite(fixed, _v, bp0.f(k, _c))))


# ---------------------------------------------------------------------------------------------
# reported quantities

@unit("C11", "extract_results", functions=[HC + ":HeatConsumer.extract_results"], engine="E2")
def extract_results(ctx):
    ctx.assume("A1", "A4", "A6")
    fluid = K.make_fluid(False)
    f, t = z3.Int("f_hc"), z3.Int("t_hc")
    NB, NN = z3.Int("NB"), z3.Int("NN")

    def mk():
        res = K.sym_table("res_heat_consumer", t - f, {"qext_w": "f", "deltat_k": "f"})
        net = K.NetObj({"fluid": fluid, "res_heat_consumer": res,
                        "_pit": {"node": K.sym_pit("node_pit", NN, NCN),
                                 "branch": K.sym_pit("branch_pit", NB, NCB, int_cols=INT_B)},
                        "_lookups": {"branch_from_to": {"heat_consumer": (f, t)}}})
        return [HCC, net, {}, {}, "sequential"], {}

    def noop(ev, args, kwargs):
        return None

    def c_lookup(ev, args, kwargs):
        return (["hyd"], ["ht"])
    cs = world_contracts(fluid)
    cs[RX + ":extract_branch_results_without_internals"] = noop
    cs[CT + ":standard_branch_wo_internals_result_lookup"] = c_lookup
    paths = T.run_paths(ctx, HC + ":HeatConsumer.extract_results", mk, contracts=cs)
    bp0 = K.sym_pit("branch_pit", NB, NCB, int_cols=INT_B)
    np0 = K.sym_pit("node_pit", NN, NCN)
    i = z3.Int("i_row")
    k = f + i
    req = [f >= 0, f <= t, t <= NB, NN >= 1, i >= 0, i < t - f]
    fn_c, _ = flow_nodes(bp0, k)
    gq, gd = [], []
    for p in paths:
        if p.exc is not None:
            gq.append(z3.Not(p.cond()))
            continue
        res = p.args[0][1].items["res_heat_consumer"]
        gq.append(z3.Implies(p.cond(), K.eq_val(res.columns["qext_w"].f(i), bp0.f(k, B_QEXT))))
        gd.append(z3.Implies(p.cond(), K.eq_val(res.columns["deltat_k"].f(i),
                                                SP.sub(np0.f(fn_c, N_TINIT), bp0.f(k, B_TOUTINIT)))))
    ctx.ob("ensures/qext_w", "ensures", req, z3.And(*gq))
    ctx.ob("ensures/deltat_k", "ensures", req, z3.And(*gd))


# ---------------------------------------------------------------------------------------------
# lemmas tying the pit updates to the thermal residual (spec level, C10's cooling law)

@unit("C11", "lemmas", engine="E2")
def lemmas(ctx):
    ctx.assume("A1", "A3")
    t_in, t_out, t_ext, c, m, q, dts, tret = z3.Reals("t_in t_out t_ext cp mdot q dt_set t_ret")
    # LENGTH = 0, ALPHA = 0, TL = 0 (set by BranchWOInternalsComponent for consumers / exchangers)
    res = SP.thermal_branch_residual(t_in, t_out, t_ext, 0, z3.Real("d_o"), 0, c, m, 0, q)
    pre = [c > 0, m > 0, R(res) == 0]
    ctx.ob("duty/q-equals-m-cp-deltaT", "lemma", pre, q == m * c * (t_in - t_out))
    ctx.ob("duty/negative-flow-uses-abs", "lemma", [c > 0, m < 0, R(res) == 0], q == -m * c * (t_in - t_out))
    # MF_DT: q := cp m dT_set  ==>  reported temperature drop equals the set-point
    ctx.ob("MF_DT/deltaT-met", "lemma", pre + [q == c * m * dts], t_in - t_out == dts)
    # MF_TR: q := cp m (T_in - T_ret)  ==>  outlet temperature equals the return set-point
    ctx.ob("MF_TR/treturn-met", "lemma", pre + [q == c * m * (t_in - tret)], t_out == tret)
    # QE_DT: m := q / (cp dT_set) (identity row keeps it)  ==>  temperature drop equals the set-point
    ctx.ob("QE_DT/deltaT-met", "lemma", pre + [dts != 0, m == q / (c * dts)], t_in - t_out == dts)
    # QE_TR: hydraulic row  -q + cp (T_in - T_out) m = 0 with T_out held at T_ret
    ctx.ob("QE_TR/heat-met", "lemma", [c > 0, -q + (-c * (tret - t_in)) * m == 0], q == c * m * (t_in - tret))
    # identity row: a full Newton step on  1 * dm = 0  leaves m unchanged (QE_MF, MF_*, QE_DT)
    dm, m0 = z3.Reals("dm m0")
    ctx.ob("identity-row/m-kept", "lemma", [1 * dm == 0], m0 - dm == m0)


# ---------------------------------------------------------------------------------------------
# heat exchanger parameters and the heat a circulation pump reports

HX = "pandapipes.component_models.heat_exchanger_component"
CP = "pandapipes.component_models.abstract_models.circulation_pump"
BWO = "pandapipes.component_models.abstract_models.branch_wo_internals_models"
B_LC, B_D, B_DO = K.consts(BR, "LOSS_COEFFICIENT", "D", "DO")


@unit("C11", "heat_exchanger_entries", functions=[HX + ":HeatExchanger.create_pit_branch_entries"], engine="E2")
def heat_exchanger_entries(ctx):
    ctx.assume("A1", "A4", "A6")
    HXC = S.get_module(HX).classes["HeatExchanger"]
    f, t = z3.Int("f_hx"), z3.Int("t_hx")
    NB = z3.Int("NB")
    cols = {"loss_coefficient": "f", "qext_w": "f", "inner_diameter_mm": "f"}

    def mk():
        net = K.NetObj({"heat_exchanger": K.sym_table("heat_exchanger", t - f, cols)})
        return [HXC, net, K.sym_pit("branch_pit", NB, NCB, int_cols=INT_B)], {}

    def c_super(ev, args, kwargs):
        # contract of BranchWOInternalsComponent.create_pit_branch_entries: returns the block of the
        # component's rows (its own obligations belong to the pit-construction contracts)
        return PitSlice(args[2], f, t)
    paths = T.run_paths(ctx, HX + ":HeatExchanger.create_pit_branch_entries", mk,
                        contracts={BWO + ":BranchWOInternalsComponent.create_pit_branch_entries": c_super})
    tbl = K.sym_table("heat_exchanger", t - f, cols)
    k = z3.Int("k")
    req = [f >= 0, f <= t, t <= NB, k >= f, k < t]
    ctx.decided("cover/path", "cover", len(paths) == 1 and paths[0].exc is None, witness=str(len(paths)))
    bp = paths[0].args[0][2]
    i = k - f
    ctx.ob("ensures/QEXT", "ensures", req, K.eq_val(bp.f(k, B_QEXT), tbl.columns["qext_w"].f(i)))
    ctx.ob("ensures/LC", "ensures", req, K.eq_val(bp.f(k, B_LC), tbl.columns["loss_coefficient"].f(i)))
    ctx.ob("ensures/D", "ensures", req, K.eq_val(bp.f(k, B_D), SP.div(tbl.columns["inner_diameter_mm"].f(i), 1000)))
    ctx.ob("ensures/DO", "ensures", req, K.eq_val(bp.f(k, B_DO), SP.div(tbl.columns["inner_diameter_mm"].f(i), 1000)))


@unit("C11", "circ_pump_reported_heat", functions=[CP + ":CirculationPump.extract_results"], engine="E2")
def circ_pump_heat(ctx):
    ctx.assume("A1", "A4", "A6")
    CPC = S.get_module("pandapipes.component_models.circulation_pump_mass_component").classes["CirculationPumpMass"]
    fluid = K.make_fluid(False)
    f, t = z3.Int("f_cp"), z3.Int("t_cp")
    NB, NN = z3.Int("NB"), z3.Int("NN")
    tname = "circ_pump_mass"

    def mk():
        res = K.sym_table("res_" + tname, t - f, {"qext_w": "f", "deltat_k": "f"})
        net = K.NetObj({"fluid": fluid, "res_" + tname: res, tname: K.sym_table(tname, t - f, {}),
                        "_pit": {"node": K.sym_pit("node_pit", NN, NCN),
                                 "branch": K.sym_pit("branch_pit", NB, NCB, int_cols=INT_B)},
                        "_lookups": {"branch_from_to": {tname: (f, t)}}})
        return [CPC, net, {}, {}, "sequential"], {}
    cs = world_contracts(fluid)
    cs[RX + ":extract_branch_results_without_internals"] = lambda ev, a, k: None
    cs[CT + ":standard_branch_wo_internals_result_lookup"] = lambda ev, a, k: (["hyd"], ["ht"])
    paths = T.run_paths(ctx, CP + ":CirculationPump.extract_results", mk, contracts=cs)
    bp0 = K.sym_pit("branch_pit", NB, NCB, int_cols=INT_B)
    np0 = K.sym_pit("node_pit", NN, NCN)
    i = z3.Int("i_row")
    k = f + i
    req = [f >= 0, f <= t, t <= NB, NN >= 1, i >= 0, i < t - f]
    cp = fluid.ufs["heat_capacity"]
    fn_c, _ = flow_nodes(bp0, k)
    t_from, t_out = np0.f(fn_c, N_TINIT), bp0.f(k, B_TOUTINIT)
    exp_q = SP.mul(bp0.f(k, B_MDOTINIT), SP.sub(SP.mul(cp(t_out), t_out), SP.mul(cp(t_from), t_from)))
    gq, gd = [], []
    normal = [p for p in paths if p.exc is None]
    ctx.decided("cover/returns", "cover", len(normal) >= 1, witness="%d paths" % len(paths))
    for p in normal:
        res = p.args[0][1].items["res_" + tname]
        gq.append(z3.Implies(p.cond(), K.eq_val(res.columns["qext_w"].f(i), exp_q)))
        gd.append(z3.Implies(p.cond(), K.eq_val(res.columns["deltat_k"].f(i), SP.sub(t_from, t_out))))
    ctx.ob("ensures/qext_w-is-enthalpy-difference", "ensures", req, z3.And(*gq))
    ctx.ob("ensures/deltat_k", "ensures", req, z3.And(*gd))


# ---------------------------------------------------------------------------------------------
# set-points reach the pit: every given (non-NaN) qext_w / controlled_mdot / treturn_k, of either sign

def consumer_entries_obligations(ctx, which=("QEXT", "MDOTINIT", "TOUTINIT", "FLOW_RETURN_CONNECT")):
    f, t = z3.Int("f_hc"), z3.Int("t_hc")
    NB = z3.Int("NB")
    cols = {"deltat_k": ("f", True), "treturn_k": ("f", True), "qext_w": ("f", True),
            "controlled_mdot_kg_per_s": ("f", True)}

    def mk():
        net = K.NetObj({"heat_consumer": K.sym_table("heat_consumer", t - f, cols)})
        return [HCC, net, K.sym_pit("branch_pit", NB, NCB, int_cols=INT_B)], {}

    def c_super(ev, args, kwargs):
        return PitSlice(args[2], f, t)
    paths = T.run_paths(ctx, HC + ":HeatConsumer.create_pit_branch_entries", mk,
                        contracts={BWO + ":BranchWOInternalsComponent.create_pit_branch_entries": c_super})
    ok = len(paths) >= 1 and all(p.exc is None for p in paths)
    ctx.decided("entries/returns", "cover", ok, witness=str([str(p.exc) for p in paths]))
    if not ok:
        return
    tbl = K.sym_table("heat_consumer", t - f, cols)
    bp0 = K.sym_pit("branch_pit", NB, NCB, int_cols=INT_B)
    k = z3.Int("k")
    i = k - f
    req = [f >= 0, f <= t, t <= NB, k >= f, k < t]

    def given_else_old(colname, pitcol):
        v = tbl.columns[colname].f(i)
        return lambda p: ite(nan_of(v), bp0.f(k, pitcol), val_of(v))
    table = {"QEXT": ("qext_w", B_QEXT), "MDOTINIT": ("controlled_mdot_kg_per_s", B_MDOTINIT), "TOUTINIT": ("treturn_k", B_TOUTINIT)}
    for nm in which:
        if nm == "FLOW_RETURN_CONNECT":
            ctx.ob("entries/every-consumer-separates-flow-and-return-side", "ensures", req,
                   col_goal(paths, k, B_FLOW_RETURN_CONNECT, lambda p: 1))
        else:
            cn, pc = table[nm]
            ctx.ob("entries/%s-is-the-given-%s-of-either-sign" % (nm, cn), "ensures", req, col_goal(paths, k, pc, given_else_old(cn, pc)))


@unit("C11", "consumer_entries", functions=[HC + ":HeatConsumer.create_pit_branch_entries"], engine="E2")
def consumer_entries(ctx):
    ctx.assume("A1", "A4", "A6")
    consumer_entries_obligations(ctx, ("QEXT", "MDOTINIT", "TOUTINIT"))


# ---------------------------------------------------------------------------------------------
# the heat-duty algebra rests on the thermal branch equation: both kernels, the numpy and the numba one (shared with C10)

@unit("C11", "thermal_kernel/numpy", functions=["pandapipes.pf.derivative_toolbox:derivatives_thermal_np"], engine="E2")
def thermal_kernel_np(ctx):
    import contracts.C10 as C10
    C10._kernel(ctx, C10.TB + ":derivatives_thermal_np")


@unit("C11", "thermal_kernel/numba", functions=["pandapipes.pf.derivative_toolbox_numba:derivatives_thermal_numba"], engine="E2")
def thermal_kernel_nb(ctx):
    import contracts.C10 as C10
    C10._kernel(ctx, C10.TBN + ":derivatives_thermal_numba")


@unit("C11", "component_array", functions=["pandapipes.component_models.component_toolbox:get_component_array"], engine="E3")
def component_array_c11(ctx):
    """the consumer array rows used by the four adaption methods are those of the active pit block of the same stage
    (shared with C03)"""
    from contracts.C03 import component_array
    component_array(ctx)
