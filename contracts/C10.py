"""C10 -- temperatures obey the pipe cooling law, energy-conserving mixing and fixed feeds.

kernels  derivatives_thermal_np / _numba (steady state): every returned array is the spec function
         of the row (cooling law residual, mixing term with the heat capacity passed in, ambient
         rows for non-flowing branches / nodes, infeed set)
helpers  get_branch_cp (mean heat capacity of a branch), get_from/to_nodes_corrected (flow direction)
stage    calculate_derivatives_thermal with the callee contracts applied: the columns it writes are
         the spec functions of the pit columns -- in particular the mixing weight is
         |m| * (cp(T_out) + cp(T_node)) / 2, *the mean heat capacity between stream and mix
         temperature* demanded by the property statement
lemmas   convexity (T_out between T_in and T_ext; mix between the entering temperatures)
"""
import z3

from pvc.harness import unit
from pvc import src as S, kern as K, twin as T, ev as E
from pvc.val import *  # noqa
from pvc import val as V
from contracts import spec as SP
from contracts.C02 import forall_b, forall_n, forall_real, lift, goal_over_paths, arr

BR = "pandapipes.idx_branch"
ND = "pandapipes.idx_node"
DC = "pandapipes.pf.derivative_calculation"
TB = "pandapipes.pf.derivative_toolbox"
TBN = "pandapipes.pf.derivative_toolbox_numba"
PT = "pandapipes.properties.properties_toolbox"
IT = "pandapipes.pf.internals_toolbox"

NCB = K.const(BR, "branch_cols")
NCN = K.const(ND, "node_cols")
for _n in ("FROM_NODE", "TO_NODE", "LENGTH", "DO", "AREA", "ALPHA", "QEXT", "TEXT", "TL", "MDOTINIT",
           "TOUTINIT", "FROM_NODE_T_SWITCHED", "LOAD_VEC_BRANCHES_T", "JAC_DERIV_DT", "JAC_DERIV_DTOUT",
           "LOAD_VEC_NODES_TO_T", "JAC_DERIV_DT_NODE", "JAC_DERIV_DTOUT_NODE"):
    globals()["B_" + _n] = K.const(BR, _n)
for _n in ("TINIT", "INFEED", "LOAD_T", "JAC_DERIV_DT_N", "PINIT", "PAMB"):
    globals()["N_" + _n] = K.const(ND, _n)
INT_B = (B_FROM_NODE, B_TO_NODE, B_FROM_NODE_T_SWITCHED)
ENGINES = (("numpy", False), ("numba", True))


def flows(m):
    """a branch carries flow iff its mass flow is a number with |m| > 1e-10"""
    return band(bnot(nan_of(m)), compare(">", absval(val_of(m)), Fraction("1e-10")))


def kernel_spec():
    return T.ArgSpec(
        [("node_pit", "pit", dict(rows="n", ncols=NCN)),
         ("branch_pit", "pit", dict(rows="b", ncols=NCB, int_cols=INT_B, nan_cols=(B_MDOTINIT,))),
         ("node_pit_old", "pit", dict(rows="n", ncols=1)),
         arr("node_pit_old_lookup", rows="c", kind="i"),
         ("branch_pit_old", "pit", dict(rows="b", ncols=1)),
         arr("branch_pit_old_lookup", rows="c", kind="i"),
         arr("from_nodes", kind="i"), arr("to_nodes", kind="i"),
         arr("t_init_i"), arr("t_init_i1"), arr("t_init_nt"), arr("t_init_n", rows="n"),
         arr("cp_n"), arr("cp_b"), arr("rho"),
         ("dt", "const", dict(value=None)), ("transient", "const", dict(value=False)),
         ("amb", "sym", dict(term=z3.Real("amb")))])


def kernel_req(sp):
    o = sp.objs
    return [forall_b(sp, lambda i: z3.And(o["from_nodes"].f(i) >= 0, o["from_nodes"].f(i) < sp.NN,
                                          o["to_nodes"].f(i) >= 0, o["to_nodes"].f(i) < sp.NN,
                                          o["cp_b"].f(i) > 0))]


def _kernel(ctx, key):
    ctx.assume("A1", "A3", "A4", "A5")
    spec = kernel_spec()
    paths = T.run_paths(ctx, key, spec.build)
    if key.endswith("numba"):
        ctx.use_function(S.get_function(TBN + ":_make_lookups"))
    else:
        ctx.use_function(S.get_function(TB + ":_branches_not_zero_flow"))
    spec.build()
    o, r, q = spec.objs, spec.r, spec.q
    bp = o["branch_pit"]
    req = spec.base() + kernel_req(spec)
    facts = T.all_facts(paths)
    m = bp.f(r, B_MDOTINIT)
    fl = flows(m)
    mabs = absval(val_of(m))
    cool = SP.thermal_branch_residual(o["t_init_i"].f(r), o["t_init_i1"].f(r), bp.f(r, B_TEXT),
                                      bp.f(r, B_ALPHA), bp.f(r, B_DO), bp.f(r, B_LENGTH),
                                      o["cp_b"].f(r), val_of(m), bp.f(r, B_TL), bp.f(r, B_QEXT))
    amb = z3.Real("amb")
    e = exp(neg(SP.div(SP.mul(bp.f(r, B_ALPHA), PI, bp.f(r, B_DO), bp.f(r, B_LENGTH)),
                       SP.mul(o["cp_b"].f(r), mabs))))
    mix = SP.mul(o["cp_n"].f(r), mabs, SP.sub(o["t_init_i1"].f(r), o["t_init_nt"].f(r)))
    w = SP.mul(o["cp_n"].f(r), mabs)

    def node_has_flow(x):
        b = fresh("b")
        return z3.Exists([b], z3.And(b >= 0, b < spec.NB, B(flows(bp.f(b, B_MDOTINIT))),
                                     z3.Or(o["from_nodes"].f(b) == x, o["to_nodes"].f(b) == x)))

    def fed(x):
        b = fresh("b")
        return z3.Exists([b], z3.And(b >= 0, b < spec.NB, B(flows(bp.f(b, B_MDOTINIT))),
                                     o["to_nodes"].f(b) == x))

    def feeds(x):
        b = fresh("b")
        return z3.Exists([b], z3.And(b >= 0, b < spec.NB, B(flows(bp.f(b, B_MDOTINIT))),
                                     o["from_nodes"].f(b) == x))
    # flowing rows: the quantities are numbers (mdot not NaN); non-flowing rows: ambient / zero
    exp_b = {
        5: ("fb", ite(fl, cool, SP.sub(amb, o["t_init_i1"].f(r)))),
        6: ("dfb_dt", ite(fl, e, 0)),
        7: ("dfb_dtout", -1),
        2: ("fnt", ite(fl, mix, 0)),
        3: ("dfnt_dt", ite(fl, neg(w), 0)),
        4: ("dfnt_dtout", ite(fl, w, 0)),
    }
    for k, (nm, ex) in sorted(exp_b.items()):
        ctx.ob("ensures/%s" % nm, "ensures", req + facts,
               goal_over_paths(paths, lambda p, _k=k: p.result[_k], ex, r))
    nf = node_has_flow(q)
    exp_n = {0: ("fn", ite(nf, 0, SP.sub(amb, o["t_init_n"].f(q)))), 1: ("dfn_dt", ite(nf, 0, 1))}
    for k, (nm, ex) in sorted(exp_n.items()):
        ctx.ob("ensures/%s" % nm, "ensures", req + facts,
               goal_over_paths(paths, lambda p, _k=k: p.result[_k], ex, q))
    gs = []
    for p in paths:
        if p.exc is None:
            gs.append(z3.Implies(p.cond(), B(T.member_at(p.result[8], q)) == z3.And(feeds(q), z3.Not(fed(q)))))
    ctx.ob("ensures/infeed", "ensures", req + facts, z3.And(*gs))
    ctx.check_safety(paths, req, "kernel")


for _eng, _nb in ENGINES:
    def _mk(eng=_eng, nb=_nb):
        key = (TBN + ":derivatives_thermal_numba") if nb else (TB + ":derivatives_thermal_np")

        @unit("C10", "kernel/" + eng, functions=[key], engine="E2")
        def _u(ctx):
            _kernel(ctx, key)
    _mk()


# ---------------------------------------------------------------------------------------------
# helpers

def flow_nodes(bp, r):
    fn, tn = V.I(bp.f(r, B_FROM_NODE)), V.I(bp.f(r, B_TO_NODE))
    sw = V.I(bp.f(r, B_FROM_NODE_T_SWITCHED))
    return z3.If(sw == 1, tn, fn), z3.If(sw == 1, fn, tn)


def pit_spec():
    fluid = K.make_fluid(False)
    spec = T.ArgSpec([
        ("fluid", "const", dict(value=fluid)),
        ("node_pit", "pit", dict(rows="n", ncols=NCN)),
        ("branch_pit", "pit", dict(rows="b", ncols=NCB, int_cols=INT_B, nan_cols=(B_MDOTINIT,))),
    ])
    return fluid, spec


def pit_req(sp, fluid):
    bp = sp.objs["branch_pit"]
    return [forall_b(sp, lambda i: z3.And(
        z3.ToInt(bp.f(i, B_FROM_NODE)) >= 0, z3.ToInt(bp.f(i, B_FROM_NODE)) < sp.NN,
        z3.ToInt(bp.f(i, B_TO_NODE)) >= 0, z3.ToInt(bp.f(i, B_TO_NODE)) < sp.NN,
        z3.Or(z3.ToInt(bp.f(i, B_FROM_NODE_T_SWITCHED)) == 0,
              z3.ToInt(bp.f(i, B_FROM_NODE_T_SWITCHED)) == 1))),
        forall_real(lambda x: fluid.ufs["heat_capacity"](x) > 0),
        forall_real(lambda x: fluid.ufs["density"](x) > 0)]


def cp_branch_spec(fluid, bp, npit, r):
    """mean heat capacity of the branch: (cp(T_in) + cp(T_out)) / 2, T_in the inflow node"""
    cp = fluid.ufs["heat_capacity"]
    fn_c, _ = flow_nodes(bp, r)
    return SP.div(SP.add(cp(npit.f(fn_c, N_TINIT)), cp(bp.f(r, B_TOUTINIT))), 2)


@unit("C10", "get_branch_cp", functions=[PT + ":get_branch_cp"], engine="E2")
def branch_cp(ctx):
    ctx.assume("A1", "A4")
    fluid, spec = pit_spec()
    paths = T.run_paths(ctx, PT + ":get_branch_cp", spec.build)
    spec.build()
    r = spec.r
    req = spec.base() + pit_req(spec, fluid)
    ctx.ob("ensures/cp", "ensures", req,
           goal_over_paths(paths, lambda p: p.result,
                           cp_branch_spec(fluid, spec.objs["branch_pit"], spec.objs["node_pit"], r), r))


@unit("C10", "flow_direction", functions=[IT + ":get_from_nodes_corrected", IT + ":get_to_nodes_corrected"],
      engine="E2")
def flow_direction(ctx):
    ctx.assume("A1", "A4")
    spec = T.ArgSpec([("branch_pit", "pit", dict(rows="b", ncols=NCB, int_cols=INT_B))])
    for fn, pick in (("get_from_nodes_corrected", 0), ("get_to_nodes_corrected", 1)):
        paths = T.run_paths(ctx, IT + ":" + fn, spec.build)
        spec.build()
        bp, r = spec.objs["branch_pit"], spec.r
        req = spec.base() + [forall_b(spec, lambda i: z3.Or(z3.ToInt(bp.f(i, B_FROM_NODE_T_SWITCHED)) == 0,
                                                            z3.ToInt(bp.f(i, B_FROM_NODE_T_SWITCHED)) == 1))]
        ctx.ob("ensures/%s" % fn, "ensures", req,
               goal_over_paths(paths, lambda p: p.result, flow_nodes(bp, r)[pick], r))


# ---------------------------------------------------------------------------------------------
# stage

def stage_contracts(fluid, log, variant):
    cp = fluid.ufs["heat_capacity"]

    def c_cp(ev, args, kwargs):
        fl, npit, bp = args
        return Arr(bp.n, lambda j: cp_branch_spec(fluid, bp, npit, j), "f")

    def c_from(ev, args, kwargs):
        bp = args[0]
        return Arr(bp.n, lambda j: flow_nodes(bp, j)[0], "i")

    def c_to(ev, args, kwargs):
        bp = args[0]
        return Arr(bp.n, lambda j: flow_nodes(bp, j)[1], "i")

    def c_density(ev, args, kwargs):
        return K.sym_arr("rho!res", args[2].n)

    def c_kernel(ev, args, kwargs):
        (npit, bp, npo, npol, bpo, bpol, fn, tn, t_i, t_i1, t_nt, t_n, cp_n, cp_b, rho, dt, transient,
         amb) = args
        j = fresh("cs")
        log.append(("kernel/admissible", z3.Implies(z3.And(j >= 0, B(compare("<", j, bp.n))),
                                                   z3.And(R(cp_b.f(j)) > 0, fn.f(j) >= 0, tn.f(j) >= 0,
                                                          B(compare("<", fn.f(j), npit.n)),
                                                          B(compare("<", tn.f(j), npit.n))))))
        log.append(("kernel/steady-state", z3.BoolVal(transient is False)))
        bf = bp.f
        m = lambda jj: bf(jj, B_MDOTINIT)
        fl = lambda jj: flows(m(jj))
        mabs = lambda jj: absval(val_of(m(jj)))
        cool = lambda jj: SP.thermal_branch_residual(t_i.f(jj), t_i1.f(jj), bf(jj, B_TEXT), bf(jj, B_ALPHA),
                                                     bf(jj, B_DO), bf(jj, B_LENGTH), cp_b.f(jj), val_of(m(jj)),
                                                     bf(jj, B_TL), bf(jj, B_QEXT))
        e = lambda jj: exp(neg(SP.div(SP.mul(bf(jj, B_ALPHA), PI, bf(jj, B_DO), bf(jj, B_LENGTH)),
                                      SP.mul(cp_b.f(jj), mabs(jj)))))
        w = lambda jj: SP.mul(cp_n.f(jj), mabs(jj))
        nb, nn = bp.n, npit.n

        def has_flow(x):
            b = fresh("b")
            return z3.Exists([b], z3.And(b >= 0, B(compare("<", b, nb)), B(fl(b)),
                                         z3.Or(fn.f(b) == x, tn.f(b) == x)))

        def infeed(x):
            b, b2 = fresh("b"), fresh("b")
            return z3.And(z3.Exists([b], z3.And(b >= 0, B(compare("<", b, nb)), B(fl(b)), fn.f(b) == x)),
                          z3.Not(z3.Exists([b2], z3.And(b2 >= 0, B(compare("<", b2, nb)), B(fl(b2)),
                                                        tn.f(b2) == x))))
        return (Arr(nn, lambda x: ite(has_flow(x), 0, SP.sub(amb, t_n.f(x)))),
                Arr(nn, lambda x: ite(has_flow(x), 0, 1)),
                Arr(nb, lambda jj: ite(fl(jj), SP.mul(w(jj), SP.sub(t_i1.f(jj), t_nt.f(jj))), 0)),
                Arr(nb, lambda jj: ite(fl(jj), neg(w(jj)), 0)),
                Arr(nb, lambda jj: ite(fl(jj), w(jj), 0)),
                Arr(nb, lambda jj: ite(fl(jj), cool(jj), SP.sub(amb, t_i1.f(jj)))),
                Arr(nb, lambda jj: ite(fl(jj), e(jj), 0)),
                Arr(nb, lambda jj: -1),
                SetVal(infeed))
    return {
        PT + ":get_branch_cp": c_cp, IT + ":get_from_nodes_corrected": c_from,
        IT + ":get_to_nodes_corrected": c_to, PT + ":get_branch_real_density": c_density,
        TB + ":derivatives_thermal_np": c_kernel, TBN + ":derivatives_thermal_numba": c_kernel,
    }


def _stage(ctx, use_numba):
    ctx.assume("A1", "A3", "A4", "A5")
    fluid = K.make_fluid(False)
    amb = z3.Real("amb")
    spec = T.ArgSpec([
        ("net", "obj", dict(make=lambda: K.NetObj({
            "fluid": fluid, "_options": {"transient": False, "dt": None, "ambient_temperature": amb},
            "_lookups": {"node_old_pit_cols": K.sym_arr("nopc", z3.Int("NC"), "i"),
                         "branch_old_pit_cols": K.sym_arr("bopc", z3.Int("NC"), "i")}}))),
        ("branch_pit", "pit", dict(rows="b", ncols=NCB, int_cols=INT_B, nan_cols=(B_MDOTINIT,))),
        ("node_pit", "pit", dict(rows="n", ncols=NCN)),
        ("branch_pit_old", "pit", dict(rows="b", ncols=1)),
        ("node_pit_old", "pit", dict(rows="n", ncols=1)),
        ("options", "const", dict(value={"use_numba": use_numba})),
    ])
    log = []
    cs = stage_contracts(fluid, log, None)
    paths = T.run_paths(ctx, DC + ":calculate_derivatives_thermal", spec.build, contracts=cs)
    callsite, seen = [], set()
    for lbl, f in log:
        if lbl not in seen:
            seen.add(lbl)
            callsite.append((lbl, f))
    spec.build()
    bp0, np0 = spec.objs["branch_pit"], spec.objs["node_pit"]
    r, q = spec.r, spec.q
    req = spec.base() + pit_req(spec, fluid)
    normal = [p for p in paths if p.exc is None]
    ctx.decided("cover/returns", "cover", len(normal) >= 1, witness="no returning path")
    ctx.decided("cover/contracts-applied", "cover", len(callsite) >= 2,
                witness="callee contracts not reached (%d)" % len(callsite))
    for kx, (lbl, f) in enumerate(callsite):
        ctx.ob("requires@%s#%d" % (lbl, kx), "requires@callsite", req, f)
    cp = fluid.ufs["heat_capacity"]
    fn_c, tn_c = flow_nodes(bp0, r)
    m = bp0.f(r, B_MDOTINIT)
    fl = flows(m)
    mabs = absval(val_of(m))
    t_in, t_out, t_nt = np0.f(fn_c, N_TINIT), bp0.f(r, B_TOUTINIT), np0.f(tn_c, N_TINIT)
    cbar_b = cp_branch_spec(fluid, bp0, np0, r)
    # the mean heat capacity between the stream (outlet) temperature and the mix temperature
    cbar_n = SP.div(SP.add(cp(t_out), cp(t_nt)), 2)
    cool = SP.thermal_branch_residual(t_in, t_out, bp0.f(r, B_TEXT), bp0.f(r, B_ALPHA), bp0.f(r, B_DO),
                                      bp0.f(r, B_LENGTH), cbar_b, val_of(m), bp0.f(r, B_TL), bp0.f(r, B_QEXT))
    w = SP.mul(cbar_n, mabs)

    def bcol(c, expect, extra=()):
        return z3.And(*[z3.Implies(z3.And(p.cond(), *extra), K.eq_val(p.args[0][1].f(r, c), expect))
                        for p in normal])
    ctx.ob("ensures/LOAD_VEC_BRANCHES_T", "ensures", req, bcol(B_LOAD_VEC_BRANCHES_T,
                                                              ite(fl, cool, SP.sub(amb, t_out))))
    ctx.ob("ensures/JAC_DERIV_DTOUT", "ensures", req, bcol(B_JAC_DERIV_DTOUT, -1))
    ctx.ob("ensures/LOAD_VEC_NODES_TO_T", "ensures", req,
           bcol(B_LOAD_VEC_NODES_TO_T, ite(fl, SP.mul(w, SP.sub(t_out, t_nt)), 0)),
           replay=lambda mdl: {"handler": "thermal_mix_weight", "input": {"use_numba": use_numba},
                               "expected": "mixing weight |m| (cp(T_out) + cp(T_node)) / 2"})
    ctx.ob("ensures/JAC_DERIV_DT_NODE", "ensures", req, bcol(B_JAC_DERIV_DT_NODE, ite(fl, neg(w), 0)),
           replay=lambda mdl: {"handler": "thermal_mix_weight", "input": {"use_numba": use_numba},
                               "expected": "mixing weight |m| (cp(T_out) + cp(T_node)) / 2"})
    ctx.ob("ensures/JAC_DERIV_DTOUT_NODE", "ensures", req, bcol(B_JAC_DERIV_DTOUT_NODE, ite(fl, w, 0)),
           replay=lambda mdl: {"handler": "thermal_mix_weight", "input": {"use_numba": use_numba},
                               "expected": "mixing weight |m| (cp(T_out) + cp(T_node)) / 2"})

    def feeds(x, which):
        b = fresh("b")
        fc, tc = flow_nodes(bp0, b)
        return z3.Exists([b], z3.And(b >= 0, b < spec.NB, B(flows(bp0.f(b, B_MDOTINIT))),
                                     (fc if which == "from" else tc) == x))
    inf = z3.And(feeds(q, "from"), z3.Not(feeds(q, "to")))
    ctx.ob("ensures/INFEED", "ensures", req,
           z3.And(*[z3.Implies(p.cond(), (R(p.args[0][2].f(q, N_INFEED)) != 0) == inf) for p in normal]))
    has = z3.Or(feeds(q, "from"), feeds(q, "to"))
    ctx.ob("ensures/LOAD_T", "ensures", req,
           z3.And(*[z3.Implies(p.cond(), K.eq_val(p.args[0][2].f(q, N_LOAD_T),
                                                 ite(has, 0, SP.sub(amb, np0.f(q, N_TINIT))))) for p in normal]))
    ctx.ob("ensures/JAC_DERIV_DT_N", "ensures", req,
           z3.And(*[z3.Implies(p.cond(), K.eq_val(p.args[0][2].f(q, N_JAC_DERIV_DT_N), ite(has, 0, 1)))
                    for p in normal]))
    for nm, c in (("MDOTINIT", B_MDOTINIT), ("TOUTINIT", B_TOUTINIT), ("FROM_NODE", B_FROM_NODE),
                  ("TO_NODE", B_TO_NODE), ("LENGTH", B_LENGTH), ("ALPHA", B_ALPHA), ("TEXT", B_TEXT)):
        ctx.ob("frame/%s" % nm, "frame", req, bcol(c, bp0.f(r, c)))
    for nm, c in (("TINIT", N_TINIT), ("PINIT", N_PINIT)):
        ctx.ob("frame/node-%s" % nm, "frame", req,
               z3.And(*[z3.Implies(p.cond(), K.eq_val(p.args[0][2].f(q, c), np0.f(q, c))) for p in normal]))


for _eng, _nb in ENGINES:
    def _mk2(eng=_eng, nb=_nb):
        @unit("C10", "stage/" + eng, functions=[DC + ":calculate_derivatives_thermal"], engine="E2")
        def _u(ctx):
            _stage(ctx, nb)
    _mk2()


# ---------------------------------------------------------------------------------------------
# lemmas over the spec functions (convexity)

@unit("C10", "lemmas", engine="E2")
def lemmas(ctx):
    ctx.assume("A1", "A3")
    t_in, t_ext, a, d, L, c, m = z3.Reals("t_in t_ext alpha d_o len cp mdot")
    res = SP.thermal_branch_residual(t_in, z3.Real("t_out"), t_ext, a, d, L, c, m, 0, 0)
    t_out = z3.Real("t_out")
    pre = [a >= 0, d >= 0, L >= 0, c > 0, m != 0, R(res) == 0, V.PI > 3]
    ctx.ob("cooling/outlet-between-inlet-and-ambient", "lemma", pre,
           z3.And(z3.Implies(t_in >= t_ext, z3.And(t_out <= t_in, t_out >= t_ext)),
                  z3.Implies(t_in <= t_ext, z3.And(t_out >= t_in, t_out <= t_ext))))
    # two-stream mix: w1 (T1 - Tn) + w2 (T2 - Tn) = 0 with positive weights => min <= Tn <= max
    w1, w2, t1, t2, tn = z3.Reals("w1 w2 t1 t2 tn")
    ctx.ob("mixing/two-streams-between", "lemma", [w1 > 0, w2 > 0, w1 * (t1 - tn) + w2 * (t2 - tn) == 0],
           z3.And(tn >= z3.If(t1 <= t2, t1, t2), tn <= z3.If(t1 <= t2, t2, t1)))
    # induction step for n streams: adding a stream keeps the mix between min and max
    W, Tm, wk, tk, lo, hi, Tn2 = z3.Reals("W Tm wk tk lo hi Tn2")
    ctx.ob("mixing/induction-step", "lemma",
           [W > 0, wk > 0, lo <= Tm, Tm <= hi, lo <= tk, tk <= hi, W * (Tm - Tn2) + wk * (tk - Tn2) == 0],
           z3.And(lo <= Tn2, Tn2 <= hi))


@unit("C10", "lean_lemmas", engine="Lean")
def lean_lemmas(ctx):
    """L2 for any number of entering streams (Lean 4 + Mathlib): a mix with positive weights lies between
    every lower and upper bound of the stream temperatures; L1: imposed-temperature rows stay exact."""
    ctx.lean("L2/mix-between-any-number-of-streams", ["L2_mix_between"])
    ctx.lean("L1/affine-row-exact-after-full-step", ["L1_affine_row_exact"])


# ---------------------------------------------------------------------------------------------
# assembly of the thermal rows into the linear system (engine E3, shared with C01)

@unit("C10", "matrix/thermal", functions=["pandapipes.pf.build_system_matrix:build_system_matrix"], engine="E3")
def matrix_thermal(ctx):
    from contracts.C01 import thermal_matrix
    thermal_matrix(ctx)


@unit("C10", "check_infeed_number", functions=["pandapipes.pf.pipeflow_setup:check_infeed_number"], engine="E3")
def check_infeed_number_unit(ctx):
    """the guard in front of the thermal solve: it returns True only if the number of nodes marked as infeed equals the
    number of temperature-fixed nodes (the precondition under which the infeed rows of the thermal matrix pair the k-th
    infeed node with the k-th fixed node, unit matrix/thermal); INFEED is rewritten only in the all-nodes-fixed case, to 1
    on every fixed node"""
    ctx.assume("A1", "A4", "A6", "A7")
    PS_ = "pandapipes.pf.pipeflow_setup"
    N_T, N_NTT, N_INF = K.const(ND, "T"), K.const(ND, "NODE_TYPE_T"), K.const(ND, "INFEED")
    NN_ = z3.Int("NN")
    paths = T.run_paths(ctx, PS_ + ":check_infeed_number", lambda: ([K.sym_pit("node_pit", NN_, NCN, int_cols=(N_NTT,))], {}))
    ok = len(paths) >= 2 and all(p.exc is None for p in paths)
    ctx.decided("paths", "cover", ok, witness=str([str(p.exc) for p in paths]))
    if not ok:
        return
    np0 = K.sym_pit("node_pit", NN_, NCN, int_cols=(N_NTT,))
    n = z3.Int("n!node")
    fixed = lambda q: V.I(np0.f(q, N_NTT)) == N_T
    rets = set(str(p.result) for p in paths)
    ctx.decided("returns-a-boolean-on-every-path", "ensures", rets <= {"True", "False"} and len(rets) == 2, witness=str(rets))
    for kx, p in enumerate(paths):
        npit = p.args[0][0]
        a = [NN_ >= 1, n >= 0, n < NN_, p.cond()] + list(p.facts)
        ctx.ob("fixed-node-types-untouched#%d" % kx, "frame", a, K.eq_val(npit.f(n, N_NTT), np0.f(n, N_NTT)))
        ctx.ob("infeed-flag-only-ever-set-on-fixed-nodes#%d" % kx, "frame", a + [z3.Not(fixed(n))],
               K.eq_val(npit.f(n, N_INF), np0.f(n, N_INF)))
        ctx.ob("infeed-flag-of-a-fixed-node-kept-or-set#%d" % kx, "ensures", a + [fixed(n)],
               z3.Or(K.eq_val(npit.f(n, N_INF), np0.f(n, N_INF)), K.eq_val(npit.f(n, N_INF), 1)))
