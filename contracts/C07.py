"""C07 -- numba and numpy engines (and the matrix-update option) give the same answer.

Twin obligations (engine E2): both kernels are evaluated symbolically from the current source on
the same uninterpreted inputs; every returned array must agree at an arbitrary row, for every
array length.  The catalogue of twin switches is discovered mechanically; a switch without a
registered obligation is itself a failed obligation.
"""
import ast
import z3

from pvc.harness import unit
from pvc import src as S, kern as K, twin as T, ev as E
from pvc.val import *  # noqa

# property-level native oracle used as the replay of refuted obligations that carry no model-specific replay
FALLBACK_REPLAY = {"handler": "bounded_named", "input": {"what": "engine_equivalence", "check": "engines-agree"},
                   "expected": "use_numba=True and use_numba=False give the same result tables (rtol 1e-9)"}

BR = "pandapipes.idx_branch"
ND = "pandapipes.idx_node"
TB = "pandapipes.pf.derivative_toolbox"
TBN = "pandapipes.pf.derivative_toolbox_numba"
RX = "pandapipes.pf.result_extraction"

NCB = K.const(BR, "branch_cols")
NCN = K.const(ND, "node_cols")
FROM_NODE, TO_NODE = K.consts(BR, "FROM_NODE", "TO_NODE")
INT_B = (FROM_NODE, TO_NODE)


def forall_rows(n, body):
    i = z3.Int("i")
    return z3.ForAll([i], z3.Implies(z3.And(i >= 0, i < n), body(i)))


def arr(name, rows="b", **kw):
    d = dict(rows=rows)
    d.update(kw)
    return (name, "arr", d)


SEARCH_HYD = {"ranges": {"branch_pit": {str(K.const(BR, "MDOTINIT")): (-2.0, 2.0)}}}


@unit("C07", "hyd_incomp", functions=[TB + ":derivatives_hydraulic_incomp_np",
                                      TBN + ":derivatives_hydraulic_incomp_numba"], engine="E2")
def hyd_incomp(ctx):
    ctx.assume("A1", "A5", "A4")
    D, AREA = K.consts(BR, "D", "AREA")
    spec = T.ArgSpec([("branch_pit", "pit", dict(rows="b", ncols=NCB, int_cols=INT_B))] +
                     [arr(x) for x in ("der_lambda", "p_init_i_abs", "p_init_i1_abs",
                                       "height_difference", "rho")])

    def req(sp):
        bp = sp.objs["branch_pit"]
        return [forall_rows(sp.NB, lambda i: z3.And(bp.f(i, D) != 0, bp.f(i, AREA) != 0,
                                                    sp.objs["rho"].f(i) != 0))]
    names = ["load_vec", "load_vec_nodes_from", "load_vec_nodes_to", "df_dm", "df_dm_nodes",
             "df_dp", "df_dp1", "dp_frict_loss"]
    T.twin_check(ctx, "kernel", TB + ":derivatives_hydraulic_incomp_np",
                 TBN + ":derivatives_hydraulic_incomp_numba", spec,
                 [(k, nm, "branch") for k, nm in enumerate(names)], req, search=SEARCH_HYD)


@unit("C07", "hyd_comp", functions=[TB + ":derivatives_hydraulic_comp_np",
                                    TBN + ":derivatives_hydraulic_comp_numba"], engine="E2")
def hyd_comp(ctx):
    ctx.assume("A1", "A5", "A4")
    D, AREA = K.consts(BR, "D", "AREA")
    spec = T.ArgSpec([("node_pit", "pit", dict(rows="n", ncols=NCN)),
                      ("branch_pit", "pit", dict(rows="b", ncols=NCB, int_cols=INT_B))] +
                     [arr(x) for x in ("lambda_", "der_lambda", "p_init_i_abs", "p_init_i1_abs",
                                       "height_difference", "comp_fact", "der_comp", "der_comp1",
                                       "rho", "rho_n")])

    def req(sp):
        bp = sp.objs["branch_pit"]
        return [forall_rows(sp.NB, lambda i: z3.And(
            bp.f(i, D) != 0, bp.f(i, AREA) != 0, sp.objs["rho_n"].f(i) != 0,
            sp.objs["p_init_i_abs"].f(i) + sp.objs["p_init_i1_abs"].f(i) != 0,
            z3.ToInt(bp.f(i, FROM_NODE)) >= 0, z3.ToInt(bp.f(i, FROM_NODE)) < sp.NN))]
    names = ["load_vec", "load_vec_nodes_from", "load_vec_nodes_to", "df_dm", "df_dm_nodes",
             "df_dp", "df_dp1", "dp_frict_loss"]
    T.twin_check(ctx, "kernel", TB + ":derivatives_hydraulic_comp_np",
                 TBN + ":derivatives_hydraulic_comp_numba", spec,
                 [(k, nm, "branch") for k, nm in enumerate(names)], req, search=SEARCH_HYD)


def _lambda_unit(ctx, np_name, nb_name):
    ctx.assume("A1", "A3", "A5", "A4")
    spec = T.ArgSpec([arr(x) for x in ("m", "d", "k", "eta", "area")])

    def req(sp):
        o = sp.objs
        # admissible: positive diameter, viscosity, area; roughness 0 < k < d (relative roughness
        # below 1, so that both Nikuradse logarithms are away from their zero)
        return [forall_rows(sp.NB, lambda i: z3.And(o["d"].f(i) > 0, o["k"].f(i) > 0,
                                                    o["k"].f(i) < o["d"].f(i),
                                                    o["eta"].f(i) > 0, o["area"].f(i) > 0))]
    T.twin_check(ctx, "kernel", TB + ":" + np_name, TBN + ":" + nb_name, spec,
                 [(0, "re", "branch"), (1, "lambda_laminar", "branch"),
                  (2, "lambda_nikuradse", "branch")], req,
                 search={"ranges": {"m": (-1.0, 1.0), "d": (0.01, 1.0), "k": (1e-5, 1e-3),
                                    "eta": (1e-6, 1e-3), "area": (1e-4, 1.0)}})


@unit("C07", "lambda_incomp", functions=[TB + ":calc_lambda_nikuradse_incomp_np",
                                         TBN + ":calc_lambda_nikuradse_incomp_numba"], engine="E2")
def lambda_incomp(ctx):
    _lambda_unit(ctx, "calc_lambda_nikuradse_incomp_np", "calc_lambda_nikuradse_incomp_numba")


@unit("C07", "lambda_comp", functions=[TB + ":calc_lambda_nikuradse_comp_np",
                                       TBN + ":calc_lambda_nikuradse_comp_numba"], engine="E2")
def lambda_comp(ctx):
    _lambda_unit(ctx, "calc_lambda_nikuradse_comp_np", "calc_lambda_nikuradse_comp_numba")


@unit("C07", "medium_pressure", functions=[TB + ":calc_medium_pressure_with_derivative_np",
                                           TBN + ":calc_medium_pressure_with_derivative_numba"],
      engine="E2")
def medium_pressure(ctx):
    ctx.assume("A1", "A5", "A4")
    spec = T.ArgSpec([arr("p_init_i_abs"), arr("p_init_i1_abs")])

    def req(sp):
        o = sp.objs
        # absolute pressures are positive, hence p^2 - p1^2 != 0 whenever p != p1
        return [forall_rows(sp.NB, lambda i: z3.And(o["p_init_i_abs"].f(i) > 0,
                                                    o["p_init_i1_abs"].f(i) > 0))]
    T.twin_check(ctx, "kernel", TB + ":calc_medium_pressure_with_derivative_np",
                 TBN + ":calc_medium_pressure_with_derivative_numba", spec,
                 [(0, "p_m", "branch"), (1, "der_p_m", "branch"), (2, "der_p_m1", "branch")], req,
                 search={"ranges": {"p_init_i_abs": (0.5, 80.0), "p_init_i1_abs": (0.5, 80.0)}})


@unit("C07", "derived_values", functions=[TB + ":calc_derived_values_np",
                                          TBN + ":calc_derived_values_numba"], engine="E2")
def derived_values(ctx):
    ctx.assume("A1", "A5", "A4")
    spec = T.ArgSpec([("node_pit", "pit", dict(rows="n", ncols=NCN)),
                      arr("from_nodes", kind="i"), arr("to_nodes", kind="i")])

    def req(sp):
        o = sp.objs
        return [forall_rows(sp.NB, lambda i: z3.And(o["from_nodes"].f(i) >= 0,
                                                    o["from_nodes"].f(i) < sp.NN,
                                                    o["to_nodes"].f(i) >= 0,
                                                    o["to_nodes"].f(i) < sp.NN))]
    T.twin_check(ctx, "kernel", TB + ":calc_derived_values_np", TBN + ":calc_derived_values_numba",
                 spec, [(0, "tinit_branch", "branch"), (1, "height_difference", "branch"),
                        (2, "p_init_i_abs", "branch"), (3, "p_init_i1_abs", "branch")], req)


# ---------------------------------------------------------------------------------------------
# thermal kernels (steady state symbolically; transient bounded)

def thermal_spec():
    MD = K.const(BR, "MDOTINIT")
    return T.ArgSpec(
        [("node_pit", "pit", dict(rows="n", ncols=NCN)),
         ("branch_pit", "pit", dict(rows="b", ncols=NCB, int_cols=INT_B, nan_cols=(MD,))),
         ("node_pit_old", "pit", dict(rows="n", ncols=1)),
         arr("node_pit_old_lookup", rows="c", kind="i"),
         ("branch_pit_old", "pit", dict(rows="b", ncols=1)),
         arr("branch_pit_old_lookup", rows="c", kind="i"),
         arr("from_nodes", kind="i"), arr("to_nodes", kind="i"),
         arr("t_init_i"), arr("t_init_i1"), arr("t_init_nt"), arr("t_init_n", rows="n"),
         arr("cp_n"), arr("cp_b"), arr("rho"),
         ("dt", "const", dict(value=None)), ("transient", "const", dict(value=False)),
         ("amb", "sym", dict(term=z3.Real("amb")))])


def thermal_req(sp):
    o = sp.objs
    return [forall_rows(sp.NB, lambda i: z3.And(o["from_nodes"].f(i) >= 0,
                                                o["from_nodes"].f(i) < sp.NN,
                                                o["to_nodes"].f(i) >= 0,
                                                o["to_nodes"].f(i) < sp.NN,
                                                o["cp_b"].f(i) != 0))]


THERMAL_OUT = [(0, "fn", "node"), (1, "dfn_dt", "node"), (2, "fnt", "branch"),
               (3, "dfnt_dt", "branch"), (4, "dfnt_dtout", "branch"), (5, "fb", "branch"),
               (6, "dfb_dt", "branch"), (7, "dfb_dtout", "branch"), (8, "infeed", "set")]


@unit("C07", "thermal", functions=[TB + ":derivatives_thermal_np", TBN + ":derivatives_thermal_numba",
                                   TBN + ":_make_lookups", TB + ":_branches_not_zero_flow"],
      engine="E2")
def thermal(ctx):
    ctx.assume("A1", "A3", "A5", "A4")
    spec = thermal_spec()
    MD = K.const(BR, "MDOTINIT")
    T.twin_check(ctx, "kernel", TB + ":derivatives_thermal_np", TBN + ":derivatives_thermal_numba",
                 spec, THERMAL_OUT, thermal_req,
                 search={"ranges": {"branch_pit": {str(MD): (-1e-9, 1e-9)}}})


# ---------------------------------------------------------------------------------------------
# catalogue completeness

REGISTERED_SWITCHES = {
    # sorted tuple of the functions that differ between the two arms -> unit(s) that cover them
    ("calc_medium_pressure_with_derivative_np", "calc_medium_pressure_with_derivative_numba",
     "derivatives_hydraulic_comp_np", "derivatives_hydraulic_comp_numba",
     "derivatives_hydraulic_incomp_np", "derivatives_hydraulic_incomp_numba"):
        ["hyd_incomp", "hyd_comp", "medium_pressure"],
    ("derivatives_thermal_np", "derivatives_thermal_numba"): ["thermal"],
    ("calc_derived_values_np", "calc_derived_values_numba"): ["derived_values"],
    ("calc_lambda_nikuradse_comp_np", "calc_lambda_nikuradse_comp_numba",
     "calc_lambda_nikuradse_incomp_np", "calc_lambda_nikuradse_incomp_numba"):
        ["lambda_incomp", "lambda_comp"],
    ("get_branch_results_gas", "get_branch_results_gas_numba"): ["gas_results"],
    ("_sum_by_group_numba",): ["sum_by_group (bounded)"],
}


def _names_in(nodes):
    out = set()
    for n in nodes:
        for x in ast.walk(n):
            if isinstance(x, ast.ImportFrom):
                for a in x.names:
                    out.add(a.name)
            elif isinstance(x, ast.Call):
                f = x.func
                if isinstance(f, ast.Name):
                    out.add(f.id)
                elif isinstance(f, ast.Attribute):
                    out.add(f.attr)
    return out


def discover_switches():
    found = []
    for m in S.all_repo_modules():
        mi = S.get_module(m)
        for node in ast.walk(mi.tree):
            if not isinstance(node, ast.If):
                continue
            test_src = ast.unparse(node.test)
            if "use_numba" not in test_src:
                continue
            body, orelse = list(node.body), list(node.orelse)
            if not orelse:
                # `if use_numba: return f_numba(...)` followed by the numpy call
                continue
            a, b = _names_in(body), _names_in(orelse)
            repo_fns = set()
            for mm in S.all_repo_modules():
                repo_fns |= set(k for k in S.get_module(mm).functions if "." not in k)
            da = sorted((a ^ b) & repo_fns)
            if da:
                found.append((m, node.lineno, tuple(da)))
    # the early-return form
    for m in S.all_repo_modules():
        mi = S.get_module(m)
        for fn in mi.functions.values():
            body = fn.node.body
            for k, st in enumerate(body):
                if isinstance(st, ast.If) and not st.orelse and "use_numba" in ast.unparse(st.test) \
                        and any(isinstance(x, ast.Return) for x in st.body):
                    a, b = _names_in(st.body), _names_in(body[k + 1:])
                    repo_fns = set()
                    for mm in S.all_repo_modules():
                        repo_fns |= set(kk for kk in S.get_module(mm).functions if "." not in kk)
                    da = sorted((a ^ b) & repo_fns)
                    if da:
                        found.append((m, st.lineno, tuple(da)))
    return found


@unit("C07", "catalogue", engine="E2")
def catalogue(ctx):
    found = discover_switches()
    ctx.notes.append("twin switches discovered: %s" % [(m, ln, list(d)) for m, ln, d in found])
    seen = set()
    for m, ln, d in found:
        if d in seen:
            continue
        seen.add(d)
        ok = d in REGISTERED_SWITCHES
        ctx.decided("switch/%s" % "+".join(d), "catalogue", ok,
                    witness="%s line %d switches between %s" % (m, ln, list(d)),
                    note="every use_numba switch must be covered by a registered twin obligation")
    # the units named as covering a switch must exist
    from pvc.harness import UNITS
    have = set(u["name"] for u in UNITS.get("C07", []))
    for d, us in REGISTERED_SWITCHES.items():
        for u in us:
            if "(bounded)" in u:
                continue
            ctx.decided("covering-unit-exists/%s" % u, "catalogue",
                        any(h == u or h.startswith(u + "/") for h in have),
                        witness="registered covering unit %s does not exist" % u)
    ctx.decided("switch-count", "catalogue", len(seen) >= 5,
                witness="only %d switches discovered" % len(seen),
                note="vacuity guard: the discovery must find the known switches")


# ---------------------------------------------------------------------------------------------
# gas result post-processing twins

def _gas_results(ctx, comp_2d):
    ctx.assume("A1", "A5", "A4")
    fluid = K.make_fluid(True, comp_2d=comp_2d)
    TSW = K.const(BR, "FROM_NODE_T_SWITCHED")
    spec = T.ArgSpec([
        ("net", "obj", dict(make=lambda: K.NetObj({"fluid": fluid}),
                            replay={"kind": "net", "fluid": "hgas"})),
        ("branch_pit", "pit", dict(rows="b", ncols=NCB, int_cols=INT_B + (TSW,))),
        ("node_pit", "pit", dict(rows="n", ncols=NCN)),
        arr("from_nodes", kind="i"), arr("to_nodes", kind="i"),
        arr("v_mps"), arr("p_from"), arr("p_to")])
    PAMB = K.const(ND, "PAMB")

    def req(sp):
        o = sp.objs
        bp, npit = o["branch_pit"], o["node_pit"]
        return [forall_rows(sp.NB, lambda i: z3.And(
            o["from_nodes"].f(i) >= 0, o["from_nodes"].f(i) < sp.NN, o["to_nodes"].f(i) >= 0,
            o["to_nodes"].f(i) < sp.NN,
            # the pit columns FROM_NODE / TO_NODE are what extract_all_results passes as arrays
            z3.ToInt(bp.f(i, FROM_NODE)) == o["from_nodes"].f(i),
            z3.ToInt(bp.f(i, TO_NODE)) == o["to_nodes"].f(i),
            z3.Or(z3.ToInt(bp.f(i, TSW)) == 0, z3.ToInt(bp.f(i, TSW)) == 1),
            npit.f(o["from_nodes"].f(i), PAMB) + o["p_from"].f(i) > 0,
            npit.f(o["to_nodes"].f(i), PAMB) + o["p_to"].f(i) > 0))]
    names = ["v_gas_from", "v_gas_to", "v_gas_mean", "p_abs_from", "p_abs_to", "p_abs_mean",
             "normfactor_from", "normfactor_to", "normfactor_mean"]
    TIN = K.const(ND, "TINIT")
    T.twin_check(ctx, "kernel", RX + ":get_branch_results_gas", RX + ":get_branch_results_gas_numba",
                 spec, [(k, nm, "branch") for k, nm in enumerate(names)], req,
                 search={"ranges": {"node_pit": {str(TIN): (280.0, 360.0), str(PAMB): (1.0, 1.02)},
                                    "branch_pit": {str(K.const(BR, "TOUTINIT")): (280.0, 360.0)},
                                    "p_from": (1.0, 50.0), "p_to": (1.0, 50.0), "v_mps": (-5.0, 5.0)}})
    for k in (RX + ":get_pressures_numba", RX + ":get_gas_vel_numba"):
        ctx.use_function(S.get_function(k))


@unit("C07", "gas_results/compressibility_1d", functions=[RX + ":get_branch_results_gas",
                                                         RX + ":get_branch_results_gas_numba"], engine="E2")
def gas_results_1d(ctx):
    _gas_results(ctx, False)


@unit("C07", "gas_results/compressibility_2d", functions=[RX + ":get_branch_results_gas",
                                                         RX + ":get_branch_results_gas_numba"], engine="E2")
def gas_results_2d(ctx):
    _gas_results(ctx, True)


# ---------------------------------------------------------------------------------------------
# only_update_hydraulic_matrix: the cache may only change HOW the matrix object is produced

BSM = "pandapipes.pf.build_system_matrix"


def _names(node):
    return {n.id for n in ast.walk(node) if isinstance(n, ast.Name)}


def _reads_cache(node):
    return any(isinstance(n, ast.Constant) and n.value in ("_internal_data", "only_update_hydraulic_matrix") for n in ast.walk(node))


def _targets(st):
    """root names written by an assignment (x = .., x[..] = .., x.a = ..); stores into the net object itself are the
    cache write-set, checked separately"""
    out = set()
    tg = []
    if isinstance(st, ast.Assign):
        tg = st.targets
    elif isinstance(st, (ast.AugAssign, ast.AnnAssign)):
        tg = [st.target]

    def root(t):
        while isinstance(t, (ast.Subscript, ast.Attribute)):
            t = t.value
        return t.id if isinstance(t, ast.Name) else None
    for t in tg:
        for e in (t.elts if isinstance(t, (ast.Tuple, ast.List)) else [t]):
            r = root(e)
            if r is not None and r != "net":
                out.add(r)
    return out


@unit("C07", "update_option/dependence", functions=[BSM + ":build_system_matrix"], engine="E4")
def update_option_dependence(ctx):
    """information-flow contract of build_system_matrix: the option only_update_hydraulic_matrix and the cached
    structure in net['_internal_data'] may influence the matrix OBJECT (re-used sparsity structure, data overwritten)
    but never the load vector, and the cache holds exactly the two structural entries -- so a run with the option
    solves the same linear systems as a run without it (given an unchanged topology, the option's precondition)"""
    ctx.assume("A6")
    fref = S.get_function(BSM + ":build_system_matrix")
    fn = fref.node
    tainted = set()
    changed = True

    def visit(stmts, ctrl):
        nonlocal changed
        for st in stmts:
            if isinstance(st, ast.If):
                c = ctrl or bool(_names(st.test) & tainted) or _reads_cache(st.test)
                visit(st.body, c)
                visit(st.orelse, c)
                continue
            if isinstance(st, (ast.For, ast.While)):
                visit(st.body, ctrl)
                continue
            tg = _targets(st)
            if not tg:
                continue
            val = getattr(st, "value", None)
            dep = ctrl or (val is not None and (bool(_names(val) & tainted) or _reads_cache(val)))
            if dep and not tg <= tainted:
                tainted.update(tg)
                changed = True
    while changed:
        changed = False
        visit(fn.body, False)
    ctx.decided("flag-and-cache-found", "cover", "update_only" in tainted and "update_option" in tainted, witness=str(sorted(tainted)))
    ctx.decided("load-vector-independent-of-option-and-cache", "ensures", "load_vector" not in tainted,
                witness="load_vector depends on the update option / cached data through: %s" % sorted(tainted))
    # the option-dependent values leave the function only as the FIRST returned value (the matrix object) and as cache
    # entries -- whatever the local variables are called
    leaks = []
    for r in [n for n in ast.walk(fn) if isinstance(n, ast.Return) and n.value is not None]:
        elts = r.value.elts if isinstance(r.value, ast.Tuple) else [r.value]
        for pos, e in enumerate(elts):
            if pos >= 1 and (_names(e) & tainted):
                leaks.append("line %d: returned value #%d (%s) depends on %s" % (r.lineno, pos, ast.unparse(e), sorted(_names(e) & tainted)))
    for st in ast.walk(fn):
        if isinstance(st, (ast.Assign, ast.AugAssign)):
            for t in (st.targets if isinstance(st, ast.Assign) else [st.target]):
                if isinstance(t, ast.Subscript) and ast.unparse(t).startswith("net[") and "_internal_data" not in ast.unparse(t):
                    val = st.value
                    if _names(val) & tainted:
                        leaks.append("line %d: %s stores an option-dependent value outside the cache" % (st.lineno, ast.unparse(t)))
    ctx.decided("only-the-matrix-object-and-the-cache-depend-on-the-option", "ensures", not leaks, witness="; ".join(leaks))
    # cache write-set over the whole package
    keys = set()
    import os
    for root, _, files in os.walk(os.path.join(S.REPO, "src", "pandapipes")):
        if "/test" in root:
            continue
        for f in files:
            if not f.endswith(".py"):
                continue
            tree = ast.parse(open(os.path.join(root, f)).read())
            for n in ast.walk(tree):
                if isinstance(n, (ast.Assign, ast.AugAssign)):
                    for t in (n.targets if isinstance(n, ast.Assign) else [n.target]):
                        if isinstance(t, ast.Subscript) and isinstance(t.value, ast.Subscript) and \
                                isinstance(t.value.slice, ast.Constant) and t.value.slice.value == "_internal_data":
                            keys.add(t.slice.value if isinstance(t.slice, ast.Constant) else ast.unparse(t.slice))
    ctx.decided("cache-holds-exactly-the-structural-entries", "frame", keys == {"hydraulic_data_sorting", "hydraulic_matrix"},
                witness="entries written to net['_internal_data']: %s" % sorted(keys))


# ---------------------------------------------------------------------------------------------
# bounded stand-ins for the update path (lexsort / CSR pointer / cached-structure code is permutation and
# prefix-sum code outside the SMT fragment -- section 3, E3); labelled bounded, never counted as proved

@unit("C07", "bounded/update_matrix", functions=[BSM + ":build_system_matrix"], engine="bounded")
def update_matrix_bounded(ctx):
    from pvc.harness import venv_run
    big = ctx.tier == "thorough"
    inp = {"what": "update_matrix", "max_nodes": 3, "max_branches": 3 if big else 2, "seed": ctx.seed}
    res = venv_run("bounded.py", inp, timeout=3000)
    scope = ("build_system_matrix(heat_mode=False) on ALL hydraulic pits with <= %d nodes (type none / fixed pressure / "
             "pressure-controlled, >= 1 fixed), <= %d branches with arbitrary distinct ends, every placement of the "
             "pressure-control branches, random non-zero value columns: plain call vs first call with "
             "only_update_hydraulic_matrix vs second call on the cached structure after spsolve used the cached matrix "
             "and all value columns changed; dense matrices and load vectors compared" % (inp["max_nodes"], inp["max_branches"]))
    for cls, label in (("distinct", "update-path-equals-plain/distinct-coo-positions"),
                       ("duplicate", "update-path-equals-plain/duplicate-coo-positions")):
        r = res[cls]
        ctx.bounded(label, r["ok"], scope + ("; class: COO positions pairwise distinct" if cls == "distinct" else
                                             "; class: a pressure-control branch whose controlled node is one of its own ends "
                                             "(two COO entries at one matrix position)"),
                    r["cases"], witness=r["witness"],
                    replay={"handler": "bounded", "input": inp, "expected": "matrices and load vectors agree"} if not r["ok"] else None)


@unit("C07", "bounded/update_pipeline", functions=["pandapipes.pipeflow:pipeflow", "pandapipes.pipeflow:hydraulics",
                                                    BSM + ":build_system_matrix"], engine="bounded")
def update_pipeline_bounded(ctx):
    from pvc.harness import venv_run
    inp = {"what": "update_pipeline"}
    res = venv_run("bounded.py", inp, timeout=3000)
    ctx.bounded("reused-internal-data-with-changed-loads-equals-fresh-calculation", res["ok"],
                "one meshed 5-junction network (4 pipes with 1/2/3 sections, valve, 2 sinks, source) x {water, lgas} x "
                "use_numba False/True x {nikuradse, swamee-jain}: 4 successive pipeflow calls with reuse_internal_data and "
                "only_update_hydraulic_matrix, loads changed between the calls (incl. all loads zero), each compared with a "
                "fresh calculation of a copy stripped of every underscore entry (rtol 1e-9; same exception class if both raise)",
                res["cases"], witness=res["witness"],
                replay={"handler": "bounded", "input": inp, "expected": "results agree"} if not res["ok"] else None)


# ---------------------------------------------------------------------------------------------
# reuse_internal_data / only_update_hydraulic_matrix: the cached structure is read only when its reuse was requested and
# never survives a run that did not request it (shared with C12: a stale cache changes what a later run computes)

@unit("C07", "cache/no_stale_read", functions=["pandapipes.pipeflow:pipeflow"], engine="E4")
def cache_stale(ctx):
    from contracts.C12 import stale_reads
    stale_reads(ctx)


@unit("C07", "cache/dropped_on_every_exit", functions=["pandapipes.pipeflow:hydraulics", "pandapipes.pipeflow:bidirectional"], engine="E1")
def cache_drop(ctx):
    from contracts.C12 import cache_dropped
    cache_dropped(ctx)



@unit("C07", "bounded/engine_equivalence", functions=["pandapipes.pipeflow:pipeflow"], engine="bounded")
def engine_equivalence_bounded(ctx):
    """property-level bounded stand-in (and fallback replay): whole calculations with both engines"""
    from pvc.harness import venv_run
    inp = {"what": "engine_equivalence"}
    res = venv_run("bounded.py", inp, timeout=3000)["checks"]
    scope = ("15 configurations x both engines: a gas network (hgas, 2-D compressibility, 5 pipes incl. two drawn against the flow, a "
             "dead-end pipe with zero flow, 1/2/3 sections, heights, temperature gradient) x {hydraulics, sequential, bidirectional} and a "
             "water loop (pressure circulation pump, heat exchanger against the flow, two heat consumers of different modes, outer != inner "
             "diameter) x {sequential, bidirectional}, each x {nikuradse, swamee-jain, colebrook}; every res_* table, rtol 1e-9; friction "
             "factor / Reynolds number on zero-flow rows judged separately")
    for k, v in res.items():
        ctx.bounded(k, v["ok"], scope, v["cases"], witness=v.get("witness"),
                    replay={"handler": "bounded_named", "input": {"what": "engine_equivalence", "check": k}} if not v["ok"] else None)
