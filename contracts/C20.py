"""C20 -- multi-energy coupling conserves energy and equals the decoupled calculation.

Engine E1/E2 on the real controller methods: `control_step` + `write_to_net` of the three coupling
controllers are evaluated symbolically for a scalar element index (the `.at` path) and for an
index array (the `.loc` path); the value written must be  scaled value x conversion factor x
efficiency  at the fluid's heating value, nothing else may change.  The conversion factors of the
two directions are proved inverse.  `_evaluate_multinet` reports convergence iff every net
converged.  "Every member net holds the results of a stand-alone calculation" is C12/C05."""
import z3

from pvc.harness import unit
from pvc import src as S, kern as K, twin as T, ev as E
from pvc.val import *  # noqa
from pvc import val as V

MC = "pandapipes.multinet.control.controller.multinet_control"
RC = "pandapipes.multinet.control.run_control_multinet"


def cls(name):
    return S.get_module(MC).classes[name]


def world(power_tables, gas_tables, gas2_tables=None):
    nets = {"power": K.NetObj({t: K.LabelTable("power_" + t, cols) for t, cols in power_tables.items()}),
            "gas": K.NetObj({t: K.LabelTable("gas_" + t, cols) for t, cols in gas_tables.items()})}
    if gas2_tables is not None:
        nets["gas2"] = K.NetObj({t: K.LabelTable("gas2_" + t, cols) for t, cols in gas2_tables.items()})
    return K.NetObj({"nets": nets})


def indices(mode):
    if mode == "scalar":
        return z3.Int("idx_a"), z3.Int("idx_b"), None
    n = z3.Int("NIDX")
    return K.sym_arr("idx_a", n, "i"), K.sym_arr("idx_b", n, "i"), n


def run_step(ctx, cname, attrs, mk_world):
    def mk():
        w = mk_world()
        self_obj = E.Obj("ctrl", dict(attrs()), cls=cls(cname))
        return [self_obj, w], {}
    return T.run_paths(ctx, MC + ":%s.control_step" % cname, mk)


def injective(arr, n):
    a, b = z3.Int("ja"), z3.Int("jb")
    return z3.ForAll([a, b], z3.Implies(z3.And(a >= 0, a < n, b >= 0, b < n, arr.f(a) == arr.f(b)), a == b))


def check_written(ctx, label, paths, mode, get_tbl, col, idx_w, n, expected_at, other_cols, untouched,
                  requires):
    """the target column holds the expected value at the written label(s), is unchanged elsewhere;
    other columns / tables are unchanged"""
    normal = [p for p in paths if p.exc is None]
    ctx.decided("%s/returns" % label, "cover", len(normal) >= 1 and len(normal) == len(paths),
                witness="paths: %s" % [str(p.exc) for p in paths])
    x = z3.Int("x_label")
    for p in normal:
        w = p.args[0][1]
        tbl = get_tbl(w)
        f = tbl.cols[col]
        f0 = tbl.col0(col)
        facts = p.facts
        if mode == "scalar":
            ctx.ob("%s/written-value" % label, "ensures", requires + facts + [p.cond()],
                   K.eq_val(f(idx_w), expected_at(None)))
            ctx.ob("%s/frame-other-labels" % label, "frame", requires + facts + [p.cond(), x != idx_w],
                   K.eq_val(f(x), f0(x)))
        else:
            j = z3.Int("j_pos")
            ctx.ob("%s/written-value" % label, "ensures",
                   requires + facts + [p.cond(), j >= 0, j < n, injective(idx_w, n)],
                   K.eq_val(f(idx_w.f(j)), expected_at(j)))
            k = fresh("k")
            ctx.ob("%s/frame-other-labels" % label, "frame",
                   requires + facts + [p.cond(), z3.ForAll([k], z3.Implies(z3.And(k >= 0, k < n), idx_w.f(k) != x))],
                   K.eq_val(f(x), f0(x)))
        for oc in other_cols:
            ctx.ob("%s/frame-column[%s]" % (label, oc), "frame", requires + facts + [p.cond()],
                   K.eq_val(tbl.cols[oc](x), tbl.col0(oc)(x)))
        for nm, get_other in untouched:
            ot = get_other(w)
            ctx.decided("%s/frame-table[%s]" % (label, nm), "frame", not ot.writes,
                        witness="%s written: %s" % (nm, ot.writes))
        so = p.args[0][0]
        ctx.decided("%s/applied" % label, "ensures", so.attrs.get("applied") is True,
                    witness="applied = %r" % so.attrs.get("applied"))


def _p2g(ctx, mode):
    ctx.assume("A1", "A4", "A6")
    ia, ib, n = indices(mode)
    eta, hhv = z3.Real("efficiency"), z3.Real("hhv")
    attrs = lambda: {"elm_idx_power": ia, "elm_idx_gas": ib, "name_net_power": "power",
                     "name_net_gas": "gas", "efficiency": eta, "fluid_calorific_value": hhv,
                     "mdot_kg_per_s": None, "applied": False}
    mkw = lambda: world({"load": ["p_mw", "scaling"]}, {"source": ["mdot_kg_per_s", "scaling"]})
    paths = run_step(ctx, "P2GControlMultiEnergy", attrs, mkw)
    w0 = mkw()
    load = w0.items["nets"]["power"].items["load"]

    def exp(j):
        lab = ia if j is None else ia.f(j)
        return load.col0("p_mw")(lab) * load.col0("scaling")(lab) * (1000 / (hhv * 3600)) * eta
    check_written(ctx, "p2g/" + mode, paths, mode,
                  lambda w: w.items["nets"]["gas"].items["source"], "mdot_kg_per_s", ib, n, exp,
                  ["scaling"], [("power.load", lambda w: w.items["nets"]["power"].items["load"])],
                  [hhv > 0])


def _g2p(ctx, mode, power_led):
    ctx.assume("A1", "A4", "A6")
    # the power element may live in ANY power table (sgen or gen): the table named by elm_type_power is read / written,
    # the other one is never touched although it has the same index labels
    for etype, other in (("sgen", "gen"), ("gen", "sgen")):
        ia, ib, n = indices(mode)       # ia: power element, ib: gas sink
        eta, hhv = z3.Real("efficiency"), z3.Real("hhv")
        attrs = lambda _e=etype: {"elm_idx_power": ia, "elm_idx_gas": ib, "elm_type_power": _e,
                                  "name_net_power": "power", "name_net_gas": "gas", "efficiency": eta,
                                  "fluid_calorific_value": hhv, "el_power_led": power_led, "applied": False}
        mkw = lambda: world({"sgen": ["p_mw", "scaling"], "gen": ["p_mw", "scaling"]}, {"sink": ["mdot_kg_per_s", "scaling"]})
        paths = run_step(ctx, "G2PControlMultiEnergy", attrs, mkw)
        w0 = mkw()
        pel = w0.items["nets"]["power"].items[etype]
        sink = w0.items["nets"]["gas"].items["sink"]
        tag = "" if etype == "sgen" else "/gen"
        if power_led:
            def exp(j, _pel=pel):
                lab = ia if j is None else ia.f(j)
                return _pel.col0("p_mw")(lab) * _pel.col0("scaling")(lab) / ((hhv * 3600 / 1000) * eta)
            check_written(ctx, "g2p-power-led/" + mode + tag, paths, mode,
                          lambda w: w.items["nets"]["gas"].items["sink"], "mdot_kg_per_s", ib, n, exp,
                          ["scaling"], [("power." + etype, lambda w, _e=etype: w.items["nets"]["power"].items[_e]),
                                        ("power." + other, lambda w, _o=other: w.items["nets"]["power"].items[_o])],
                          [hhv > 0, eta > 0])
        else:
            def exp(j):
                lab = ib if j is None else ib.f(j)
                return sink.col0("mdot_kg_per_s")(lab) * sink.col0("scaling")(lab) * (hhv * 3600 / 1000) * eta
            check_written(ctx, "g2p/" + mode + tag, paths, mode,
                          lambda w, _e=etype: w.items["nets"]["power"].items[_e], "p_mw", ia, n, exp,
                          ["scaling"], [("gas.sink", lambda w: w.items["nets"]["gas"].items["sink"]),
                                        ("power." + other, lambda w, _o=other: w.items["nets"]["power"].items[_o])],
                          [hhv > 0])


def _g2g(ctx, mode):
    ctx.assume("A1", "A4", "A6")
    ia, ib, n = indices(mode)
    eta, h1, h2 = z3.Real("efficiency"), z3.Real("hhv1"), z3.Real("hhv2")
    attrs = lambda: {"element_index_from": ia, "element_index_to": ib, "name_net_from": "gas",
                     "name_net_to": "gas2", "efficiency": eta, "gas1_calorific_value": h1,
                     "gas2_calorific_value": h2, "applied": False}
    mkw = lambda: world({}, {"sink": ["mdot_kg_per_s", "scaling"]}, {"source": ["mdot_kg_per_s", "scaling"]})
    paths = run_step(ctx, "GasToGasConversion", attrs, mkw)
    w0 = mkw()
    sink = w0.items["nets"]["gas"].items["sink"]

    def exp(j):
        lab = ia if j is None else ia.f(j)
        return sink.col0("mdot_kg_per_s")(lab) * sink.col0("scaling")(lab) * (h1 / h2) * eta
    check_written(ctx, "g2g/" + mode, paths, mode,
                  lambda w: w.items["nets"]["gas2"].items["source"], "mdot_kg_per_s", ib, n, exp,
                  ["scaling"], [("gas.sink", lambda w: w.items["nets"]["gas"].items["sink"])],
                  [h1 > 0, h2 > 0])


for _mode in ("scalar", "array"):
    def _mk(mode=_mode):
        @unit("C20", "P2G/" + mode, functions=[MC + ":P2GControlMultiEnergy.control_step",
                                               MC + ":P2GControlMultiEnergy.write_to_net"], engine="E1")
        def _a(ctx):
            _p2g(ctx, mode)

        @unit("C20", "G2P/" + mode, functions=[MC + ":G2PControlMultiEnergy.control_step",
                                               MC + ":G2PControlMultiEnergy.write_to_net"], engine="E1")
        def _b(ctx):
            _g2p(ctx, mode, False)

        @unit("C20", "G2P-power-led/" + mode, functions=[MC + ":G2PControlMultiEnergy.control_step"], engine="E1")
        def _c(ctx):
            _g2p(ctx, mode, True)

        @unit("C20", "G2G/" + mode, functions=[MC + ":GasToGasConversion.control_step",
                                               MC + ":GasToGasConversion.write_to_net"], engine="E1")
        def _d(ctx):
            _g2g(ctx, mode)
    _mk()


@unit("C20", "conversion_factors", functions=[MC + ":P2GControlMultiEnergy.conversion_factor_mw_to_kgps",
                                              MC + ":G2PControlMultiEnergy.conversion_factor_kgps_to_mw",
                                              MC + ":GasToGasConversion.conversion_factor_gas1_to_gas2"], engine="E1")
def conversion_factors(ctx):
    ctx.assume("A1", "A6")
    hhv, h1, h2 = z3.Reals("hhv hhv1 hhv2")
    e1 = E.Evaluator()
    p1 = e1.run_all(S.get_function(MC + ":P2GControlMultiEnergy.conversion_factor_mw_to_kgps"),
                    lambda: ([E.Obj("c", {"fluid_calorific_value": hhv})], {}))
    p2 = e1.run_all(S.get_function(MC + ":G2PControlMultiEnergy.conversion_factor_kgps_to_mw"),
                    lambda: ([E.Obj("c", {"fluid_calorific_value": hhv})], {}))
    p3 = e1.run_all(S.get_function(MC + ":GasToGasConversion.conversion_factor_gas1_to_gas2"),
                    lambda: ([E.Obj("c", {"gas1_calorific_value": h1, "gas2_calorific_value": h2})], {}))
    p4 = e1.run_all(S.get_function(MC + ":GasToGasConversion.conversion_factor_gas1_to_gas2"),
                    lambda: ([E.Obj("c", {"gas1_calorific_value": h2, "gas2_calorific_value": h1})], {}))
    a, b, c, d = [R(p[0].result) for p in (p1, p2, p3, p4)]
    ctx.ob("mw_to_kgps", "ensures", [hhv > 0], a == 1000 / (hhv * 3600))
    ctx.ob("kgps_to_mw", "ensures", [hhv > 0], b == hhv * 3600 / 1000)
    ctx.ob("inverse/p2g-g2p", "lemma", [hhv > 0], a * b == 1)
    ctx.ob("inverse/g2g", "lemma", [h1 > 0, h2 > 0], c * d == 1)
    # round trip: converting there and back returns the product of the efficiencies
    x, eta1, eta2 = z3.Reals("x eta1 eta2")
    ctx.ob("round-trip/power-gas-power", "lemma", [hhv > 0], ((x * a * eta1) * b * eta2) == x * eta1 * eta2)
    ctx.ob("round-trip/gas-gas", "lemma", [h1 > 0, h2 > 0], ((x * c * eta1) * d * eta2) == x * eta1 * eta2)


@unit("C20", "evaluate_multinet", functions=[RC + ":_evaluate_multinet", RC + ":net_initialization_multinet"],
      engine="E1")
def evaluate_multinet(ctx):
    """the multinet is reported converged iff every member net is"""
    ctx.assume("A4", "A6")
    # (the three text-matching obligations of the first session -- loop header, list append, `np.all(<name>)` -- were removed:
    #  they raised alarms on renamed locals; what they stood for is decided on VALUES by the unit evaluate_multinet_levels:
    #  `reports-conjunction-of-current-flags`, `reruns-exactly-the-affected-nets`, `flag-of-<net>-is-the-rerun-result`)
    ctx.use_function(S.get_function(RC + ":_evaluate_multinet"))
    # np.all over booleans is the conjunction (model) -- for 1..4 nets
    bs = [z3.Bool("conv_%d" % i) for i in range(4)]
    from pvc import npmodel
    for k in range(1, 5):
        r = npmodel.call(None, "all", [bs[:k]], {}, 0, None)
        ctx.ob("np.all-is-conjunction/%d" % k, "lemma", [], B(r) == z3.And(*bs[:k]))


# ---------------------------------------------------------------------------------------------
# _evaluate_multinet evaluated from the source over two consecutive levels (history of calls)

class _LevelOrder:
    """stands for np.array(levelorder): only passed around and indexed"""

    def __init__(self, tag):
        self.tag = tag

    def getitem(self, ev, idx, lineno):
        return _LevelOrder((self.tag, "sel"))


@unit("C20", "evaluate_multinet_levels", functions=[RC + ":_evaluate_multinet"], engine="E1")
def evaluate_multinet_levels(ctx):
    """Each call (= one controller level) must determine the affected nets from THAT level's
    controllers, re-run exactly those, and report the conjunction of the flags the nets have
    AFTER the re-run."""
    ctx.assume("A4", "A6")
    names = ["net_a", "net_b", "net_c"]
    rel_calls, eval_calls = [], []
    fresh_flags = {}

    def c_relevant(ev, args, kwargs):
        lo = args[1]
        rel_calls.append(getattr(lo, "tag", lo))
        lvl = getattr(lo, "tag", None)
        # level 1 touches net_a and net_b, level 2 touches net_c only
        return {"net_a": lvl == "L1", "net_b": lvl == "L1", "net_c": lvl == "L2"}

    class EvalNet:
        def call(self, ev, args, kwargs, lineno):
            net = args[0]
            nm = net.name
            k = (nm, len([c for c in eval_calls if c[0] == nm]))
            eval_calls.append((nm, getattr(args[1], "tag", None)))
            b = z3.Bool("converged_%s_run%d" % k)
            fresh_flags[k] = b
            return {"converged": b}

    def np_array_hook(module, name):
        if name == "_evaluate_net":
            return EvalNet()
        return None
    nets = {nm: K.NetObj({}, name=nm) for nm in names}
    multinet = K.NetObj({"nets": nets})
    ctrl = {"nets": {nm: {"converged": z3.Bool("converged_%s_before" % nm)} for nm in names}}
    e = E.Evaluator(contracts={RC + ":_relevant_nets": c_relevant}, hooks={"global": np_array_hook})
    fref = S.get_function(RC + ":_evaluate_multinet")
    ctx.use_function(fref)
    results = []
    for lvl in ("L1", "L2"):
        paths = e.run_all(fref, lambda: ([multinet, _LevelOrder(lvl), ctrl], {}))
        ok = len(paths) == 1 and paths[0].exc is None
        ctx.decided("level-%s/single-path" % lvl, "cover", ok, witness=str([str(p.exc) for p in paths]))
        if not ok:
            return
        results.append(paths[0].result)
        want_rel = {"L1": ["net_a", "net_b"], "L2": ["net_c"]}[lvl]
        ran = [nm for nm, _ in eval_calls]
        del eval_calls[:]
        ctx.decided("level-%s/affected-nets-from-this-level" % lvl, "ensures",
                    rel_calls[-1:] == [lvl], witness="_relevant_nets consulted with %s" % rel_calls)
        ctx.decided("level-%s/reruns-exactly-the-affected-nets" % lvl, "ensures", sorted(ran) == want_rel,
                    witness="re-ran %s, affected %s" % (sorted(ran), want_rel))
        cur = {nm: ctrl["nets"][nm]["converged"] for nm in names}
        res = paths[0].result
        ctx.ob("level-%s/reports-conjunction-of-current-flags" % lvl, "ensures", [],
               B(res["converged"]) == z3.And(*[B(cur[nm]) for nm in names]))
        for nm in want_rel:
            last = [b for (n2, _), b in fresh_flags.items() if n2 == nm][-1:]
            ctx.decided("level-%s/flag-of-%s-is-the-rerun-result" % (lvl, nm), "ensures",
                        bool(last) and is_z3(cur[nm]) and cur[nm].eq(last[0]),
                        witness="flag %s" % cur[nm])
