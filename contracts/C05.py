"""C05 -- a returned result is converged and finite; a failed run leaves no results.

Engine E1 with IEEE float64 terms (assumption A2) for every comparison of the Newton driver.
The iteration loop of `newton_raphson` is handled by the rule "the final state is either the
entry state (zero iterations) or the state after one body execution from a havocked state that
satisfies the loop condition": sound for postconditions that only constrain values computed in
the last iteration, which is exactly what the property states.  The stage functions
(`hydraulics`, `heat_transfer`, `bidirectional`) are evaluated from the real source with
`newton_raphson` and `finalize_iteration` inlined and the linear-solve functions replaced by
their shape contracts (proved separately from their return statements)."""
import ast
import z3

from pvc.harness import unit
from pvc import src as S, kern as K, ev as E, twin as T
from pvc.val import *  # noqa
from pvc import val as V
from pvc.symlist import SymList, fp_arr
from pvc import classes

PF = "pandapipes.pipeflow"
PS = "pandapipes.pf.pipeflow_setup"
RX = "pandapipes.pf.result_extraction"
BR = "pandapipes.idx_branch"
ND = "pandapipes.idx_node"

NCB = K.const(BR, "branch_cols")
NCN = K.const(ND, "node_cols")

# unknowns of each stage and the tolerance option that applies to them (from the options
# documentation: tol_m mass flow, tol_p pressure, tol_T temperature)
STAGE_UNKNOWNS = {
    "hydraulics": [("mdot", "tol_m"), ("p", "tol_p"), ("mdotslack", "tol_m")],
    "heat_transfer": [("Tout", "tol_T"), ("T", "tol_T")],
    "bidirectional": [("mdot", "tol_m"), ("p", "tol_p"), ("mdotslack", "tol_m"), ("Tout", "tol_T"),
                      ("T", "tol_T")],
}
STAGE_FUNCT = {"hydraulics": "solve_hydraulics", "heat_transfer": "solve_temperature",
               "bidirectional": "solve_bidirectional"}
UNKNOWN_COLUMN = {"mdot": ("branch", "MDOTINIT"), "p": ("node", "PINIT"),
                  "mdotslack": ("node", "MDOTSLACKINIT"), "Tout": ("branch", "TOUTINIT"),
                  "T": ("node", "TINIT")}


def fp(name):
    return z3.FP(name, V.FP64)


def finite(x):
    return z3.Not(z3.Or(z3.fpIsNaN(x), z3.fpIsInf(x)))


def while_line(key):
    f = S.get_function(key)
    for n in ast.walk(f.node):
        if isinstance(n, ast.While):
            return n.lineno
    raise S.SourceError("no while loop in %s" % key)


def make_net(method, extra_opts=None):
    opts = {"alpha": fp("alpha0"), "nonlinear_method": method, "tol_res": fp("tol_res"),
            "tol_m": fp("tol_m"), "tol_p": fp("tol_p"), "tol_T": fp("tol_T"),
            "max_iter_hyd": z3.Int("max_iter_hyd"), "max_iter_therm": z3.Int("max_iter_therm"),
            "max_iter_bidirect": z3.Int("max_iter_bidirect"),
            "reuse_internal_data": z3.Bool("reuse_internal_data"), "use_numba": True}
    opts.update(extra_opts or {})
    nb, nn = z3.Int("NBa"), z3.Int("NNa")
    net = K.NetObj({
        "_options": opts, "converged": z3.Bool("converged_at_entry"),
        "_active_pit": {"branch": K.sym_pit("active_branch_pit", nb, NCB),
                        "node": K.sym_pit("active_node_pit", nn, NCN)},
        "user_pf_options": {}, "fluid": E.Obj("fluid", {"is_gas": False, "name": "water"}),
        "component_list": [],
    })
    return net


# ---------------------------------------------------------------------------------------------
# shape contracts of the linear-solve functions (from their return statements)

def return_shapes(key):
    """[(number of result arrays, number of filter entries, names of the result expressions)]"""
    f = S.get_function(key)
    out = []
    for n in ast.walk(f.node):
        if isinstance(n, ast.Return) and n.value is not None:
            v = n.value
            if not (isinstance(v, ast.Tuple) and len(v.elts) == 3 and isinstance(v.elts[0], ast.List)):
                out.append((None, None, ast.unparse(v)[:80]))
                continue
            filt = v.elts[2]
            nf = None
            if isinstance(filt, ast.List):
                nf = len(filt.elts)
            elif isinstance(filt, ast.Name):
                # resolve a single assignment `filtered = [..]` in the function
                for m in ast.walk(f.node):
                    if isinstance(m, ast.Assign) and isinstance(m.targets[0], ast.Name) and \
                            m.targets[0].id == filt.id and isinstance(m.value, ast.List):
                        nf = len(m.value.elts)
            out.append((len(v.elts[0].elts), nf, [ast.unparse(e) for e in v.elts[0].elts]))
    return out


@unit("C05", "shape", functions=[PF + ":solve_hydraulics", PF + ":solve_temperature",
                                 PF + ":solve_bidirectional"], engine="E1")
def shapes(ctx):
    ctx.assume("A6")
    for fn, stage in (("solve_hydraulics", "hydraulics"), ("solve_temperature", "heat_transfer")):
        sh = return_shapes(PF + ":" + fn)
        ctx.decided("%s/has-returns" % fn, "cover", len(sh) >= 1, witness="no return statement")
        nun = len(STAGE_UNKNOWNS[stage])
        for k, (nres, nf, names) in enumerate(sh):
            ctx.decided("%s/return#%d/pairs" % (fn, k), "ensures", nres == 2 * nun,
                        witness="returns %s result arrays for %d unknowns (%s)" % (nres, nun, names))
            ctx.decided("%s/return#%d/filters" % (fn, k), "ensures", nf == nun,
                        witness="returns %s filter entries for %d unknowns" % (nf, nun))
    # the "old" member of every (new, old) pair is a SNAPSHOT of the unknown taken before the Newton update: its
    # defining expression must create a fresh array (A4 alias rules: `.copy()`, or a read through an index ARRAY;
    # a basic slice `pit[:, COL]` is a view that would follow the update and make the measured step 0), it must be the
    # same location as the "new" member, and the assignment must precede every in-place update of that location
    for fn in ("solve_hydraulics", "solve_temperature"):
        f = S.get_function(PF + ":" + fn)
        ctx.use_function(f)
        body = f.node
        assigns = {}
        for st in ast.walk(body):
            if isinstance(st, ast.Assign) and len(st.targets) == 1 and isinstance(st.targets[0], ast.Name):
                assigns.setdefault(st.targets[0].id, []).append(st)
        updates = [st for st in ast.walk(body) if isinstance(st, ast.AugAssign) and isinstance(st.target, ast.Subscript)]
        for k, ret in enumerate([n for n in ast.walk(body) if isinstance(n, ast.Return) and n.value is not None
                                 and isinstance(n.value, ast.Tuple) and isinstance(n.value.elts[0], ast.List)]):
            elts = ret.value.elts[0].elts
            for j in range(0, len(elts) - 1, 2):
                new_e, old_e = elts[j], elts[j + 1]
                label = "%s/return#%d/pair%d" % (fn, k, j // 2)
                if not isinstance(old_e, ast.Name) or len(assigns.get(old_e.id, [])) != 1:
                    ctx.decided(label + "/old-is-a-snapshot", "ensures", False,
                                witness="old value %s is not a singly assigned local" % ast.unparse(old_e))
                    continue
                st = assigns[old_e.id][0]
                rhs = st.value
                is_copy = isinstance(rhs, ast.Call) and isinstance(rhs.func, ast.Attribute) and rhs.func.attr == "copy" \
                    and not rhs.args
                src = rhs.func.value if is_copy else rhs
                fancy = isinstance(src, ast.Subscript) and isinstance(src.slice, ast.Tuple) and \
                    not isinstance(src.slice.elts[0], ast.Slice)
                ctx.decided(label + "/old-is-a-snapshot", "ensures", is_copy or fancy,
                            witness="%s = %s is a view of the array that is updated in place afterwards (no copy): the measured "
                                    "change new - old is identically 0" % (old_e.id, ast.unparse(rhs)))
                ctx.decided(label + "/old-and-new-are-the-same-location", "ensures", ast.unparse(src) == ast.unparse(new_e),
                            witness="new: %s, old taken from: %s" % (ast.unparse(new_e), ast.unparse(src)))
                later = [u for u in updates if ast.unparse(u.target) == ast.unparse(new_e)]
                ctx.decided(label + "/snapshot-precedes-the-update", "order",
                            all(st.lineno < u.lineno for u in later) and (len(later) >= 1),
                            witness="snapshot at line %d, in-place updates of %s at lines %s" %
                                    (st.lineno, ast.unparse(new_e), [u.lineno for u in later]))
    # solve_bidirectional: evaluated with the two shape contracts applied
    log = []

    def c_hyd(ev, args, kwargs):
        return ([fp_arr("h%d" % i, z3.Int("nh%d" % (i // 2))) for i in range(6)],
                fp_arr("res_h", z3.Int("nrh")), [None, None, K.sym_arr("slack_nodes", z3.Int("ns"), "i")])

    def c_heat(ev, args, kwargs):
        return ([fp_arr("t%d" % i, z3.Int("nt%d" % (i // 2))) for i in range(4)],
                fp_arr("res_t", z3.Int("nrt")), [None, None])

    def noop(ev, args, kwargs):
        return None
    cs = {PF + ":solve_hydraulics": c_hyd, PF + ":solve_temperature": c_heat,
          PS + ":reduce_pit": noop, RX + ":extract_results_active_pit": noop,
          PS + ":identify_active_nodes_branches": noop}

    def glob(module, name):
        if name == "np":
            return None
        return None
    paths = T.run_paths(ctx, PF + ":solve_bidirectional", lambda: ([make_net("constant")], {}),
                        contracts=cs, hooks={"np.concatenate": True})
    nun = len(STAGE_UNKNOWNS["bidirectional"])
    for k, p in enumerate(paths):
        if p.exc is not None:
            ctx.decided("solve_bidirectional/path#%d" % k, "ensures", False, witness="raises %s" % p.exc)
            continue
        res, resid, filt = p.result
        ctx.decided("solve_bidirectional/path#%d/pairs" % k, "ensures", len(res) == 2 * nun,
                    witness="%d result arrays for %d unknowns" % (len(res), nun))
        ctx.decided("solve_bidirectional/path#%d/filters" % k, "ensures", len(filt) == nun,
                    witness="%d filter entries for %d unknowns" % (len(filt), nun))


# ---------------------------------------------------------------------------------------------
# stage functions with newton_raphson + finalize_iteration inlined

class FunctModel:
    """shape contract of the stage's linear-solve function: a list of (new, old) float64 arrays per
    unknown, a residual array (non-empty), the filter list.  All values are unconstrained."""

    def __init__(self, stage):
        self.stage = stage
        self.calls = 0
        un = STAGE_UNKNOWNS[stage]
        self.arrays = []
        for k, (nm, tol) in enumerate(un):
            n = z3.Int("len_%s" % nm)
            self.arrays.append((fp_arr("new_%s" % nm, n), fp_arr("old_%s" % nm, n), n))
        self.residual = fp_arr("residual", z3.Int("len_residual"))

    def results(self):
        out = []
        for new, old, n in self.arrays:
            out.extend([new, old])
        return out

    def __call__(self, ev, args, kwargs):
        self.calls += 1
        filt = [None] * len(self.arrays)
        for k, (nm, _) in enumerate(STAGE_UNKNOWNS[self.stage]):
            if nm == "mdotslack":
                filt[k] = K.sym_arr("slack_nodes", self.arrays[k][2], "i")
        return self.results(), self.residual, filt


def loop_hook(record):
    def hook(ev, st, env):
        """while not net.converged and niter < max_iter: body
        final state = entry state (no iteration)  or  havoc; assume cond; body"""
        c0 = ev.eval_cond(st.test, env)
        record["entry_cond"] = c0
        zero = z3.Bool("zero_iterations")
        if ev.decide(zero, st.lineno):
            # the loop condition is false at entry
            ev.path.conds.append(bnot(c0) if not isinstance(c0, bool) else z3.BoolVal(not c0))
            record.setdefault("paths", []).append("zero")
            return
        # havoc everything the loop modifies
        n = z3.Int("niter_last")
        env.set("niter", n)
        # loop invariant niter >= 0 (initially 0, only incremented), assumed for the havocked state
        ev.path.facts.append(n >= 0)
        errors = env.get("errors")
        for var in list(errors.keys()):
            errors[var] = SymList("errors_%s" % var, n)
        env.set("residual_norm", fp("residual_norm_prev"))
        net = env.get("net")
        net.items["converged"] = False
        net.items["_options"]["alpha"] = fp("alpha_prev")
        c = ev.eval_cond(st.test, env)
        ev.path.conds.append(B(c) if not isinstance(c, bool) else z3.BoolVal(c))
        ev.exec_block(st.body, env)
        record.setdefault("paths", []).append("body")
    return hook


def good(net, fm, stage, method):
    """the acceptance condition of the property statement for the last iteration, at an arbitrary
    element index of every unknown and of the residual"""
    o = net.items["_options"]
    cl = []
    for (nm, tolname), (new, old, n) in zip(STAGE_UNKNOWNS[stage], fm.arrays):
        j = z3.Int("elem_%s" % nm)
        d = z3.fpAbs(z3.fpSub(V.RNE, new.f(j), old.f(j)))
        cl.append(z3.Implies(z3.And(j >= 0, j < n),
                             z3.And(z3.Not(z3.fpIsNaN(d)), z3.fpLEQ(d, o[tolname]))))
    k = z3.Int("elem_residual")
    r = fm.residual
    cl.append(z3.Implies(z3.And(k >= 0, k < r.n),
                         z3.And(z3.Not(z3.fpIsNaN(r.f(k))), z3.fpLEQ(z3.fpAbs(r.f(k)), o["tol_res"]))))
    return cl


def stage_contracts(stage, fm, log):
    def noop(name):
        def f(ev, args, kwargs):
            log.append(name)
            return None
        return f

    def c_rerun(name):
        def f(ev, args, kwargs):
            # partial-correctness contract of the (mutually recursive) rerun: returns normally with
            # net.converged, or raises PipeflowNotConverged with net.converged False
            net = args[0]
            log.append(name)
            # ... and in both cases has dropped the cached matrix structure unless reuse_internal_data is set
            # (the clause proved for every exit of the stage in C12/cache_dropped_on_every_exit)
            reuse = net.items["_options"].get("reuse_internal_data")
            if "_internal_data" in net.items and reuse is not True and not (is_z3(reuse) and ev.decide(reuse)):
                net.items.pop("_internal_data", None)
            if ev.decide(z3.Bool("rerun_raises")):
                net.items["converged"] = False
                raise E._Raise(E.ExcVal("PipeflowNotConverged"))
            return None
        return f
    cs = {
        PS + ":reduce_pit": noop("reduce_pit"),
        RX + ":extract_results_active_pit": noop("extract_results_active_pit"),
        PS + ":identify_active_nodes_branches": noop("identify_active_nodes_branches"),
        PF + ":rerun_hydraulics": c_rerun("rerun_hydraulics"),
        PF + ":rerun_heat_transfer": c_rerun("rerun_heat_transfer"),
        PF + ":" + STAGE_FUNCT[stage]: fm,
    }
    return cs


def _stage(ctx, stage, method, part):
    """part selects the clauses discharged by this unit (the path enumeration is cheap and is
    repeated per unit so that the solver work spreads over the process pool)"""
    ctx.assume("A2", "A4", "A6")
    key = PF + ":" + {"hydraulics": "hydraulics", "heat_transfer": "heat_transfer",
                      "bidirectional": "bidirectional"}[stage]
    fm = FunctModel(stage)
    log = []
    record = {}
    wl = while_line(PF + ":newton_raphson")
    hooks = {("while", wl): loop_hook(record)}
    cs = stage_contracts(stage, fm, log)
    paths = T.run_paths(ctx, key, lambda: ([make_net(method)], {}), contracts=cs, hooks=hooks,
                        max_paths=4096, guarded_ifs=True)
    for k in (PF + ":newton_raphson", PF + ":finalize_iteration", PF + ":set_damping_factor"):
        ctx.use_function(S.get_function(k))
    normal = [p for p in paths if p.exc is None]
    raising = [p for p in paths if p.exc is not None]
    ctx.notes.append("%s/%s: %d paths (%d normal, %d raising)" % (stage, method, len(paths),
                                                                 len(normal), len(raising)))
    if part == "exits":
        ctx.decided("cover/returns", "cover", len(normal) >= 1, witness="no normally returning path")
        ctx.decided("cover/raises", "cover", len(raising) >= 1, witness="no raising path")
        ctx.decided("cover/funct-called", "cover", fm.calls >= 1, witness="stage function never called")
    base = [finite(fp("tol_m")), finite(fp("tol_p")), finite(fp("tol_T")), finite(fp("tol_res")),
            z3.Int("len_residual") >= 1]
    # every unknown the stage function returns has a tolerance (otherwise it is never tested)
    # -- covered by: converged ==> Good over ALL unknowns of the stage
    for kx, p in enumerate(normal):
        net = p.args[0][0]
        conv = net.items["converged"]
        a = base + [p.cond()] + p.facts
        if part == "exits":
            ctx.ob("returns/converged#%d" % kx, "ensures", a, B(conv) if not isinstance(conv, bool)
                   else z3.BoolVal(conv))
        for gi, g in enumerate(good(net, fm, stage, method)):
            nm = (STAGE_UNKNOWNS[stage] + [("residual", "tol_res")])[gi][0]
            if part != "tol:" + nm:
                continue
            ctx.ob("returns/within-tolerance[%s]#%d" % (nm, kx), "ensures", a, g,
                   replay=lambda m, _nm=nm: {
                       "handler": "driver_stage",
                       "input": {"stage": stage, "method": method, "unknown": _nm,
                                 "unknowns": [u for u, _ in STAGE_UNKNOWNS[stage]]},
                       "expected": "the stage must not return normally while %s changes by more "
                                   "than its tolerance in the last iteration" % _nm})
        if method == "automatic" and part == "exits":
            ctx.ob("returns/undamped#%d" % kx, "ensures", a,
                   z3.fpEQ(V.to_fp(net.items["_options"]["alpha"]), z3.FPVal(1.0, V.FP64)))
    for kx, p in enumerate(raising if part == "exits" else []):
        net = p.args[0][0]
        conv = net.items["converged"]
        ctx.decided("raises/class#%d" % kx, "ensures", p.exc.cls == "PipeflowNotConverged",
                    witness="raises %s" % p.exc.cls)
        ctx.ob("raises/not-converged#%d" % kx, "ensures", base + [p.cond()] + p.facts,
               z3.Not(B(conv)) if not isinstance(conv, bool) else z3.BoolVal(not conv))
    if part == "safety":
        ctx.check_safety(paths, base, "stage", kinds=("index",))


for _st in ("hydraulics", "heat_transfer", "bidirectional"):
    for _m in ("constant", "automatic"):
        for _part in ["exits", "safety"] + ["tol:" + u for u, _ in STAGE_UNKNOWNS[_st]] + ["tol:residual"]:
            def _mk(st=_st, m=_m, part=_part):
                @unit("C05", "stage/%s/%s/%s" % (st, m, part.replace(":", "-")),
                      functions=[PF + ":" + st], engine="E1")
                def _u(ctx):
                    _stage(ctx, st, m, part)
            _mk()


# ---------------------------------------------------------------------------------------------
# pipeflow(): ordering of result writers and exits

STAGES_OF_MODE = {"hydraulics": ["hydraulics"], "heat": ["heat_transfer"],
                  "sequential": ["hydraulics", "heat_transfer"], "bidirectional": ["bidirectional"]}


def _pipeflow_unit(ctx, mode):
    ctx.assume("A6")
    cur = []       # effect log of the run in progress (reset by make_args)

    def eff(name, raises=None, sets_conv=False):
        def f(ev, args, kwargs):
            net = args[0]
            cur.append(name)
            if raises is not None and ev.decide(z3.Bool("%s_raises" % name)):
                if sets_conv:
                    net.items["converged"] = False
                cur.append(name + ":raised")
                raise E._Raise(E.ExcVal(raises))
            if sets_conv:
                net.items["converged"] = True
            return None
        return f

    def c_init_options(ev, args, kwargs):
        cur.append("init_options")
        args[0].items["_options"] = {"mode": mode}
        return None
    cs = {
        PS + ":init_options": c_init_options,
        PS + ":init_all_result_tables": eff("init_all_result_tables"),
        PS + ":create_lookups": eff("create_lookups"),
        PS + ":initialize_pit": eff("initialize_pit"),
        PS + ":identify_active_nodes_branches": eff("identify_active_nodes_branches",
                                                    raises="PipeflowNotConverged"),
        PF + ":use_given_hydraulic_results": eff("use_given_hydraulic_results", raises="UserWarning"),
        PF + ":hydraulics": eff("hydraulics", raises="PipeflowNotConverged", sets_conv=True),
        PF + ":heat_transfer": eff("heat_transfer", raises="PipeflowNotConverged", sets_conv=True),
        PF + ":bidirectional": eff("bidirectional", raises="PipeflowNotConverged", sets_conv=True),
        RX + ":extract_all_results": eff("extract_all_results"),
    }
    fref = S.get_function(PF + ":pipeflow")
    ctx.use_function(fref)
    e = E.Evaluator(contracts=cs)
    collected = []

    def mk():
        # called at the start of every run: archive the log of the previous run
        if cur or collected:
            collected.append(list(cur))
        del cur[:]
        net = K.NetObj({"converged": z3.Bool("converged_from_previous_run"), "user_pf_options": {}})
        return [net, None], {}
    paths = e.run_all(fref, mk)
    collected.append(list(cur))
    logs = collected[-len(paths):]
    ctx.decided("cover/paths", "cover", len(paths) >= 2, witness="%d paths" % len(paths))
    known_mode = mode in STAGES_OF_MODE
    for kx, (p, lg) in enumerate(zip(paths, logs)):
        net = p.args[0][0]
        conv = net.items.get("converged")
        tag = "%s#%d" % ("raise" if p.exc is not None else "return", kx)
        if p.exc is None:
            ctx.decided("%s/converged" % tag, "ensures", conv is True,
                        witness="returns normally with net.converged = %r (effects %s)" % (conv, lg))
            want = STAGES_OF_MODE.get(mode, [])
            ran = [x for x in lg if x in ("hydraulics", "heat_transfer", "bidirectional")]
            ctx.decided("%s/stages" % tag, "ensures", known_mode and ran == want,
                        witness="mode %s ran stages %s, expected %s" % (mode, ran, want))
            ctx.decided("%s/results-extracted-last" % tag, "order", lg and lg[-1] == "extract_all_results",
                        witness="effects %s" % lg)
        else:
            ctx.decided("%s/not-converged" % tag, "ensures", conv is False,
                        witness="raises %s with net.converged = %r (effects %s)" % (p.exc.cls, conv, lg))
            ctx.decided("%s/no-results-written" % tag, "order",
                        "extract_all_results" not in lg,
                        witness="raises %s after extract_all_results (effects %s)" % (p.exc.cls, lg))
            ctx.decided("%s/tables-reset-first" % tag, "order",
                        "init_all_result_tables" in lg and
                        lg.index("init_all_result_tables") < min([lg.index(x) for x in lg if x.endswith(":raised")] or [10 ** 6]),
                        witness="result tables are not re-initialised before the failing stage (effects %s)" % lg)
            if mode in STAGES_OF_MODE:
                ok_cls = p.exc.cls in ("PipeflowNotConverged", "UserWarning")
                ctx.decided("%s/class" % tag, "ensures", ok_cls, witness="raises %s" % p.exc.cls)
    if not known_mode:
        ctx.decided("unknown-mode-raises", "ensures", all(p.exc is not None for p in paths),
                    witness="an unknown mode returns normally")


for _mode in ("hydraulics", "heat", "sequential", "bidirectional", "some_other_mode"):
    def _mkp(mode=_mode):
        @unit("C05", "pipeflow/%s" % mode, functions=[PF + ":pipeflow"], engine="E1")
        def _u(ctx):
            _pipeflow_unit(ctx, mode)
    _mkp()


# ---------------------------------------------------------------------------------------------
# result tables: initialised to NaN; extract_results of the components does not raise

CTB = "pandapipes.component_models.component_toolbox"
BASE = "pandapipes.component_models.abstract_models.base_component"


@unit("C05", "result_tables", functions=[CTB + ":init_results_element", BASE + ":Component.init_results",
                                         PS + ":init_all_result_tables"], engine="E4")
def result_tables(ctx):
    f = S.get_function(CTB + ":init_results_element")
    # every assignment to net[res_element] that survives to the end of each branch builds a frame
    # filled with np.nan over the element table's index
    finals = []
    for st in ast.walk(f.node):
        if isinstance(st, ast.If):
            for arm in (st.body, st.orelse):
                last = None
                for s2 in arm:
                    if isinstance(s2, ast.Assign) and isinstance(s2.targets[0], ast.Subscript) and \
                            ast.unparse(s2.targets[0].value) == "net":
                        last = s2
                if last is not None:
                    finals.append(last)
    ctx.decided("init_results_element/two-arms", "cover", len(finals) == 2,
                witness="%d final assignments found" % len(finals))
    for k, st in enumerate(finals):
        call = st.value
        ok = isinstance(call, ast.Call) and ast.unparse(call.func) in ("pd.DataFrame", "DataFrame") \
            and call.args and ast.unparse(call.args[0]) == "np.nan" \
            and any(kw.arg == "index" and ast.unparse(kw.value) == "net[element].index" for kw in call.keywords)
        ctx.decided("init_results_element/arm#%d/all-nan-over-element-index" % k, "ensures", ok,
                    witness=ast.unparse(st)[:160])
    # init_results is not overridden: every component uses Component.init_results
    comps = classes.all_component_classes()
    ctx.decided("components/found", "cover", len(comps) >= 15, witness="%d component classes" % len(comps))
    for c in comps:
        fr = classes.lookup_method(c, "init_results")
        ctx.decided("init_results/%s" % c.name, "subtype", fr is not None and fr.key == BASE + ":Component.init_results",
                    witness="init_results of %s resolves to %s" % (c.name, fr.key if fr else None))
    g = S.get_function(PS + ":init_all_result_tables")
    src = ast.unparse(g.node)
    ctx.structural("init_all_result_tables/all-components", "ensures",
                "for comp in net['component_list']" in src and "comp.init_results(net)" in src,
                witness=src[-200:])
    # extract_results of every component must not raise after convergence
    for c in comps:
        fr = classes.lookup_method(c, "extract_results")
        if fr is None:
            continue
        raises = [n for n in ast.walk(fr.node) if isinstance(n, ast.Raise)]
        nie = [n for n in raises if n.exc is not None and "NotImplementedError" in ast.unparse(n.exc)]
        real = [n for n in raises if n not in nie]
        ctx.decided("extract_results-no-raise/%s" % c.name, "ensures", not real,
                    witness="%s raises at line %s: %s" % (fr.key, [n.lineno for n in real],
                                                          [ast.unparse(n)[:100] for n in real]),
                    replay={"handler": "circ_pump_direction", "input": {}} if real else None)


# ---------------------------------------------------------------------------------------------
# the friction-factor iteration: non-convergence is reported as PipeflowNotConverged, and the external root finder is never
# called outside its domain (an empty selection makes scipy raise ValueError out of pipeflow -- finding F34); shared with C02

for _g14 in (False, True):
    def _mk_cb(g=_g14):
        @unit("C05", "colebrook/%s" % ("gas" if g else "liquid"), functions=["pandapipes.pf.derivative_calculation:calc_lambda",
                                                                              "pandapipes.pf.derivative_calculation:colebrook_white"], engine="E2")
        def _u(ctx):
            from contracts.C02 import _lambda_unit
            _lambda_unit(ctx, g, "colebrook", False)
    _mk_cb()
