"""C01 -- mass is conserved at every supplied junction and over the whole network.

Engine E3 on the real `build_system_matrix` (hydraulic mode): the function is evaluated symbolically
for arbitrary pit lengths; the COO arrays it hands to scipy are decomposed along the store log of
the evaluator (segments) and matched, layout-free, against the *families* of matrix entries the
mass balance needs:

  tiling   the segments of rows / cols / data start at 0, meet, end at the allocated length, and each
           right-hand side has the length of its slice
  pairing  rows, cols and data of one segment select the same elements
  family   for an arbitrary element of a segment, (row, col, value) are the spec family's functions,
           and the segment's domain is the family's domain; every family is matched by exactly one
           segment

The load vector is checked row by row against  -LOAD - sum_from m + sum_to m  (node rows), 0 (slack
and pressure-controller rows), the branch residual (branch rows) and the slack mass rows.  With
`df_dm_nodes = 1` and `load_vec_nodes_* = m` (C02 stage contract) and spsolve exact (A4), lemma L1
gives: after a full Newton step the reported mass flows balance at every non-slack node, and the
slack mass flow equals the remaining balance."""
import z3

from pvc.harness import unit
from pvc import src as S, kern as K, twin as T, ev as E, solve
from pvc.val import *  # noqa
from pvc import val as V

# property-level native oracle used as the replay of refuted obligations that carry no model-specific replay
FALLBACK_REPLAY = {"handler": "bounded", "input": {"what": "mass_balance"},
                   "expected": "reported mass flows balance at every supplied junction and over the network (1e-7 kg/s)"}

BSM = "pandapipes.pf.build_system_matrix"
IT = "pandapipes.pf.internals_toolbox"
BR = "pandapipes.idx_branch"
ND = "pandapipes.idx_node"
NCB = K.const(BR, "branch_cols")
NCN = K.const(ND, "node_cols")
for _n in ("FROM_NODE", "TO_NODE", "JAC_DERIV_DM", "JAC_DERIV_DP", "JAC_DERIV_DP1", "JAC_DERIV_DM_NODE",
           "LOAD_VEC_NODES_FROM", "LOAD_VEC_NODES_TO", "LOAD_VEC_BRANCHES", "BRANCH_TYPE", "PC",
           "FROM_NODE_T_SWITCHED", "JAC_DERIV_DT", "JAC_DERIV_DTOUT", "JAC_DERIV_DT_NODE",
           "JAC_DERIV_DTOUT_NODE", "LOAD_VEC_NODES_TO_T", "LOAD_VEC_BRANCHES_T"):
    globals()["B_" + _n] = K.const(BR, _n)
for _n in ("P", "PC", "T", "NODE_TYPE", "NODE_TYPE_T", "LOAD", "LOAD_T", "INFEED", "MDOTSLACKINIT", "JAC_DERIV_MSL",
           "JAC_DERIV_DT_N"):
    globals()["N_" + _n] = K.const(ND, _n)
INT_B = (B_FROM_NODE, B_TO_NODE, B_BRANCH_TYPE, B_FROM_NODE_T_SWITCHED)
INT_N = (N_NODE_TYPE, N_NODE_TYPE_T, N_INFEED)
NB, NN = z3.Int("NB"), z3.Int("NN")


class Coo:
    def __init__(self, data, rows, cols, shape):
        self.data, self.rows, self.cols, self.shape = data, rows, cols, shape


class CsrModel:
    """scipy.sparse.csr_matrix((data, (rows, cols)), shape): the matrix whose entry (r, c) is the sum of
    the data at the positions with that row and column (A4); the three arrays are kept"""

    def call(self, ev, args, kwargs, lineno):
        d, (r, c) = args[0]
        return Coo(d, r, c, kwargs.get("shape"))


class GroupSums:
    def __init__(self):
        self.calls = []

    def __call__(self, ev, args, kwargs):
        """contract of _sum_by_group(use_numba, indices, *values): strictly increasing unique keys u
        and, per value array, s with s[k] = groupsum(indices, values)(u[k]); groupsum is a spec-level
        symbol: groupsum(j) = sum of values[i] over i with indices[i] == j"""
        idx, vals = args[1], args[2:]
        U = fresh("ngroups", "int")
        uf = z3.Function("gkeys!%d" % next(V._counter), z3.IntSort(), z3.IntSort())
        u = Arr(U, lambda j: uf(V.I(j)), "i")
        outs = [u]
        rec = {"idx": idx, "vals": [], "gs": [], "u": u}
        for v in vals:
            g = z3.Function("groupsum!%d" % next(V._counter), z3.IntSort(), z3.RealSort())
            sarr = Arr(U, lambda j, _g=g: _g(uf(V.I(j))), "f")
            sarr.key_fn, sarr.keys = g, u
            outs.append(sarr)
            rec["vals"].append(v)
            rec["gs"].append(g)
        self.calls.append(rec)
        ev.path.notes.append(("gsum", rec))          # per-path record (self.calls only holds the last path's calls)
        k, k2, x = z3.Int("k!g"), z3.Int("k2!g"), z3.Int("x!g")
        ev.path.facts.append(U >= 0)
        ev.path.facts.append(z3.ForAll([k, k2], z3.Implies(z3.And(k >= 0, k < k2, k2 < U), uf(k) < uf(k2))))
        # keys are exactly the index values that occur; groupsum is 0 elsewhere
        hit = lambda j: member(idx, j)
        inv = z3.Function("gpos!%d" % next(V._counter), z3.IntSort(), z3.IntSort())
        ev.path.facts.append(z3.ForAll([x], z3.Implies(B(hit(x)), z3.And(inv(x) >= 0, inv(x) < U, uf(inv(x)) == x))))
        ev.path.facts.append(z3.ForAll([k], z3.Implies(z3.And(k >= 0, k < U), B(hit(uf(k))))))
        rec["hit"] = hit
        u.member_fn = hit      # j is a key  <=>  j occurs among the indices (contract of _sum_by_group)
        return tuple(outs)


def run_bsm(ctx, heat_mode, update=False):
    gsum = GroupSums()

    def mk():
        del gsum.calls[:]
        net = K.NetObj({"_options": {"only_update_hydraulic_matrix": update, "use_numba": True},
                        "_internal_data": {}})
        return [net, K.sym_pit("branch_pit", NB, NCB, int_cols=INT_B),
                K.sym_pit("node_pit", NN, NCN, int_cols=INT_N), heat_mode], {}
    paths = T.run_paths(ctx, BSM + ":build_system_matrix", mk,
                        contracts={IT + ":_sum_by_group": gsum},
                        hooks={"global": lambda m, n: CsrModel() if n == "csr_matrix" else None})
    return paths, gsum


def pits():
    return K.sym_pit("branch_pit", NB, NCB, int_cols=INT_B), K.sym_pit("node_pit", NN, NCN, int_cols=INT_N)


def base_req(bp, npit):
    i = z3.Int("i!req")
    return [NB >= 0, NN >= 1,
            z3.ForAll([i], z3.Implies(z3.And(i >= 0, i < NB), z3.And(
                V.I(bp.f(i, B_FROM_NODE)) >= 0, V.I(bp.f(i, B_FROM_NODE)) < NN,
                V.I(bp.f(i, B_TO_NODE)) >= 0, V.I(bp.f(i, B_TO_NODE)) < NN)))]


def elem_of(seg_rhs, o, ev_facts):
    """(element term(s), domain condition) for offset o of a segment's right-hand side"""
    if isinstance(seg_rhs, Comp):
        b = V.sel_fn(seg_rhs.mask)(o)
        return b
    return o


class Family:
    def __init__(self, name, kind, size, row, col, val, dom=None):
        self.name, self.kind, self.size = name, kind, size
        self.row, self.col, self.val, self.dom = row, col, val, dom


def check_matrix(ctx, label, p, families, req, extra_facts=()):
    """layout-free matching of the COO segments against the spec families"""
    coo = p.result[0]
    ok = isinstance(coo, Coo)
    ctx.decided("%s/returns-coo" % label, "ensures", ok, witness=repr(coo))
    if not ok:
        return
    rows, cols, data = coo.rows, coo.cols, coo.data
    rs = rows.__dict__.get("segments", [])
    cs = cols.__dict__.get("segments", [])
    ctx.decided("%s/segments-found" % label, "cover", len(rs) >= 5 and len(rs) == len(cs),
                witness="%d row segments, %d column segments" % (len(rs), len(cs)))
    facts = list(p.facts) + list(extra_facts)
    assum = req + facts + [p.cond()]
    # tiling of the master partition (rows), same bounds for cols, data covered
    order = list(range(len(rs)))
    tl = []
    cur = 0
    for k in order:
        lo, hi, v = rs[k]
        tl.append(compare("==", lo, cur) if not isinstance(compare("==", lo, cur), bool) else z3.BoolVal(compare("==", lo, cur)))
        cur = hi
    tl.append(B(compare("==", cur, rows.n)))
    ctx.ob("%s/tiling/rows" % label, "tiling", assum, z3.And(*[B(t) for t in tl]))
    ctx.ob("%s/tiling/cols-same-bounds" % label, "tiling", assum,
           z3.And(*[z3.And(B(compare("==", rs[k][0], cs[k][0])), B(compare("==", rs[k][1], cs[k][1])))
                    for k in range(min(len(rs), len(cs)))]))
    ctx.ob("%s/tiling/data-length" % label, "tiling", assum, z3.And(B(compare("==", data.n, rows.n)),
                                                                 B(compare("==", cols.n, rows.n))))
    shape = coo.shape
    # match segments to families
    o = z3.Int("o!seg")
    matched = {}
    for k in range(len(rs)):
        lo, hi, vr = rs[k]
        vc = cs[k][2] if k < len(cs) else None
        pos = arith("+", lo, o)
        inseg = [o >= 0, B(compare("<", o, arith("-", hi, lo)))]
        found = None
        for fam in families:
            if fam.name in matched.values():
                continue
            # element of the family addressed by offset o of this segment
            if fam.kind == "mask":
                if not isinstance(vr, Comp):
                    continue
                e = V.sel_fn(vr.mask)(o)
                dom_ok = [z3.ForAll([z3.Int("b!dom")], z3.Implies(
                    z3.And(z3.Int("b!dom") >= 0, B(compare("<", z3.Int("b!dom"), vr.mask.n))),
                    B(vr.mask.f(z3.Int("b!dom"))) == B(fam.dom(z3.Int("b!dom")))))]
            elif fam.kind == "full":
                if isinstance(vr, Comp):
                    continue
                e = o
                dom_ok = [B(compare("==", arith("-", hi, lo), fam.size))]
            elif fam.kind == "pair":
                if isinstance(vr, Comp) or not is_array(vr):
                    continue
                e = o
                dom_ok = []
            else:
                continue
            try:
                goal = z3.And(K.eq_val(rows.f(pos), fam.row(e, o)), K.eq_val(cols.f(pos), fam.col(e, o)),
                              K.eq_val(data.f(pos), fam.val(e, o)), *dom_ok)
            except Exception:  # noqa
                continue
            r0 = solve.prove(assum + inseg + V.trans_axioms(), goal, timeout_ms=4000, use_cvc5=False,
                             rlimit=8000000, quick=True)
            if r0["verdict"] == "proved":
                found = (fam, goal)
                break
        if found is None:
            ctx.decided("%s/family/segment#%d-matches-a-family" % (label, k), "family", False,
                        witness="segment %d [%s, %s) matches none of the unmatched families %s" % (
                            k, lo, hi, [f.name for f in families if f.name not in matched.values()]))
            continue
        fam, goal = found
        matched[k] = fam.name
        ctx.ob("%s/family/%s" % (label, fam.name), "family", assum + inseg, goal)
    for fam in families:
        ctx.decided("%s/family/%s/present" % (label, fam.name), "family", fam.name in matched.values(),
                    witness="no segment of the assembled matrix realises family %s (segments matched: %s)" % (
                        fam.name, matched))
    ctx.decided("%s/family/one-to-one" % label, "family", len(matched) == len(rs) == len(families),
                witness="%d segments, %d families, %d matched" % (len(rs), len(families), len(matched)))
    return matched


@unit("C01", "matrix/hydraulic", functions=[BSM + ":build_system_matrix"], engine="E3")
def matrix_hydraulic(ctx):
    ctx.assume("A1", "A4", "A6", "A7")
    paths, gsum = run_bsm(ctx, False)
    ok = len(paths) == 1 and paths[0].exc is None
    ctx.decided("single-path", "cover", ok, witness=str([str(p.exc) for p in paths]))
    if not ok:
        return
    p = paths[0]
    bp, npit = pits()
    fn = lambda b: V.I(bp.f(b, B_FROM_NODE))
    tn = lambda b: V.I(bp.f(b, B_TO_NODE))
    ntype = lambda n: V.I(npit.f(n, N_NODE_TYPE))
    # slack numbering: the s-th slack node -- through the code's own compress of the slack mask is not
    # available to the spec; the pair / slack families therefore address elements through the
    # functions the segment itself provides (offset o) and state the *relation* to the pits
    req = base_req(bp, npit)
    coo = p.result[0]
    # the k-th slack node as numbered by the code: recovered from the slack identity segment
    fams = [
        Family("branch-dm", "full", NB, lambda b, o: NN + b, lambda b, o: NN + b, lambda b, o: bp.f(b, B_JAC_DERIV_DM)),
        Family("branch-dp-from", "full", NB, lambda b, o: NN + b, lambda b, o: fn(b), lambda b, o: bp.f(b, B_JAC_DERIV_DP)),
        Family("branch-dp-to", "full", NB, lambda b, o: NN + b, lambda b, o: tn(b), lambda b, o: bp.f(b, B_JAC_DERIV_DP1)),
        Family("node-from-incidence", "mask", None, lambda b, o: fn(b), lambda b, o: NN + b,
               lambda b, o: -bp.f(b, B_JAC_DERIV_DM_NODE), dom=lambda b: ntype(fn(b)) != N_P),
        Family("node-to-incidence", "mask", None, lambda b, o: tn(b), lambda b, o: NN + b,
               lambda b, o: bp.f(b, B_JAC_DERIV_DM_NODE), dom=lambda b: ntype(tn(b)) != N_P),
        Family("slack-identity", "mask", None, lambda n, o: n, lambda n, o: n, lambda n, o: 1,
               dom=lambda n: ntype(n) == N_P),
    ]
    # families whose elements are addressed positionally by the code's own enumerations
    rows, cols, data = coo.rows, coo.cols, coo.data
    fams += [
        Family("pressure-control", "pairpos", None, None, None, None),
        Family("slack-mass-from", "pairrel", None, None, None, None),
        Family("slack-mass-to", "pairrel", None, None, None, None),
        Family("slack-mass-diagonal", "pairpos", None, None, None, None),
    ]
    simple = [f for f in fams if f.kind in ("full", "mask")]
    # requires: as many pressure-controller branches as pressure-controlled nodes (one controlled node
    # per controller) -- the k-th PC branch is paired with the k-th PC node positionally
    rs_, cs_ = coo.rows.__dict__.get("segments", []), coo.cols.__dict__.get("segments", [])
    for k in range(min(len(rs_), len(cs_))):
        a_, b_ = rs_[k][2], cs_[k][2]
        if isinstance(a_, Comp) and isinstance(b_, Comp) and a_.mask is not b_.mask:
            req = req + [V.count_term(a_.mask) == V.count_term(b_.mask)]
            ctx.notes.append("requires: count of rows-mask == count of cols-mask for segment %d "
                             "(pressure controller branches vs. controlled nodes)" % k)
    matched = check_matrix_partial(ctx, "hyd", p, simple, req)
    check_special_segments(ctx, "hyd", p, matched, req, bp, npit)
    check_load_vector(ctx, "hyd", p, gsum, req, bp, npit)
    ctx.check_safety(paths, req, "fn", kinds=("tiling", "shape", "mask"))


def check_matrix_partial(ctx, label, p, families, req):
    """like check_matrix but the families need not cover all segments (the remaining segments are
    handled by check_special_segments)"""
    coo = p.result[0]
    rows, cols, data = coo.rows, coo.cols, coo.data
    rs = rows.__dict__.get("segments", [])
    cs = cols.__dict__.get("segments", [])
    assum = req + list(p.facts) + [p.cond()]
    ctx.decided("%s/returns-coo" % label, "ensures", isinstance(coo, Coo), witness=repr(coo))
    ctx.decided("%s/segments-found" % label, "cover", len(rs) >= 5 and len(rs) == len(cs),
                witness="%d row segments, %d column segments" % (len(rs), len(cs)))
    cur = 0
    tl = []
    for (lo, hi, v) in rs:
        tl.append(B(compare("==", lo, cur)))
        cur = hi
    tl.append(B(compare("==", cur, rows.n)))
    ctx.ob("%s/tiling/rows" % label, "tiling", assum, z3.And(*tl))
    ctx.ob("%s/tiling/cols-same-bounds" % label, "tiling", assum,
           z3.And(*[z3.And(B(compare("==", rs[k][0], cs[k][0])), B(compare("==", rs[k][1], cs[k][1])))
                    for k in range(min(len(rs), len(cs)))]))
    ctx.ob("%s/tiling/equal-lengths" % label, "tiling", assum,
           z3.And(B(compare("==", data.n, rows.n)), B(compare("==", cols.n, rows.n))))
    o = z3.Int("o!seg")
    matched = {}
    for k, (lo, hi, vr) in enumerate(rs):
        pos = arith("+", lo, o)
        inseg = [o >= 0, B(compare("<", o, arith("-", hi, lo)))]
        for fam in families:
            if fam.name in matched.values():
                continue
            if fam.kind == "mask":
                if not isinstance(vr, Comp):
                    continue
                e = V.sel_fn(vr.mask)(o)
                bd = z3.Int("b!dom")
                dom = z3.ForAll([bd], z3.Implies(z3.And(bd >= 0, B(compare("<", bd, vr.mask.n))),
                                                 B(vr.mask.f(bd)) == B(fam.dom(bd))))
            else:
                if isinstance(vr, Comp):
                    continue
                e = o
                dom = B(compare("==", arith("-", hi, lo), fam.size))
            goal = z3.And(K.eq_val(rows.f(pos), fam.row(e, o)), K.eq_val(cols.f(pos), fam.col(e, o)),
                          K.eq_val(data.f(pos), fam.val(e, o)), dom)
            r0 = solve.prove(assum + inseg, goal, timeout_ms=4000, use_cvc5=False, rlimit=8000000, quick=True)
            if r0["verdict"] == "proved":
                matched[k] = fam.name
                ctx.ob("%s/family/%s" % (label, fam.name), "family", assum + inseg, goal)
                break
    for fam in families:
        ctx.decided("%s/family/%s/present" % (label, fam.name), "family", fam.name in matched.values(),
                    witness="no segment of the assembled matrix realises family %s (matched: %s)" % (fam.name, matched))
    return matched


def check_special_segments(ctx, label, p, matched, req, bp, npit):
    """pressure-controller rows, slack-mass rows: elements are addressed through the code's own
    enumerations (k-th PC node / k-th PC branch, pairs (slack s, branch b)); the obligations state the
    relation of every stored triple to the pits"""
    coo = p.result[0]
    rows, cols, data = coo.rows, coo.cols, coo.data
    rs = rows.__dict__.get("segments", [])
    assum = req + list(p.facts) + [p.cond()]
    o = z3.Int("o!seg")
    rest = [k for k in range(len(rs)) if k not in matched]
    ctx.decided("%s/special/four-remaining-segments" % label, "family", len(rest) == 4,
                witness="%d segments are not matched by the simple families (expected: pressure control, "
                        "slack-mass from/to, slack-mass diagonal)" % len(rest))
    ntype = lambda n: V.I(npit.f(n, N_NODE_TYPE))
    btype = lambda b: V.I(bp.f(b, B_BRANCH_TYPE))
    fn = lambda b: V.I(bp.f(b, B_FROM_NODE))
    tn = lambda b: V.I(bp.f(b, B_TO_NODE))
    nslack_rows = arith("-", rows.n, 0)
    found = set()
    for k in rest:
        lo, hi, vr = rs[k]
        pos = arith("+", lo, o)
        inseg = [o >= 0, B(compare("<", o, arith("-", hi, lo)))]
        r_, c_, d_ = V.I(rows.f(pos)), V.I(cols.f(pos)), data.f(pos)
        cands = {
            # (NN + b, n, 1) with b a pressure-controller branch and n a pressure-controlled node
            "pressure-control": z3.And(r_ >= NN, r_ < NN + NB, btype(r_ - NN) == B_PC, c_ >= 0, c_ < NN,
                                       ntype(c_) == N_PC, V.R(d_) == 1),
            # (NN + NB + s, NN + b, -dm_node(b)) with from(b) a slack node
            "slack-mass-from": z3.And(r_ >= NN + NB, c_ >= NN, c_ < NN + NB, ntype(fn(c_ - NN)) == N_P,
                                      V.R(d_) == -V.R(bp.f(c_ - NN, B_JAC_DERIV_DM_NODE))),
            "slack-mass-to": z3.And(r_ >= NN + NB, c_ >= NN, c_ < NN + NB, ntype(tn(c_ - NN)) == N_P,
                                    V.R(d_) == V.R(bp.f(c_ - NN, B_JAC_DERIV_DM_NODE))),
            "slack-mass-diagonal": z3.And(r_ >= NN + NB, c_ == r_),
        }
        hit = None
        for nm, g in cands.items():
            if nm in found:
                continue
            r0 = solve.prove(assum + inseg, g, timeout_ms=4000, use_cvc5=False, rlimit=8000000, quick=True)
            if r0["verdict"] == "proved":
                hit = nm
                break
        if hit is None:
            ctx.decided("%s/special/segment#%d" % (label, k), "family", False,
                        witness="segment [%s, %s) is none of %s" % (lo, hi, sorted(set(cands) - found)))
            continue
        found.add(hit)
        ctx.ob("%s/special/%s" % (label, hit), "family", assum + inseg, cands[hit])
    for nm in ("pressure-control", "slack-mass-from", "slack-mass-to", "slack-mass-diagonal"):
        ctx.decided("%s/special/%s/present" % (label, nm), "family", nm in found, witness="missing")


def check_load_vector(ctx, label, p, gsum, req, bp, npit):
    lv = p.result[1]
    ok = isinstance(lv, Arr)
    ctx.decided("%s/load/returns-array" % label, "ensures", ok, witness=repr(lv))
    if not ok:
        return
    assum = req + list(p.facts) + [p.cond()]
    ntype = lambda n: V.I(npit.f(n, N_NODE_TYPE))
    btype = lambda b: V.I(bp.f(b, B_BRANCH_TYPE))
    fn = lambda b: V.I(bp.f(b, B_FROM_NODE))
    tn = lambda b: V.I(bp.f(b, B_TO_NODE))
    # the group sums the code requested: (indices, values) must be (from nodes, LOAD_VEC_NODES_FROM) ...
    b = z3.Int("b!gs")
    want = [("from", fn, B_LOAD_VEC_NODES_FROM), ("to", tn, B_LOAD_VEC_NODES_TO)]
    calls = gsum.calls
    ctx.decided("%s/load/group-sums-requested" % label, "cover", len(calls) >= 2, witness="%d" % len(calls))
    gmap = {}
    for nm, nodef, col in want:
        for rec in calls:
            if rec in gmap.values() or len(rec["vals"]) != 1 or isinstance(rec["idx"], Comp) or \
                    not same_term(rec["idx"].n, NB):
                continue
            g = z3.And(K.eq_val(rec["idx"].f(b), nodef(b)), K.eq_val(rec["vals"][0].f(b), bp.f(b, col)))
            r0 = solve.prove(assum + [b >= 0, b < NB], g, timeout_ms=3000, use_cvc5=False, rlimit=4000000, quick=True)
            if r0["verdict"] == "proved":
                gmap[nm] = rec
                ctx.ob("%s/load/groupsum-%s-arguments" % (label, nm), "ensures", assum + [b >= 0, b < NB], g)
                break
        ctx.decided("%s/load/groupsum-%s-present" % (label, nm), "ensures", nm in gmap,
                    witness="no _sum_by_group call over (%s nodes, LOAD_VEC_NODES_%s)" % (nm, nm.upper()))
    if len(gmap) < 2:
        return
    gF, gT = gmap["from"], gmap["to"]
    sF = lambda n: z3.If(B(gF["hit"](n)), gF["gs"][0](n), 0)
    sT = lambda n: z3.If(B(gT["hit"](n)), gT["gs"][0](n), 0)
    n = z3.Int("n!row")
    ctx.ob("%s/load/node-rows" % label, "ensures", assum + [n >= 0, n < NN, ntype(n) != N_P],
           K.eq_val(lv.f(n), -V.R(npit.f(n, N_LOAD)) - sF(n) + sT(n)))
    ctx.ob("%s/load/slack-rows-zero" % label, "ensures", assum + [n >= 0, n < NN, ntype(n) == N_P],
           K.eq_val(lv.f(n), 0))
    bb = z3.Int("b!row")
    ctx.ob("%s/load/branch-rows" % label, "ensures", assum + [bb >= 0, bb < NB, btype(bb) != B_PC],
           K.eq_val(lv.f(NN + bb), bp.f(bb, B_LOAD_VEC_BRANCHES)))
    ctx.ob("%s/load/pressure-control-rows-zero" % label, "ensures", assum + [bb >= 0, bb < NB, btype(bb) == B_PC],
           K.eq_val(lv.f(NN + bb), 0))
    ctx.ob("%s/load/length" % label, "ensures", assum, B(compare(">=", lv.n, NN + NB)))


@unit("C01", "kernel_clauses", functions=["pandapipes.pf.derivative_calculation:calculate_derivatives_hydraulic"],
      engine="E2")
def kernel_clauses(ctx):
    """the entries the mass balance relies on are the ones the hydraulic stage writes (proved in the
    C02 stage units): JAC_DERIV_DM_NODE = 1, LOAD_VEC_NODES_FROM = LOAD_VEC_NODES_TO = MDOTINIT.
    Here: the linear-algebra lemma L1 instantiated for a node row (spec level)."""
    ctx.assume("A1", "A4")
    # node row with k_from branches leaving and k_to branches entering (k = 1..3): after the step
    # m' = m - x the balance  sum_to m' - sum_from m' - LOAD  vanishes
    for kf in (0, 1, 2):
        for kt in (0, 1, 2):
            mf = [z3.Real("mf%d" % i) for i in range(kf)]
            mt = [z3.Real("mt%d" % i) for i in range(kt)]
            xf = [z3.Real("xf%d" % i) for i in range(kf)]
            xt = [z3.Real("xt%d" % i) for i in range(kt)]
            load = z3.Real("load")
            row = sum([-1 * x for x in xf], z3.RealVal(0)) + sum(xt, z3.RealVal(0)) == \
                -load - sum(mf, z3.RealVal(0)) + sum(mt, z3.RealVal(0))
            bal = sum([m - x for m, x in zip(mt, xt)], z3.RealVal(0)) - \
                sum([m - x for m, x in zip(mf, xf)], z3.RealVal(0)) - load
            ctx.ob("L1/node-row/from%d-to%d" % (kf, kt), "lemma", [row], bal == 0)


# ---------------------------------------------------------------------------------------------
# reported feed-in of the pressure-fixing elements: the slack mass flow of the node, shared equally

EG = "pandapipes.component_models.ext_grid_component"


@unit("C01", "ext_grid/results", functions=[EG + ":ExtGrid.extract_results"], engine="E3")
def ext_grid_results(ctx):
    """every in-service pressure-fixing external grid reports sign() * MDOTSLACKINIT[node] / (number of
    such grids at the node); all other rows keep their (NaN) initial value -- so the reports of the grids
    at a node add up to the slack mass flow that closes the node's balance (slack row, L1)."""
    ctx.assume("A1", "A4", "A6", "A7")
    N_MSL = K.const(ND, "MDOTSLACKINIT")
    cref = S.get_module(EG).classes["ExtGrid"]
    n, NL = z3.Int("NEG"), z3.Int("NLOOKUP")
    cols = {"in_service": "b", "type": "i", "junction": "i"}

    def mk():
        net = K.NetObj({"ext_grid": K.sym_table("ext_grid", n, cols),
                        "res_ext_grid": K.sym_table("res_ext_grid", n, {"mdot_kg_per_s": "f"}),
                        "_pit": {"node": K.sym_pit("node_pit", NN, NCN), "branch": K.sym_pit("branch_pit", NB, NCB)},
                        "_lookups": {"node_index": {"junction": K.sym_arr("junction_lookup", NL, "i")}}})
        return [cref, net, {}, {}, "hydraulics"], {}
    paths = T.run_paths(ctx, EG + ":ExtGrid.extract_results", mk)
    main = [p for p in paths if p.exc is None and p.result is not None]
    ctx.decided("returns", "cover", len(main) >= 1 and all(p.exc is None for p in paths),
                witness=str([str(p.exc) for p in paths]))
    if not main:
        return
    tbl = K.sym_table("ext_grid", n, cols)
    res0 = K.sym_table("res_ext_grid", n, {"mdot_kg_per_s": "f"})
    npit = K.sym_pit("node_pit", NN, NCN)
    L = K.sym_arr("junction_lookup", NL, "i")
    r, r2 = z3.Int("r"), z3.Int("r2")
    fixing = lambda q: z3.And(tbl.columns["in_service"].f(q),
                              z3.Or(tbl.columns["type"].f(q) == V.str_code("p"), tbl.columns["type"].f(q) == V.str_code("pt")))
    node = lambda q: L.f(tbl.columns["junction"].f(q))
    req = [n >= 1, r >= 0, r < n, NN >= 1,
           z3.ForAll([r2], z3.Implies(z3.And(r2 >= 0, r2 < n, fixing(r2)), z3.And(node(r2) >= 0, node(r2) < NN)))]
    for p in main:
        res = p.args[0][1].items["res_ext_grid"].columns["mdot_kg_per_s"]
        rec = [d for tag, d in p.notes if tag == "unique"]
        occ = rec[0]["occ"] if len(rec) == 1 else None
        ctx.decided("unique-count-recorded", "cover", occ is not None, witness="np.unique(return_counts) not seen")
        if occ is None:
            continue
        base = req + list(p.facts) + [p.cond()]
        ctx.ob("fixing-rows-report-slack-mass-share", "ensures", base + [fixing(r)],
               K.eq_val(res.f(r), V.R(npit.f(node(r), N_MSL)) / occ(node(r))))
        ctx.ob("other-rows-untouched", "frame", base + [z3.Not(fixing(r))],
               K.eq_val(res.f(r), res0.columns["mdot_kg_per_s"].f(r)))
        # the count is the number of fixing rows at the node: every fixing row's node is counted at least once
        ctx.ob("count-positive-on-fixing-rows", "ensures", base + [fixing(r)], occ(node(r)) >= 1)


# ---------------------------------------------------------------------------------------------
# the node load column: reset by the junction writer on EVERY path (also when the pit is re-used between
# transient time steps), then accumulated per junction by the constant-flow components

JC = "pandapipes.component_models.junction_component"
CF = "pandapipes.component_models.abstract_models.const_flow_models"
CTB = "pandapipes.component_models.component_toolbox"


def junction_accumulators_reset(ctx, colnames):
    """after Junction.create_pit_node_entries every accumulator column (filled with `+=` by later writers) is 0
    on every junction row, for every value of the transient / simulation_time_step options"""
    f, t = z3.Int("f_j"), z3.Int("t_j")
    n = t - f
    cls = S.get_module(JC).classes["Junction"]
    cols = {"height_m": "f", "in_service": "b", "tfluid_k": "f", "pn_bar": "f"}
    transient, step = z3.Bool("opt_transient"), z3.Int("opt_time_step")

    def mk():
        net = K.NetObj({"junction": K.sym_table("junction", n, cols),
                        "_options": {"transient": transient, "simulation_time_step": step},
                        "_lookups": {"node_from_to": {"junction": (f, t)},
                                     "node_table": {"n2t": {0: "junction"}, "t2n": {"junction": 0}}}})
        return [cls, net, K.sym_pit("node_pit", NN, NCN)], {}
    pamb = z3.Function("p_correction_height_air", z3.RealSort(), z3.RealSort())

    def c_pamb(ev, args, kwargs):
        h = args[0]
        return Arr(h.n, lambda j, _h=h.f: pamb(_h(j)), "f")
    paths = T.run_paths(ctx, JC + ":Junction.create_pit_node_entries", mk, contracts={CTB + ":p_correction_height_air": c_pamb})
    ok = len(paths) >= 2 and all(p.exc is None for p in paths)
    ctx.decided("junction_pit/paths", "cover", ok, witness=str([str(p.exc) for p in paths]))
    if not ok:
        return
    i = z3.Int("i!row")
    base = [f >= 0, f <= t, t <= NN, i >= 0, i < n]
    cover = z3.Or(*[p.cond() for p in paths])
    ctx.ob("junction_pit/paths-cover-all-options", "cover", base, cover)
    for nm in colnames:
        col = K.const(ND, nm)
        g = z3.And(*[z3.Implies(z3.And(p.cond(), *p.facts), K.eq_val(p.args[0][2].f(f + i, col), 0)) for p in paths])
        ctx.ob("junction_pit/%s-reset-on-every-path" % nm, "ensures", base, g)


@unit("C01", "loads/accumulator_reset", functions=[JC + ":Junction.create_pit_node_entries"], engine="E3")
def load_reset(ctx):
    ctx.assume("A1", "A4", "A6", "A7")
    junction_accumulators_reset(ctx, ["LOAD"])


@unit("C01", "loads/node_load_column", functions=[CF + ":ConstFlow.create_pit_node_entries"], engine="E3")
def node_load_column(ctx):
    """ConstFlow.create_pit_node_entries adds, at the node of every junction that occurs, the group sum of the
    signed scaled mass flows of the rows at that junction to LOAD and leaves every other node and column alone."""
    ctx.assume("A1", "A4", "A6", "A7")
    n, NL = z3.Int("NLD"), z3.Int("NLOOKUP")
    cols = {"in_service": "b", "scaling": "f", "mdot_kg_per_s": ("f", True), "junction": "i"}
    for modname, cname, tname, sgn in (("sink_component", "Sink", "sink", 1), ("source_component", "Source", "source", -1),
                                       ("mass_storage_component", "MassStorage", "mass_storage", 1)):
        cref = S.get_module("pandapipes.component_models." + modname).classes[cname]
        gsum = GroupSums()

        def mk(_t=tname, _c=cref, _g=gsum):
            del _g.calls[:]
            net = K.NetObj({_t: K.sym_table(_t, n, cols), "_options": {"use_numba": True},
                            "_lookups": {"node_index": {"junction": K.sym_arr("junction_lookup", NL, "i")}}})
            return [_c, net, K.sym_pit("node_pit", NN, NCN)], {}
        paths = T.run_paths(ctx, CF + ":ConstFlow.create_pit_node_entries", mk, contracts={IT + ":_sum_by_group": gsum})
        recs = [[d for tag, d in p.notes if tag == "gsum"] for p in paths]
        ok = len(paths) >= 1 and all(p.exc is None for p in paths) and all(len(r) == 1 and len(r[0]["gs"]) == 1 for r in recs)
        ctx.decided("%s/every-path-returns-after-one-group-sum" % cname, "cover", ok, witness=str([str(p.exc) for p in paths]))
        if not ok:
            continue
        tbl = K.sym_table(tname, n, cols)
        np0 = K.sym_pit("node_pit", NN, NCN)
        L = K.sym_arr("junction_lookup", NL, "i")
        r = z3.Int("r")
        mdot = tbl.columns["mdot_kg_per_s"].f(r)
        term = V.R(ite(nan_of(mdot), 0, val_of(mdot))) * z3.If(tbl.columns["in_service"].f(r), 1.0, 0.0) * \
            V.R(tbl.columns["scaling"].f(r)) * sgn
        for kx, (p, rr) in enumerate(zip(paths, recs)):
            rec = rr[0]
            sfx = "" if len(paths) == 1 else "#%d" % kx
            npf = p.args[0][2]
            facts = list(p.facts) + [p.cond()]
            ctx.ob("%s/group-sum-arguments%s" % (cname, sfx), "ensures", [n >= 1, r >= 0, r < n] + facts,
                   z3.And(K.eq_val(rec["idx"].f(r), tbl.columns["junction"].f(r)), K.eq_val(rec["vals"][0].f(r), term)))
            u, g = rec["u"], rec["gs"][0]
            k, k2, kk, o, c = z3.Int("k!key"), z3.Int("k2!key"), z3.Int("kk"), z3.Int("o!node"), z3.Int("c!col")
            inj = z3.ForAll([k, k2], z3.Implies(z3.And(k >= 0, k < u.n, k2 >= 0, k2 < u.n, k != k2), L.f(u.f(k)) != L.f(u.f(k2))))
            rng = z3.ForAll([k], z3.Implies(z3.And(k >= 0, k < u.n), z3.And(L.f(u.f(k)) >= 0, L.f(u.f(k)) < NN)))
            req = [n >= 1, NN >= 1, inj, rng] + facts
            qq = L.f(u.f(kk))
            ctx.ob("%s/load-accumulated-at-the-junction-node%s" % (cname, sfx), "ensures", req + [kk >= 0, kk < u.n],
                   K.eq_val(npf.f(qq, N_LOAD), V.R(np0.f(qq, N_LOAD)) + g(u.f(kk))))
            ctx.ob("%s/frame-other-nodes-and-columns%s" % (cname, sfx), "frame",
                   req + [o >= 0, o < NN, c >= 0, c < NCN,
                          z3.Or(c != N_LOAD, z3.ForAll([k], z3.Implies(z3.And(k >= 0, k < u.n), L.f(u.f(k)) != o)))],
                   K.eq_val(npf.f(o, c), np0.f(o, c)))


@unit("C01", "results/column_pairing", functions=[CTB + ":standard_branch_wo_internals_result_lookup"], engine="E5")
def result_column_pairing(ctx):
    """mdot_from / mdot_to / p_from / p_to / volume-flow / temperature columns are filled from the result arrays of
    the same meaning (get_basic_branch_results: mf_from = m, mf_to = -m -- C09 units) -- evaluated for gas and liquid"""
    ctx.assume("A6")
    want_h = {"p_from_bar": "p_from", "p_to_bar": "p_to", "mdot_from_kg_per_s": "mf_from", "mdot_to_kg_per_s": "mf_to"}
    want_t = {"t_from_k": "temp_from", "t_to_k": "temp_to", "t_outlet_k": "t_outlet"}
    for gas in (False, True):
        fluid = K.make_fluid(gas)
        paths = T.run_paths(ctx, CTB + ":standard_branch_wo_internals_result_lookup", lambda: ([K.NetObj({"fluid": fluid})], {}))
        ok = len(paths) == 1 and paths[0].exc is None and isinstance(paths[0].result, tuple) and len(paths[0].result) == 2
        tag = "gas" if gas else "liquid"
        ctx.decided("%s/returns-two-lists" % tag, "cover", ok, witness=str([str(p.exc) for p in paths]))
        if not ok:
            continue
        hyd, ht = [dict(tuple(x) for x in lst) for lst in paths[0].result]
        exp_h = dict(want_h)
        exp_h.update({"normfactor_from": "normfactor_from", "normfactor_to": "normfactor_to", "vdot_norm_m3_per_s": "vf"} if gas
                     else {"vdot_m3_per_s": "vf"})
        ctx.decided("%s/hydraulic-columns" % tag, "schema", hyd == exp_h, witness="pairs %s, expected %s" % (hyd, exp_h))
        ctx.decided("%s/thermal-columns" % tag, "schema", ht == want_t, witness="pairs %s, expected %s" % (ht, want_t))


@unit("C01", "results/forwarding", functions=["pandapipes.pf.result_extraction:extract_branch_results_without_internals"], engine="E5")
def result_forwarding(ctx):
    """every branch component without internal nodes hands the standard column pairing, for ITS OWN table, to
    extract_branch_results_without_internals (whose positional contract is proved in C06) -- recorded call, for gas and
    liquid, with and without compression power; the mass-flow pairs may not be dropped, renamed or redirected"""
    ctx.assume("A6")
    from contracts.C06 import wo_classes, class_str
    from pvc import classes as CL
    std = {"p_from_bar": "p_from", "p_to_bar": "p_to", "mdot_from_kg_per_s": "mf_from", "mdot_to_kg_per_s": "mf_to"}
    for cref in wo_classes() + [S.get_module("pandapipes.component_models.circulation_pump_mass_component").classes["CirculationPumpMass"]]:
        tn = class_str(ctx, cref, "table_name")
        m = CL.lookup_method(cref, "extract_results")
        if m is None or not isinstance(tn, str):
            ctx.decided("%s/method-found" % cref.name, "cover", False, witness="no extract_results / table name")
            continue
        for gas in (False, True):
            calls = []

            def c_extract(ev, args, kwargs):
                calls.append(list(args))
                raise E._Raise(E.ExcVal("StopHere"))
            fluid = K.make_fluid(gas)
            f_, t_ = z3.Int("f_blk"), z3.Int("t_blk")

            def mk(_c=cref, _fluid=fluid):
                net = K.NetObj({"fluid": _fluid, "_lookups": {"branch_from_to": {tn: (f_, t_)}},
                                "_pit": {"branch": K.sym_pit("branch_pit", NB, NCB), "node": K.sym_pit("node_pit", NN, NCN)}})
                return [_c, net, {"calc_compression_power": False}, {}, "hydraulics"], {}
            try:
                T.run_paths(ctx, m.key, mk, contracts={
                    "pandapipes.pf.result_extraction:extract_branch_results_without_internals": c_extract})
            except Unsupported as e:
                ctx.undecided("%s/%s/subset" % (cref.name, "gas" if gas else "liquid"), "unsupported", str(e))
                continue
            tag = "%s/%s" % (cref.name, "gas" if gas else "liquid")
            ctx.decided(tag + "/reaches-the-positional-writer", "cover", len(calls) >= 1, witness="not called")
            for a in calls[:1]:
                try:
                    hyd = dict(tuple(x) for x in a[2])
                except Exception:  # noqa
                    hyd = None
                ctx.decided(tag + "/standard-pairs-forwarded", "schema",
                            hyd is not None and all(hyd.get(k) == v for k, v in std.items()),
                            witness="hydraulic pairs handed over: %s" % (hyd,))
                ctx.decided(tag + "/own-table", "schema", a[4] == tn, witness="table %r, expected %r" % (a[4], tn))


@unit("C01", "circ_pump/slack_mass_pinned", functions=["pandapipes.component_models.abstract_models.circulation_pump:CirculationPump.adaption_after_derivatives_hydraulic"],
      engine="E2")
def circ_pump_slack_mass(ctx):
    """the flow junction of a circulation pump is pressure-fixed; unless an external grid makes it a variable-mass slack
    (VAR_MASS_SLACK), its slack mass flow is pinned to 0 -- the loop is closed, what the pump delivers is its branch flow;
    every other node keeps its slack mass flow"""
    ctx.assume("A1", "A4", "A6", "A7")
    from contracts.C03 import World, comp_class
    CPA_ = "pandapipes.component_models.abstract_models.circulation_pump"
    cref = comp_class("circulation_pump_mass_component", "CirculationPumpMass")
    w = World(cref, "circ_pump_mass", 1)
    paths = w.run(ctx, CPA_ + ":CirculationPump.adaption_after_derivatives_hydraulic")
    ok = len(paths) == 1 and paths[0].exc is None
    ctx.decided("single-path", "cover", ok, witness=str([str(p.exc) for p in paths]))
    if not ok:
        return
    N_VMS = K.const(ND, "VAR_MASS_SLACK")
    bp0, np0 = w.spec.objs["branch_pit"], w.spec.objs["node_pit"]
    npit = paths[0].args[0][3]
    k, n, k2 = z3.Int("k"), z3.Int("n!node"), z3.Int("k2")
    tn = lambda r: V.I(bp0.f(r, B_TO_NODE))
    fixed_only = lambda r: V.R(np0.f(tn(r), N_VMS)) == 0
    req = w.req() + list(paths[0].facts)
    ctx.ob("flow-node-without-external-grid-has-zero-slack-mass", "ensures", req + [k >= w.f, k < w.t, fixed_only(k)],
           K.eq_val(npit.f(tn(k), N_MDOTSLACKINIT), 0))
    ctx.ob("other-nodes-keep-their-slack-mass", "frame",
           req + [n >= 0, n < w.spec.NN, z3.ForAll([k2], z3.Implies(z3.And(k2 >= w.f, k2 < w.t, fixed_only(k2)), tn(k2) != n))],
           K.eq_val(npit.f(n, N_MDOTSLACKINIT), np0.f(n, N_MDOTSLACKINIT)))
    c = z3.Int("c!col")
    ctx.ob("other-columns-untouched", "frame", req + [n >= 0, n < w.spec.NN, c >= 0, c < NCN, c != N_MDOTSLACKINIT],
           K.eq_val(npit.f(n, c), np0.f(n, c)))


@unit("C01", "bounded/mass_balance", functions=["pandapipes.pipeflow:pipeflow"], engine="bounded")
def mass_balance_bounded(ctx):
    """property-level bounded stand-in (and the fallback replay of this property's refuted obligations): whole
    calculations, balance computed from the result tables alone"""
    from pvc.harness import venv_run
    inp = {"what": "mass_balance"}
    res = venv_run("bounded.py", inp, timeout=3000)
    ctx.bounded("reported-flows-balance-at-supplied-junctions-and-over-the-network", res["ok"],
                "36 calculations: meshed 7-junction net (parallel pipes, 1/2/3 sections, open / closed valve, out-of-service pipe, "
                "sinks incl. scaled / out of service / unsupplied, source, mass storage, two ext grids sharing a junction + a third, "
                "one out of service) x {water, lgas} x 2 junction labellings x {hydraulics, sequential}; circulation-pump loop with "
                "heat exchanger and flow control x {closed, make-up ext grid at the flow junction, two of them} x 3 modes; 3 transient "
                "steps on one net; use_numba False/True; node and network balance <= 1e-7 kg/s from the result tables",
                res["cases"], witness=res["witness"], replay={"handler": "bounded", "input": inp} if not res["ok"] else None)


@unit("C01", "lean_lemmas", engine="Lean")
def lean_lemmas(ctx):
    """the Σ-lemmas over ANY number of branches per node / nodes per network (Lean 4 + Mathlib,
    lean/Lemmas.lean): node row and slack row of the contract of build_system_matrix are exact after a
    full step (L1), damped step leaves the factor (1 - alpha), and the node balances of a network sum to
    zero, so total feed-in = total signed load (L3)."""
    ctx.lean("L1/affine-row-exact-after-full-step", ["L1_affine_row_exact", "L1_affine_row_damped"])
    ctx.lean("L1/node-row-balance-any-degree", ["node_row_balance", "slack_row_balance"])
    ctx.lean("L3/network-balance-total-feed-equals-total-load", ["network_balance", "total_feed_equals_total_load"])


# ---------------------------------------------------------------------------------------------
# thermal system (registered under C10: node energy balance rows, imposed feed temperatures)

def thermal_families(bp, npit):
    sw = lambda b: V.I(bp.f(b, B_FROM_NODE_T_SWITCHED))
    fn = lambda b: V.I(bp.f(b, B_FROM_NODE))
    tn = lambda b: V.I(bp.f(b, B_TO_NODE))
    fnc = lambda b: z3.If(sw(b) == 1, tn(b), fn(b))
    tnc = lambda b: z3.If(sw(b) == 1, fn(b), tn(b))
    infeed = lambda n: V.R(npit.f(n, N_INFEED)) != 0
    return [
        Family("branch-dT-inflow-node", "full", NB, lambda b, o: NN + b, lambda b, o: fnc(b),
               lambda b, o: bp.f(b, B_JAC_DERIV_DT)),
        Family("branch-dTout", "full", NB, lambda b, o: NN + b, lambda b, o: NN + b,
               lambda b, o: bp.f(b, B_JAC_DERIV_DTOUT)),
        Family("node-mix-dT", "mask", None, lambda b, o: tnc(b), lambda b, o: tnc(b),
               lambda b, o: bp.f(b, B_JAC_DERIV_DT_NODE), dom=lambda b: z3.Not(infeed(tnc(b)))),
        Family("node-mix-dTout", "mask", None, lambda b, o: tnc(b), lambda b, o: NN + b,
               lambda b, o: bp.f(b, B_JAC_DERIV_DTOUT_NODE), dom=lambda b: z3.Not(infeed(tnc(b)))),
        Family("node-own-dT", "mask", None, lambda n, o: n, lambda n, o: n,
               lambda n, o: npit.f(n, N_JAC_DERIV_DT_N), dom=lambda n: z3.Not(infeed(n))),
    ], fnc, tnc, infeed


def thermal_matrix(ctx):
    ctx.assume("A1", "A4", "A6", "A7")
    paths, gsum = run_bsm(ctx, True)
    ok = len(paths) == 1 and paths[0].exc is None
    ctx.decided("single-path", "cover", ok, witness=str([str(p.exc) for p in paths]))
    if not ok:
        return
    p = paths[0]
    bp, npit = pits()
    i = z3.Int("i!req")
    req = base_req(bp, npit) + [z3.ForAll([i], z3.Implies(z3.And(i >= 0, i < NB), z3.Or(
        V.I(bp.f(i, B_FROM_NODE_T_SWITCHED)) == 0, V.I(bp.f(i, B_FROM_NODE_T_SWITCHED)) == 1)))]
    fams, fnc, tnc, infeed = thermal_families(bp, npit)
    coo = p.result[0]
    rs_, cs_ = coo.rows.__dict__.get("segments", []), coo.cols.__dict__.get("segments", [])
    # requires (what check_infeed_number tests): as many infeed nodes as temperature-fixed nodes
    for k in range(min(len(rs_), len(cs_))):
        a_, b_ = rs_[k][2], cs_[k][2]
        if isinstance(a_, Comp) and isinstance(b_, Comp) and a_.mask is not b_.mask:
            req = req + [V.count_term(a_.mask) == V.count_term(b_.mask)]
    matched = check_matrix_partial(ctx, "therm", p, fams, req)
    rows, cols, data = coo.rows, coo.cols, coo.data
    rs = rows.__dict__.get("segments", [])
    rest = [k for k in range(len(rs)) if k not in matched]
    ctx.decided("therm/special/one-remaining-segment", "family", len(rest) == 1,
                witness="%d unmatched segments (expected only the infeed rows)" % len(rest))
    assum = req + list(p.facts) + [p.cond()]
    o = z3.Int("o!seg")
    ttype = lambda n: V.I(npit.f(n, N_NODE_TYPE_T))
    for k in rest:
        lo, hi, vr = rs[k]
        pos = arith("+", lo, o)
        inseg = [o >= 0, B(compare("<", o, arith("-", hi, lo)))]
        r_, c_, d_ = V.I(rows.f(pos)), V.I(cols.f(pos)), data.f(pos)
        # the k-th infeed row holds (k-th infeed node, k-th temperature-fixed node, 1)
        ctx.ob("therm/special/infeed-rows", "family", assum + inseg,
               z3.And(r_ >= 0, r_ < NN, infeed(r_), c_ >= 0, c_ < NN, ttype(c_) == N_T, V.R(d_) == 1))
    # load vector
    lv = p.result[1]
    b = z3.Int("b!gs")
    calls = gsum.calls
    rec = None
    for c in calls:
        if len(c["vals"]) == 1 and not isinstance(c["idx"], Comp):
            g = z3.And(K.eq_val(c["idx"].f(b), tnc(b)), K.eq_val(c["vals"][0].f(b), bp.f(b, B_LOAD_VEC_NODES_TO_T)))
            r0 = solve.prove(assum + [b >= 0, b < NB], g, timeout_ms=3000, use_cvc5=False, rlimit=4000000, quick=True)
            if r0["verdict"] == "proved":
                rec = c
                ctx.ob("therm/load/groupsum-arguments", "ensures", assum + [b >= 0, b < NB], g)
                break
    ctx.decided("therm/load/groupsum-present", "ensures", rec is not None,
                witness="no _sum_by_group over (flow-corrected to-nodes, LOAD_VEC_NODES_TO_T)")
    if rec is None:
        return
    sT = lambda n: z3.If(B(rec["hit"](n)), rec["gs"][0](n), 0)
    n = z3.Int("n!row")
    ctx.ob("therm/load/node-rows", "ensures", assum + [n >= 0, n < NN, z3.Not(infeed(n))],
           K.eq_val(lv.f(n), -V.R(npit.f(n, N_LOAD_T)) + sT(n)))
    ctx.ob("therm/load/infeed-rows-zero", "ensures", assum + [n >= 0, n < NN, infeed(n)], K.eq_val(lv.f(n), 0))
    bb = z3.Int("b!row")
    ctx.ob("therm/load/branch-rows", "ensures", assum + [bb >= 0, bb < NB],
           K.eq_val(lv.f(NN + bb), bp.f(bb, B_LOAD_VEC_BRANCHES_T)))
    ctx.check_safety(paths, req, "fn", kinds=("tiling", "shape", "mask"))



@unit("C01", "results/dispatch", functions=["pandapipes.pf.result_extraction:extract_all_results"], engine="E1")
def result_dispatch(ctx):
    """extract_all_results hands ONE result dictionary -- built from the pit by get_basic_branch_results (contract: C09
    units basic_results/*; for gases extended by the gas twins, C02 / C07) -- the options and the calculation mode to the
    extract_results of EVERY component, once each, in component order"""
    ctx.assume("A6")
    RX_ = "pandapipes.pf.result_extraction"
    for gas, use_numba in ((False, True), (True, True), (True, False)):
        calls, made = [], {}

        class _Meth:
            def __init__(self, comp):
                self.comp = comp

            def call(self, ev, args, kwargs, lineno):
                calls.append((self.comp, list(args)))
                return None
        comps = []
        for nm in ("c0", "c1", "c2"):
            o = E.Obj(nm, {})
            o.attrs["extract_results"] = _Meth(nm)
            comps.append(o)
        opts = {"use_numba": use_numba}
        net = K.NetObj({"component_list": comps, "_options": opts, "fluid": K.make_fluid(gas),
                        "_pit": {"branch": K.sym_pit("branch_pit", NB, NCB), "node": K.sym_pit("node_pit", NN, NCN)}})

        def c_basic(ev, a, k):
            made["basic"] = {"v_mps": "v", "p_from": "pf", "p_to": "pt", "from_nodes": "fn", "to_nodes": "tn", "dp_frict_loss": K.sym_arr("dpf", NB, "f"),
                             "mf_from": "mf"}
            made["args"] = list(a)
            return made["basic"]
        gas_calls = []

        def c_gas(tag):
            def c(ev, a, k):
                gas_calls.append((tag, list(a)))
                return tuple("g%d" % i for i in range(9))
            return c
        mode = "sequential"
        paths = T.run_paths(ctx, RX_ + ":extract_all_results", lambda: ([net, mode], {}), contracts={
            RX_ + ":get_basic_branch_results": c_basic, RX_ + ":get_branch_results_gas": c_gas("numpy"),
            RX_ + ":get_branch_results_gas_numba": c_gas("numba")})
        tag = ("gas" if gas else "liquid") + ("/numba" if use_numba else "/numpy")
        ok = len(paths) == 1 and paths[0].exc is None
        ctx.decided("%s/single-path" % tag, "cover", ok, witness=str([str(p.exc) for p in paths]))
        if not ok:
            continue
        ctx.decided("%s/every-component-once-in-order" % tag, "ensures", [c[0] for c in calls] == ["c0", "c1", "c2"], witness=str([c[0] for c in calls]))
        ctx.decided("%s/basic-results-from-the-pit" % tag, "ensures",
                    len(made.get("args", [])) == 3 and made["args"][0] is net and made["args"][1] is net.items["_pit"]["branch"]
                    and made["args"][2] is net.items["_pit"]["node"], witness=repr(made.get("args")))
        ctx.decided("%s/same-dictionary-options-and-mode-for-all" % tag, "ensures",
                    all(a[0] is net and a[1] is opts and a[2] is made["basic"] and a[3] == mode for _, a in calls), witness=repr([a[1:] for _, a in calls][:1]))
        if gas:
            ctx.decided("%s/gas-post-processing-by-the-selected-engine" % tag, "ensures",
                        [g[0] for g in gas_calls] == ["numba" if use_numba else "numpy"], witness=str([g[0] for g in gas_calls]))
        else:
            ctx.decided("%s/no-gas-post-processing" % tag, "ensures", not gas_calls, witness=str(gas_calls))
