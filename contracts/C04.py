"""C04 -- exactly the supplied part of the network is calculated, unaffected by the rest.

Engine E3 on the real connectivity code:
  _connectivity                 the edge arrays handed to scipy are the families
                                {(fn b, tn b) | act b} + {(tn b, fn b) | act b and not directed b} + {(N, s) | s slack};
                                with breadth_first_order = reachability (A4):
                                nodes_connected n <=> n reachable from the super node,
                                branches_connected b <=> act b and nodes_connected(fn b)
  perform_connectivity_search   flow/return connecting branches (heat consumers, active flow controllers, pumps)
  check_connectivity            do not connect, but are active iff both ends are supplied; the slack
                                selection (pressure-fixed in-service nodes / temperature-fixed nodes)
  identify_active_nodes_branches  raises PipeflowNotConverged iff no node is supplied; stores the lookups
  reduce_pit                    active pit = compress by the lookups, FROM/TO renumbered by the rank of the node
  extract_results_active_pit    supplied rows copied back from their rank, the others NaN (ambient in heat mode)
"""
import z3

from pvc.harness import unit
from pvc import src as S, kern as K, twin as T, ev as E, solve
from pvc.val import *  # noqa
from pvc import val as V

# property-level native oracle used as the replay of refuted obligations that carry no model-specific replay
FALLBACK_REPLAY = {"handler": "bounded", "input": {"what": "supplied_part", "fixed_on": ["j6", "fci"]},
                   "expected": "pressure results exactly on the junctions an independent search reaches; supplied part = network without the rest"}

PS = "pandapipes.pf.pipeflow_setup"
RX = "pandapipes.pf.result_extraction"
BR = "pandapipes.idx_branch"
ND = "pandapipes.idx_node"
NCB = K.const(BR, "branch_cols")
NCN = K.const(ND, "node_cols")
for _n in ("FROM_NODE", "TO_NODE", "DIRECTED", "ACTIVE", "FLOW_RETURN_CONNECT", "ELEMENT_IDX", "MDOTINIT", "TOUTINIT",
           "TEXT"):
    globals()["B_" + _n] = K.const(BR, _n)
for _n in ("NODE_TYPE", "P", "NODE_TYPE_T", "T", "GE", "ACTIVE", "PINIT", "TINIT", "ELEMENT_IDX"):
    globals()["N_" + _n] = K.const(ND, _n)
INT_B = (B_FROM_NODE, B_TO_NODE, B_DIRECTED, B_ACTIVE, B_FLOW_RETURN_CONNECT)
INT_N = (N_NODE_TYPE, N_NODE_TYPE_T, N_ACTIVE)
NB, NN = z3.Int("NB"), z3.Int("NN")
reach = z3.Function("reachable", z3.IntSort(), z3.BoolSort())


class CooRecorder:
    def __init__(self):
        self.calls = []

    def call(self, ev, args, kwargs, lineno):
        d, (r, c) = args[0]
        self.calls.append((d, r, c, kwargs.get("shape")))
        return ("adjacency", len(self.calls) - 1)


class BFS:
    """scipy.sparse.csgraph.breadth_first_order(adj, start, directed, return_predecessors=False):
    the nodes reachable from `start` along the stored directed edges, each exactly once (A4);
    `reachable` is the spec-level reachability predicate of that edge relation"""

    def call(self, ev, args, kwargs, lineno):
        n = fresh("nreach", "int")
        uf = z3.Function("reach_order!%d" % next(V._counter), z3.IntSort(), z3.IntSort())
        pos = z3.Function("reach_pos!%d" % next(V._counter), z3.IntSort(), z3.IntSort())
        k, x = z3.Int("k!r"), z3.Int("x!r")
        start = args[1]
        ev.path.facts += [n >= 1, reach(V.I(start)),
                          z3.ForAll([k], z3.Implies(z3.And(k >= 0, k < n), reach(uf(k)))),
                          z3.ForAll([x], z3.Implies(reach(x), z3.And(pos(x) >= 0, pos(x) < n, uf(pos(x)) == x)))]
        a = Arr(n, lambda j: uf(V.I(j)), "i")
        a.member_fn = lambda y: reach(V.I(y))
        a.bfs_args = args
        return a


def pits():
    return (K.sym_pit("branch_pit", NB, NCB, int_cols=INT_B), K.sym_pit("node_pit", NN, NCN, int_cols=INT_N))


def base_req(bp):
    i = z3.Int("i!req")
    return [NB >= 0, NN >= 1,
            z3.ForAll([i], z3.Implies(z3.And(i >= 0, i < NB), z3.And(
                V.I(bp.f(i, B_FROM_NODE)) >= 0, V.I(bp.f(i, B_FROM_NODE)) < NN,
                V.I(bp.f(i, B_TO_NODE)) >= 0, V.I(bp.f(i, B_TO_NODE)) < NN)))]


def run_connectivity(ctx, mode="hydraulics"):
    coo, bfs = CooRecorder(), BFS()

    def glob(m, name):
        if name == "coo_matrix":
            return coo
        if name == "csgraph":
            return E.Obj("csgraph", {"breadth_first_order": bfs})
        return None

    def mk():
        del coo.calls[:]
        net = K.NetObj({"_options": {"quit_on_inconsistency_connectivity": False}})
        bp, npit = pits()
        return [net, bp, npit, K.sym_arr("active_branch", NB, "b"), K.sym_arr("active_node", NN, "b"),
                Comp(K.sym_arr("is_slack", NN, "b"), lambda j: j, "i"), mode], {}
    paths = T.run_paths(ctx, PS + ":_connectivity", mk, hooks={"global": glob},
                        contracts={PS + ":get_table_index_list": lambda ev, a, k: []})
    return paths, coo


@unit("C04", "connectivity/edges_and_result", functions=[PS + ":_connectivity"], engine="E3")
def connectivity(ctx):
    ctx.assume("A1", "A4", "A6", "A7")
    paths, coo = run_connectivity(ctx)
    normal = [p for p in paths if p.exc is None]
    ctx.decided("returns", "cover", len(normal) >= 1, witness=str([str(p.exc) for p in paths]))
    ctx.decided("adjacency-built", "cover", len(coo.calls) >= 1, witness="coo_matrix not called")
    if not normal or not coo.calls:
        return
    bp, npit = pits()
    act = K.sym_arr("active_branch", NB, "b")
    slack = K.sym_arr("is_slack", NN, "b")
    fn = lambda b: V.I(bp.f(b, B_FROM_NODE))
    tn = lambda b: V.I(bp.f(b, B_TO_NODE))
    directed = lambda b: V.R(bp.f(b, B_DIRECTED)) != 0
    req = base_req(bp)
    d, r, c, shape = coo.calls[-1]
    p = normal[0]
    assum = req + list(p.facts)
    ok = isinstance(r, ConcatArr) and isinstance(c, ConcatArr) and len(r.parts) == len(c.parts)
    ctx.decided("edges/concatenated-parts", "ensures", ok, witness="%r / %r" % (r, c))
    if ok:
        fams = {
            "forward": (lambda b: B(act.f(b)), lambda b: (fn(b), tn(b)), NB),
            "backward-undirected": (lambda b: z3.And(B(act.f(b)), z3.Not(directed(b))), lambda b: (tn(b), fn(b)), NB),
            "super-node-to-slack": (lambda n: B(slack.f(n)), lambda n: (NN, n), NN),
        }
        matched = {}
        e = z3.Int("e!edge")
        for k, (pr, pc) in enumerate(zip(r.parts, c.parts)):
            for nm, (dom, fun, size) in fams.items():
                if nm in matched.values():
                    continue
                # element functions on the base domain and the selecting mask
                def part_view(pt):
                    if isinstance(pt, Comp):
                        return pt.mask, pt.f
                    if getattr(pt, "const_fill", None) is not None:
                        return None, pt.f
                    return None, pt.f
                mr, fr = part_view(pr)
                mc, fc = part_view(pc)
                mask = mr if mr is not None else mc
                if mask is None:
                    continue
                if mr is not None and mc is not None and mr is not mc:
                    pair = z3.ForAll([e], z3.Implies(z3.And(e >= 0, B(compare("<", e, mr.n))), B(mr.f(e)) == B(mc.f(e))))
                else:
                    pair = z3.BoolVal(True)
                rr, cc = fun(e)
                goal = z3.And(pair,
                              z3.Implies(z3.And(e >= 0, B(compare("<", e, mask.n))), B(mask.f(e)) == dom(e)),
                              z3.Implies(z3.And(e >= 0, B(compare("<", e, mask.n)), B(mask.f(e))),
                                         z3.And(K.eq_val(fr(e), rr), K.eq_val(fc(e), cc))),
                              B(compare("==", mask.n, size)))
                r0 = solve.prove(assum, goal, timeout_ms=4000, use_cvc5=False, rlimit=6000000, quick=True)
                if r0["verdict"] == "proved":
                    matched[k] = nm
                    ctx.ob("edges/family/%s" % nm, "family", assum, goal)
                    break
        for nm in fams:
            ctx.decided("edges/family/%s/present" % nm, "family", nm in matched.values(),
                        witness="edge family %s is not among the concatenated parts (matched %s)" % (nm, matched))
        ctx.decided("edges/no-other-part", "family", len(matched) == len(r.parts),
                    witness="%d parts, %d matched" % (len(r.parts), len(matched)))
    # result: the BFS starts at the super node and its result determines the lookups
    n, b = z3.Int("n!q"), z3.Int("b!q")
    for kx, p in enumerate(normal):
        nc, bc = p.result
        a = req + list(p.facts) + [p.cond()]
        ctx.ob("result/nodes-connected-iff-reachable#%d" % kx, "ensures", a + [n >= 0, n < NN],
               B(nc.f(n)) == reach(n))
        ctx.ob("result/branches-connected#%d" % kx, "ensures", a + [b >= 0, b < NB],
               B(bc.f(b)) == z3.And(B(act.f(b)), reach(fn(b))))
    for p in paths:
        if p.exc is not None:
            ctx.decided("raises/only-internal-errors", "ensures", p.exc.cls in ("ValueError",),
                        witness="raises %s" % p.exc.cls)


@unit("C04", "connectivity/search", functions=[PS + ":perform_connectivity_search", PS + ":check_connectivity"],
      engine="E3")
def search(ctx):
    ctx.assume("A1", "A4", "A6")
    rec = {}

    def c_conn(ev, args, kwargs):
        net, bp, npit, abl, anl, slacks, mode = args
        rec["abl"], rec["slacks"], rec["mode"] = abl, slacks, mode
        return K.sym_arr("nodes_connected!res", NN, "b"), K.sym_arr("branches_connected!res", NB, "b")
    for mode in ("hydraulics", "heat_transfer"):
        def mk():
            bp, npit = pits()
            return [K.NetObj({}), bp, npit, K.sym_arr("branches_in", NB, "b"), K.sym_arr("nodes_in", NN, "b")], {"mode": mode}
        paths = T.run_paths(ctx, PS + ":check_connectivity", mk, contracts={PS + ":_connectivity": c_conn})
        ok = len(paths) == 1 and paths[0].exc is None
        ctx.decided("%s/single-path" % mode, "cover", ok, witness=str([str(p.exc) for p in paths]))
        if not ok:
            continue
        p = paths[0]
        bp, npit = pits()
        bin_, nin = K.sym_arr("branches_in", NB, "b"), K.sym_arr("nodes_in", NN, "b")
        ncr, bcr = K.sym_arr("nodes_connected!res", NN, "b"), K.sym_arr("branches_connected!res", NB, "b")
        n, b = z3.Int("n!q"), z3.Int("b!q")
        req = base_req(bp)
        sl = rec["slacks"]
        if mode == "hydraulics":
            want = z3.And(V.I(npit.f(n, N_NODE_TYPE)) == N_P, B(nin.f(n)))
        else:
            want = z3.And(z3.Or(V.I(npit.f(n, N_NODE_TYPE_T)) == N_T, V.I(npit.f(n, N_NODE_TYPE_T)) == N_GE), B(nin.f(n)))
        ctx.decided("%s/slacks-are-a-selection" % mode, "ensures", isinstance(sl, Comp), witness=repr(sl))
        if isinstance(sl, Comp):
            ctx.ob("%s/slack-selection" % mode, "ensures", req + [n >= 0, n < NN],
                   z3.And(B(sl.mask.f(n)) == want, K.eq_val(sl.f(n), n)))
        connect = V.R(bp.f(b, B_FLOW_RETURN_CONNECT)) != 0
        if mode == "hydraulics":
            ctx.ob("%s/searched-branches-exclude-flow-return-connectors" % mode, "ensures", req + [b >= 0, b < NB],
                   B(rec["abl"].f(b)) == z3.And(B(bin_.f(b)), z3.Not(connect)))
            fn = V.I(bp.f(b, B_FROM_NODE))
            tn = V.I(bp.f(b, B_TO_NODE))
            act = V.R(bp.f(b, B_ACTIVE)) != 0
            ctx.ob("%s/connector-active-iff-both-ends-supplied" % mode, "ensures", req + [b >= 0, b < NB],
                   B(p.result[1].f(b)) == z3.Or(B(bcr.f(b)), z3.And(connect, act, B(ncr.f(fn)), B(ncr.f(tn)))))
        else:
            ctx.ob("%s/searched-branches" % mode, "ensures", req + [b >= 0, b < NB], B(rec["abl"].f(b)) == B(bin_.f(b)))
            ctx.ob("%s/branches-result" % mode, "ensures", req + [b >= 0, b < NB], B(p.result[1].f(b)) == B(bcr.f(b)))
        ctx.ob("%s/nodes-result" % mode, "ensures", req + [n >= 0, n < NN], B(p.result[0].f(n)) == B(ncr.f(n)))


@unit("C04", "identify_active", functions=[PS + ":identify_active_nodes_branches"], engine="E3")
def identify_active(ctx):
    ctx.assume("A1", "A4", "A6")
    for hydraulic in (True, False):
        for check in (True, False):
            tag = "%s/check=%s" % ("hydraulic" if hydraulic else "heat", check)

            def c_check(ev, args, kwargs):
                return K.sym_arr("nc!res", NN, "b"), K.sym_arr("bc!res", NB, "b")

            def mk():
                bp, npit = pits()
                net = K.NetObj({"_pit": {"node": npit, "branch": bp}, "_options": {"check_connectivity": check},
                                "_lookups": {"node_active_hydraulics": K.sym_arr("nc_hyd", NN, "b"),
                                             "branch_active_hydraulics": K.sym_arr("bc_hyd", NB, "b")}})
                return [net, hydraulic], {}
            paths = T.run_paths(ctx, PS + ":identify_active_nodes_branches", mk,
                                contracts={PS + ":check_connectivity": c_check})
            bp, npit = pits()
            if check:
                nc, bc = K.sym_arr("nc!res", NN, "b"), K.sym_arr("bc!res", NB, "b")
            elif hydraulic:
                nc = Arr(NN, lambda j: V.R(npit.f(j, N_ACTIVE)) != 0, "b")
                bc = Arr(NB, lambda j: V.R(bp.f(j, B_ACTIVE)) != 0, "b")
            else:
                nc, bc = K.sym_arr("nc_hyd", NN, "b"), K.sym_arr("bc_hyd", NB, "b")
            n = z3.Int("n!q")
            none = z3.ForAll([n], z3.Implies(z3.And(n >= 0, n < NN), z3.Not(B(nc.f(n)))))
            normal = [p for p in paths if p.exc is None]
            raising = [p for p in paths if p.exc is not None]
            ctx.decided("%s/two-outcomes" % tag, "cover", len(normal) >= 1 and len(raising) >= 1,
                        witness="%d normal, %d raising" % (len(normal), len(raising)))
            for kx, p in enumerate(raising):
                ctx.decided("%s/raises-PipeflowNotConverged#%d" % (tag, kx), "ensures",
                            p.exc.cls == "PipeflowNotConverged", witness=p.exc.cls)
                ctx.ob("%s/raises-only-if-nothing-supplied#%d" % (tag, kx), "ensures", [NN >= 1, p.cond()] + list(p.facts), none)
            key = "hydraulics" if hydraulic else "heat_transfer"
            for kx, p in enumerate(normal):
                ctx.ob("%s/returns-only-if-something-supplied#%d" % (tag, kx), "ensures", [NN >= 1, p.cond()] + list(p.facts),
                       z3.Not(none))
                lk = p.args[0][0].items["_lookups"]
                got_n, got_b = lk.get("node_active_" + key), lk.get("branch_active_" + key)
                ok = is_array(got_n) and is_array(got_b)
                ctx.decided("%s/stores-lookups#%d" % (tag, kx), "ensures", ok, witness="%r %r" % (got_n, got_b))
                if ok:
                    b = z3.Int("b!q")
                    ctx.ob("%s/lookup-values#%d" % (tag, kx), "ensures", [NN >= 1, NB >= 0, n >= 0, n < NN, b >= 0, b < NB, p.cond()],
                           z3.And(B(got_n.f(n)) == B(nc.f(n)), B(got_b.f(b)) == B(bc.f(b))))


# ---------------------------------------------------------------------------------------------
# reduce_pit / extract_results_active_pit

def rank_of(mask):
    return z3.Function("rank!%s" % V.sel_fn(mask).name(), z3.IntSort(), z3.IntSort())


def reduce_world(mode="hydraulics"):
    NLJ, NLP = z3.Int("NLJ"), z3.Int("NLP")
    bp, npit = pits()
    net = K.NetObj({
        "_pit": {"node": npit, "branch": bp},
        "_old_pit": {"node": K.sym_pit("old_node_pit", NN, 1), "branch": K.sym_pit("old_branch_pit", NB, 1)},
        "_options": {"ambient_temperature": z3.Real("amb")},
        "_lookups": {"node_active_" + mode: K.sym_arr("nc", NN, "b"), "branch_active_" + mode: K.sym_arr("bc", NB, "b"),
                     "node_index": {"junction": K.sym_arr("junction_lookup", NLJ, "i")},
                     "branch_index": {"pipe": K.sym_arr("pipe_lookup", NLP, "i")},
                     "node_from_to": {"junction": (0, NN)}, "branch_from_to": {"pipe": (0, NB)},
                     "node_table": {"n2t": {0: "junction"}, "t2n": {"junction": 0}},
                     "branch_table": {"n2t": {0: "pipe"}, "t2n": {"pipe": 0}}}})
    return net


@unit("C04", "reduce_pit", functions=[PS + ":reduce_pit", PS + ":reduce_lookups", PS + ":copy_lookups"], engine="E3")
def reduce_pit(ctx):
    ctx.assume("A1", "A4", "A6", "A7")
    paths = T.run_paths(ctx, PS + ":reduce_pit", lambda: ([reduce_world()], {"mode": "hydraulics"}))
    normal = [p for p in paths if p.exc is None]
    ctx.decided("returns", "cover", len(normal) >= 2 and len(normal) == len(paths), witness=str([str(p.exc) for p in paths]))
    bp, npit = pits()
    k, c = z3.Int("k!row"), z3.Int("c!col")
    for kx, p in enumerate(normal):
        net = p.args[0][0]
        nc, bc = net.items["_lookups"]["node_active_hydraulics"], net.items["_lookups"]["branch_active_hydraulics"]
        act = net.items.get("_active_pit")
        ok = isinstance(act, dict) and isinstance(act.get("node"), Pit) and isinstance(act.get("branch"), Pit)
        ctx.decided("stores-active-pit#%d" % kx, "ensures", ok, witness=repr(act))
        if not ok:
            continue
        an, ab = act["node"], act["branch"]
        seln, selb = V.sel_fn(nc), V.sel_fn(bc)
        rank_n = rank_of(nc)
        i = z3.Int("i!req")
        # precondition established by the connectivity search: an active branch has supplied end nodes
        pre = base_req(bp) + [z3.ForAll([i], z3.Implies(z3.And(i >= 0, i < NB, B(bc.f(i))), z3.And(
            B(nc.f(V.I(bp.f(i, B_FROM_NODE)))), B(nc.f(V.I(bp.f(i, B_TO_NODE)))))))]
        a = pre + list(p.facts) + V.sel_axioms(nc) + V.sel_axioms(bc) + [p.cond()]
        cn, cb = V.count_term(nc), V.count_term(bc)
        ctx.ob("node-rows#%d" % kx, "ensures", a + [k >= 0, k < cn, c >= 0, c < NCN],
               z3.And(B(compare("==", an.n, cn)), K.eq_val(an.f(k, c), npit.f(seln(k), c))))
        ctx.ob("branch-rows#%d" % kx, "ensures", a + [k >= 0, k < cb, c >= 0, c < NCB, c != B_FROM_NODE, c != B_TO_NODE],
               z3.And(B(compare("==", ab.n, cb)), K.eq_val(ab.f(k, c), bp.f(selb(k), c))))
        for nm, col in (("FROM_NODE", B_FROM_NODE), ("TO_NODE", B_TO_NODE)):
            ctx.ob("branch-%s-renumbered#%d" % (nm, kx), "ensures", a + [k >= 0, k < cb],
                   K.eq_val(ab.f(k, col), rank_n(V.I(bp.f(selb(k), col)))))
        # frame: the full pit is not modified
        q = z3.Int("q!row")
        ctx.ob("frame-full-pit#%d" % kx, "frame", a + [q >= 0, q < NN, c >= 0, c < NCN],
               K.eq_val(net.items["_pit"]["node"].f(q, c), npit.f(q, c)))
    ctx.check_safety(paths, base_req(bp), "fn", kinds=("shape", "tiling"))


@unit("C04", "extract_results_active_pit", functions=[RX + ":extract_results_active_pit"], engine="E3")
def extract_active(ctx):
    ctx.assume("A1", "A4", "A6", "A7")
    for mode, ncol, bcol in (("hydraulics", N_PINIT, B_MDOTINIT), ("heat_transfer", N_TINIT, B_TOUTINIT)):
        def mk():
            net = reduce_world(mode)
            nc, bc = net.items["_lookups"]["node_active_" + mode], net.items["_lookups"]["branch_active_" + mode]
            net.items["_active_pit"] = {"node": K.sym_pit("active_node_pit", V.count_term(nc), NCN),
                                        "branch": K.sym_pit("active_branch_pit", V.count_term(bc), NCB)}
            return [net], {"mode": mode}
        paths = T.run_paths(ctx, RX + ":extract_results_active_pit", mk)
        ok = len(paths) == 1 and paths[0].exc is None
        ctx.decided("%s/single-path" % mode, "cover", ok, witness=str([str(p.exc) for p in paths]))
        if not ok:
            continue
        p = paths[0]
        net = p.args[0][0]
        nc, bc = net.items["_lookups"]["node_active_" + mode], net.items["_lookups"]["branch_active_" + mode]
        bp, npit = pits()
        an = K.sym_pit("active_node_pit", V.count_term(nc), NCN)
        ab = K.sym_pit("active_branch_pit", V.count_term(bc), NCB)
        rank_n, rank_b = rank_of(nc), rank_of(bc)
        fn_, fb_ = net.items["_pit"]["node"], net.items["_pit"]["branch"]
        n, b = z3.Int("n!q"), z3.Int("b!q")
        a = [NN >= 1, NB >= 0] + list(p.facts) + V.sel_axioms(nc) + V.sel_axioms(bc) + [p.cond()]
        amb = z3.Real("amb")
        # supplied rows: result copied back from the row's rank in the active pit
        ctx.ob("%s/node-result-copied-back" % mode, "ensures", a + [n >= 0, n < NN, B(nc.f(n))],
               K.eq_val(fn_.f(n, ncol), an.f(rank_n(n), ncol)))
        ctx.ob("%s/branch-result-copied-back" % mode, "ensures", a + [b >= 0, b < NB, B(bc.f(b))],
               K.eq_val(fb_.f(b, bcol), ab.f(rank_b(b), bcol)))
        # unsupplied rows: NaN (hydraulics) / ambient (heat)
        vn = fn_.f(n, ncol)
        if mode == "hydraulics":
            ctx.ob("%s/unsupplied-node-is-nan" % mode, "ensures", a + [n >= 0, n < NN, z3.Not(B(nc.f(n)))],
                   B(nan_of(vn)) if nan_of(vn) is not False else z3.BoolVal(False))
            vb = fb_.f(b, bcol)
            ctx.ob("%s/unsupplied-branch-is-nan" % mode, "ensures", a + [b >= 0, b < NB, z3.Not(B(bc.f(b)))],
                   B(nan_of(vb)) if nan_of(vb) is not False else z3.BoolVal(False))
        else:
            ctx.ob("%s/unsupplied-node-is-ambient" % mode, "ensures", a + [n >= 0, n < NN, z3.Not(B(nc.f(n)))],
                   K.eq_val(vn, amb))
            ctx.ob("%s/unsupplied-branch-is-surrounding-temperature" % mode, "ensures", a + [b >= 0, b < NB, z3.Not(B(bc.f(b)))],
                   K.eq_val(fb_.f(b, bcol), bp.f(b, B_TEXT)))
        # the other stage's unknown and the topology columns are not touched
        other_n = N_TINIT if mode == "hydraulics" else N_PINIT
        ctx.ob("%s/frame/other-node-unknown" % mode, "frame", a + [n >= 0, n < NN], K.eq_val(fn_.f(n, other_n), npit.f(n, other_n)))
        for nm, col in (("FROM_NODE", B_FROM_NODE), ("TO_NODE", B_TO_NODE)):
            ctx.ob("%s/frame/%s" % (mode, nm), "frame", a + [b >= 0, b < NB], K.eq_val(fb_.f(b, col), bp.f(b, col)))
        ctx.check_safety(paths, [NN >= 1, NB >= 0], mode + "/fn", kinds=("shape",))


# ---------------------------------------------------------------------------------------------
# which branches do NOT connect hydraulically (FLOW_RETURN_CONNECT): every heat consumer, every flow controller
# with control_active, nothing else -- the set of writers of the column is closed

@unit("C04", "connecting_flags", functions=["pandapipes.component_models.heat_consumer_component:HeatConsumer.create_pit_branch_entries",
                                            "pandapipes.component_models.flow_control_component:FlowControlComponent.create_pit_branch_entries",
                                            "pandapipes.component_models.abstract_models.branch_models:BranchComponent.create_pit_branch_entries"],
      engine="E2")
def connecting_flags(ctx):
    ctx.assume("A1", "A4", "A6")
    import ast
    import os
    from contracts.C11 import consumer_entries_obligations
    consumer_entries_obligations(ctx, ("FLOW_RETURN_CONNECT",))
    from contracts.C03 import flow_control_entries
    # (the flow controller's flag: control_active ? 1 : default -- proved by the C03 unit, re-run here under this property)
    sub = type(ctx)(ctx.prop, ctx.unit + "/flow_control", ctx.tier, ctx.seed, ctx.known)
    flow_control_entries(sub)
    for o in sub.obs:
        if "active-controller-does-not-connect" in o["id"] or o["kind"] == "cover":
            ctx.obs.append(o)
    # closed writer set
    writers = {}
    root = os.path.join(S.REPO, "src", "pandapipes")
    for dp, _, files in os.walk(root):
        if "/test" in dp:
            continue
        for fn_ in files:
            if not fn_.endswith(".py"):
                continue
            tree = ast.parse(open(os.path.join(dp, fn_)).read())
            for cls in [x for x in ast.walk(tree) if isinstance(x, ast.ClassDef)]:
                for fdef in [x for x in cls.body if isinstance(x, ast.FunctionDef)]:
                    for st in ast.walk(fdef):
                        tg = st.targets if isinstance(st, ast.Assign) else ([st.target] if isinstance(st, ast.AugAssign) else [])
                        for t_ in tg:
                            if isinstance(t_, ast.Subscript) and "FLOW_RETURN_CONNECT" in ast.unparse(t_.slice):
                                writers.setdefault("%s.%s" % (cls.name, fdef.name), []).append(ast.unparse(st))
    expected = {"BranchComponent.create_pit_branch_entries", "HeatConsumer.create_pit_branch_entries",
                "FlowControlComponent.create_pit_branch_entries"}
    ctx.decided("writers-of-the-flag-are-exactly-base-consumer-controller", "frame", set(writers) == expected,
                witness="writers: %s" % {k: v for k, v in writers.items()})


@unit("C04", "bounded/valve_internal_nodes", functions=["pandapipes.component_models.valve_component:Valve.get_internal_node_number"],
      engine="bounded")
def valve_internal_nodes_c04(ctx):
    """the edges of pipe-attached valves (junction -- internal node) enter the connectivity search through this wiring"""
    from contracts.C06 import valve_internal_nodes_bounded
    valve_internal_nodes_bounded(ctx)


@unit("C04", "component_array", functions=["pandapipes.component_models.component_toolbox:get_component_array"], engine="E3")
def component_array_c04(ctx):
    """the per-component arrays follow the ACTIVE part of the stage they are used in (hydraulic vs thermal connectivity):
    shared with C03"""
    from contracts.C03 import component_array
    component_array(ctx)


@unit("C04", "fixing_rows/ext_grid", functions=["pandapipes.component_models.ext_grid_component:ExtGrid.create_pit_node_entries"], engine="E3")
def fixing_rows_ext_grid_c04(ctx):
    """only IN-SERVICE pressure-fixing elements make a junction a root of the connectivity search (shared with C03)"""
    from contracts.C03 import fixing_rows_ext_grid
    fixing_rows_ext_grid(ctx)


@unit("C04", "fixing_rows/circ_pump", functions=["pandapipes.component_models.abstract_models.circulation_pump:CirculationPump.create_pit_node_entries"],
      engine="E3")
def fixing_rows_circ_pump_c04(ctx):
    from contracts.C03 import fixing_rows_circ_pump
    fixing_rows_circ_pump(ctx)



@unit("C04", "bounded/supplied_part", functions=["pandapipes.pipeflow:pipeflow", "pandapipes.pf.pipeflow_setup:identify_active_nodes_branches"],
      engine="bounded")
def supplied_part_bounded(ctx):
    """property-level bounded stand-in (and the fallback replay of this property's refuted obligations)"""
    from pvc.harness import venv_run
    inp = {"what": "supplied_part", "fixed_on": [] if ctx.tier == "thorough" else ["j6", "fci"]}
    res = venv_run("bounded.py", inp, timeout=3000)
    ctx.bounded("pressure-results-exactly-on-the-supplied-junctions", res["ok"],
                "one water network (9 junctions with unsorted labels, 5 pipes, pipe-attached and junction valve, flow controller, heat "
                "consumer as the only link to a junction, pressure controller with an unsupplied inlet, 3 ext grids incl. a temperature-only "
                "one, sinks everywhere): %s in_service / opened / control_active patterns with consistent junction flags; NaN pattern against "
                "an independent search over the element tables, every 4th pattern also against the network rebuilt without the "
                "unsupplied part, no supplied junction => PipeflowNotConverged, every pattern with a supplied part must converge"
                % ("all 256" if ctx.tier == "thorough" else "64 (junction 8 and the flow controller in service)"),
                res["cases"], witness=res["witness"], replay={"handler": "bounded", "input": inp} if not res["ok"] else None)
