"""C13 -- each time-series step equals a stand-alone calculation with that step's inputs.

Only the glue that pandapipes owns is put under contract (engine E1): the run function and the
error classes handed to pandapower's loop, the handling of a diverged step, and the step loop
`run_loop` (one `run_time_step` call per time step, in order, carrying no state but the net).
The rest of the property is delegated: pandapower's `run_time_step` / `run_control` (assumed
contract: apply the step's controller values, call `run`, treat the classes in `errors` as
divergence), and pipeflow being a function of the non-underscore net entries that raises on
divergence (C12, C05).  The composition is written out in DESIGN.md, not mechanised."""
import ast
import z3

from pvc.harness import unit
from pvc import src as S, kern as K, twin as T, ev as E
from pvc.val import *  # noqa

TS = "pandapipes.timeseries.run_time_series"
RCT = "pandapipes.control.run_control"
MTS = "pandapipes.multinet.timeseries.run_time_series_multinet"
MRC = "pandapipes.multinet.control.run_control_multinet"


class Recorder:
    def __init__(self, name, ret=None):
        self.name = name
        self.calls = []
        self.ret = ret

    def call(self, ev, args, kwargs, lineno):
        self.calls.append((list(args), dict(kwargs)))
        return self.ret(args, kwargs) if callable(self.ret) else self.ret


def ext(mapping):
    """hook resolving names imported from pandapower to recording stand-ins"""
    def glob(module, name):
        return mapping.get(name)
    return glob


@unit("C13", "init_time_series", functions=[TS + ":init_time_series"], engine="E1")
def init_time_series(ctx):
    ctx.assume("A4", "A6")
    for variant in ("default-run", "user-run"):
        pp_init = Recorder("init_time_series_pp", ret=lambda a, k: {"run": k.get("run"), "errors": ()})
        user_run = E.Opaque("user_run_function")

        def mk():
            kw = {"run": user_run} if variant == "user-run" else {}
            return [K.NetObj({}), [0, 1, 2], z3.Bool("continue_on_divergence"), z3.Bool("verbose")], kw
        paths = T.run_paths(ctx, TS + ":init_time_series", mk,
                            hooks={"global": ext({"init_time_series_pp": pp_init})},
                            contracts={TS + ":init_default_outputwriter": lambda ev, a, k: None})
        ctx.decided("%s/single-path" % variant, "cover", len(paths) == 1 and paths[0].exc is None,
                    witness=str([str(p.exc) for p in paths]))
        if not paths or paths[0].exc is not None:
            continue
        res = paths[0].result
        calls = pp_init.calls
        ctx.decided("%s/delegates-once" % variant, "ensures", len(calls) == 1, witness="%d calls" % len(calls))
        if calls:
            a, k = calls[-1]
            run = k.get("run")
            if variant == "default-run":
                ok = isinstance(run, S.FunctionRef) and run.key == "pandapipes.pipeflow:pipeflow"
            else:
                ok = run is user_run
            ctx.decided("%s/run-function" % variant, "ensures", ok, witness="run = %r" % (run,))
            ctx.decided("%s/continue_on_divergence-forwarded" % variant, "ensures",
                        (len(a) >= 3 and is_z3(a[2]) and a[2].eq(z3.Bool("continue_on_divergence"))) or
                        (is_z3(k.get("continue_on_divergence")) and k.get("continue_on_divergence").eq(z3.Bool("continue_on_divergence"))),
                        witness="positional args %r" % (a,))
            ctx.decided("%s/verbose-forwarded-in-its-own-position" % variant, "ensures",
                        (len(a) >= 4 and is_z3(a[3]) and a[3].eq(z3.Bool("verbose"))) or
                        (is_z3(k.get("verbose")) and k.get("verbose").eq(z3.Bool("verbose"))),
                        witness="positional args %r, keywords %r" % (a, sorted(k)))
            ctx.decided("%s/time_steps-forwarded" % variant, "ensures", len(a) >= 2 and a[1] == [0, 1, 2],
                        witness="positional args %r" % (a,))
        errs = res.get("errors") if isinstance(res, dict) else None
        names = [getattr(e, "name", None) for e in (errs or ())]
        ctx.decided("%s/errors-contain-PipeflowNotConverged" % variant, "ensures",
                    "PipeflowNotConverged" in names, witness="errors = %r" % (errs,))
        ctx.decided("%s/errors-is-tuple" % variant, "ensures", isinstance(errs, tuple), witness=repr(type(errs)))


@unit("C13", "pf_not_converged", functions=[TS + ":pf_not_converged"], engine="E1")
def pf_not_converged(ctx):
    ctx.assume("A6")
    cod = z3.Bool("continue_on_divergence")
    paths = T.run_paths(ctx, TS + ":pf_not_converged",
                        lambda: ([z3.Int("t"), {"continue_on_divergence": cod}], {}))
    g = []
    for p in paths:
        if p.exc is None:
            g.append(z3.Implies(p.cond(), cod))
        else:
            g.append(z3.Implies(p.cond(), z3.And(z3.Not(cod), z3.BoolVal(p.exc.cls == "PipeflowNotConverged"))))
    ctx.decided("two-outcomes", "cover", len(paths) == 2, witness="%d paths" % len(paths))
    ctx.ob("raises-iff-not-continue", "ensures", [], z3.And(*g))


def _run_loop(ctx, transient):
    ctx.assume("A6")
    rts = Recorder("run_time_step")
    steps = [z3.Int("t0"), z3.Int("t1"), z3.Int("t2")]
    net = K.NetObj({})
    tsv = {"time_steps": steps, "verbose": False}
    rc, ow = E.Opaque("run_control_fct"), E.Opaque("output_writer_fct")

    def mk():
        del rts.calls[:]
        kw = {"transient": True} if transient else {}
        return [net, tsv, rc, ow], kw
    paths = T.run_paths(ctx, TS + ":run_loop", mk,
                        hooks={"global": ext({"run_time_step": rts, "print_progress": Recorder("pp")})})
    tag = "transient" if transient else "steady"
    ctx.decided("%s/single-path" % tag, "cover", len(paths) == 1 and paths[0].exc is None,
                witness=str([str(p.exc) for p in paths]))
    calls = rts.calls
    ctx.decided("%s/one-call-per-step" % tag, "ensures", len(calls) == len(steps),
                witness="%d calls for %d steps" % (len(calls), len(steps)))
    for i, (a, k) in enumerate(calls[:len(steps)]):
        ctx.decided("%s/call#%d/net-and-step" % (tag, i), "ensures",
                    len(a) >= 2 and a[0] is net and is_z3(a[1]) and a[1].eq(steps[i]),
                    witness="call %d got %r" % (i, a[:2]))
        ctx.decided("%s/call#%d/ts_variables-and-functions" % (tag, i), "ensures",
                    len(a) >= 5 and a[2] is tsv and a[3] is rc and a[4] is ow, witness=repr(a[2:]))
        extra = {kk: v for kk, v in k.items()}
        if transient:
            ok = extra == {"transient": True, "simulation_time_step": i}
        else:
            ok = extra == {}
        ctx.decided("%s/call#%d/no-carried-state" % (tag, i), "ensures", ok,
                    witness="keyword arguments %r" % (extra,))
    # unbounded argument: the loop body is one unconditional call with the loop element
    f = S.get_function(TS + ":run_loop")
    loops = [n for n in f.node.body if isinstance(n, ast.For)]
    ok = len(loops) == 1 and ast.unparse(loops[0].iter) == "enumerate(ts_variables['time_steps'])"
    ctx.structural("%s/structure/iterates-time_steps" % tag, "ensures", ok,
                witness=ast.unparse(loops[0].iter) if loops else "no loop")
    if loops:
        body = loops[0].body
        calls_in_body = [st for st in body if isinstance(st, ast.Expr) and isinstance(st.value, ast.Call)
                         and ast.unparse(st.value.func) == "run_time_step"]
        ctx.structural("%s/structure/unconditional-single-call" % tag, "ensures", len(calls_in_body) == 1,
                    witness="%d top-level run_time_step calls in the loop body" % len(calls_in_body))
        nested = [n for st in body for n in ast.walk(st) if isinstance(n, ast.Call) and
                  ast.unparse(n.func) == "run_time_step"]
        ctx.structural("%s/structure/no-other-call" % tag, "ensures", len(nested) == 1, witness=str(len(nested)))
        brk = [n for st in body for n in ast.walk(st) if isinstance(n, (ast.Break, ast.Continue, ast.Return))]
        ctx.structural("%s/structure/no-early-exit" % tag, "ensures", not brk, witness=str(len(brk)))


@unit("C13", "run_loop", functions=[TS + ":run_loop"], engine="E1")
def run_loop(ctx):
    _run_loop(ctx, False)
    _run_loop(ctx, True)


@unit("C13", "prepare_run_ctrl", functions=[RCT + ":prepare_run_ctrl", RCT + ":run_control"], engine="E1")
def prepare_run_ctrl(ctx):
    ctx.assume("A4", "A6")
    prep = Recorder("prepare_run_control_pandapower", ret=lambda a, k: {"run": "pandapower-default", "errors": ()})
    for variant in ("none", "given"):
        given = {"run": "user", "errors": ("x",)}

        def mk():
            return [K.NetObj({}), None if variant == "none" else dict(given)], {}
        paths = T.run_paths(ctx, RCT + ":prepare_run_ctrl", mk,
                            hooks={"global": ext({"prepare_run_control_pandapower": prep})})
        ctx.decided("%s/single-path" % variant, "cover", len(paths) == 1 and paths[0].exc is None,
                    witness=str([str(p.exc) for p in paths]))
        if not paths or paths[0].exc is not None:
            continue
        res = paths[0].result
        errs = res.get("errors")
        ctx.decided("%s/errors" % variant, "ensures", isinstance(errs, tuple) and
                    [getattr(e, "name", None) for e in errs] == ["PipeflowNotConverged"],
                    witness="errors = %r" % (errs,))
        run = res.get("run")
        if variant == "none":
            ok = isinstance(run, S.FunctionRef) and run.key == "pandapipes.pipeflow:pipeflow"
        else:
            ok = run == "user"
        ctx.decided("%s/run" % variant, "ensures", ok, witness="run = %r" % (run,))
    # run_control delegates to pandapower's loop with these control variables
    rcp = Recorder("run_control_pandapower")
    paths = T.run_paths(ctx, RCT + ":run_control", lambda: ([K.NetObj({})], {}),
                        hooks={"global": ext({"run_control_pandapower": rcp,
                                              "prepare_run_control_pandapower": prep})})
    ok = len(rcp.calls) == 1 and isinstance(rcp.calls[0][1].get("ctrl_variables"), dict) and \
        [getattr(e, "name", None) for e in rcp.calls[0][1]["ctrl_variables"].get("errors", ())] == ["PipeflowNotConverged"]
    ctx.decided("run_control/delegates-with-pipeflow-errors", "ensures", ok, witness=repr(rcp.calls)[:200])
    # control variables supplied by the caller (the time-series loop hands in its ts_variables) reach
    # pandapower's loop as the same object with their error classes untouched
    rcp2 = Recorder("run_control_pandapower")
    given = {"run": "user", "errors": ("PipeflowNotConverged", "NetCalculationNotConverged"), "other": 1}
    paths = T.run_paths(ctx, RCT + ":run_control", lambda: ([K.NetObj({})], {"ctrl_variables": given}),
                        hooks={"global": ext({"run_control_pandapower": rcp2,
                                              "prepare_run_control_pandapower": prep})})
    got = rcp2.calls[0][1].get("ctrl_variables") if rcp2.calls else None
    ctx.decided("run_control/given-variables-forwarded", "ensures", got is given, witness=repr(got)[:200])
    ctx.decided("run_control/given-error-classes-untouched", "ensures",
                given.get("errors") == ("PipeflowNotConverged", "NetCalculationNotConverged") and
                given.get("run") == "user" and given.get("other") == 1,
                witness="caller's control variables after the call: %r" % (given,))
    ctx.decided("run_control/max_iter-forwarded", "ensures",
                len(rcp.calls) == 1 and rcp.calls[0][1].get("max_iter") == 30, witness=repr(rcp.calls)[:200])


@unit("C13", "multinet_glue", functions=[MTS + ":run_timeseries", MTS + ":_call_output_writer"], engine="E1")
def multinet_glue(ctx):
    """the multi-energy time series uses the same step loop with the multinet control function and
    writes the outputs of every member net"""
    f = S.get_function(MTS + ":run_timeseries")
    calls = [n for n in ast.walk(f.node) if isinstance(n, ast.Call) and ast.unparse(n.func) == "run_loop"]
    ok = len(calls) == 1 and [ast.unparse(a) for a in calls[0].args] == \
        ["multinet", "ts_variables", "run_control", "_call_output_writer"]
    ctx.decided("run_timeseries/uses-run_loop", "ensures", ok,
                witness=[ast.unparse(c) for c in calls])
    mi = S.get_module(MTS)
    kind, ref = S.resolve_import(mi, "run_loop")
    ctx.decided("run_loop-is-the-pandapipes-loop", "ensures", kind == "function" and ref.key == TS + ":run_loop",
                witness="%s %r" % (kind, ref))
    kind, ref = S.resolve_import(mi, "run_control")
    ctx.decided("run_control-is-the-multinet-one", "ensures", kind == "function" and ref.key == MRC + ":run_control",
                witness="%s %r" % (kind, ref))
    g = S.get_function(MTS + ":_call_output_writer")
    loops = [n for n in g.node.body if isinstance(n, ast.For)]
    ok = len(loops) == 1 and ast.unparse(loops[0].iter) == "multinet['nets'].keys()" and \
        any(isinstance(n, ast.Call) and ast.unparse(n.func) == "output_writer_routine" for n in ast.walk(loops[0]))
    ctx.decided("_call_output_writer/every-net", "ensures", ok, witness=ast.unparse(g.node)[-200:])


# ---------------------------------------------------------------------------------------------
# what the time-series loop relies on from pipeflow(): a failed step is signalled (PipeflowNotConverged, converged False)
# before anything else happens -- shared with C05

for _mode in ("hydraulics", "sequential"):
    def _mk13(mode=_mode):
        @unit("C13", "pipeflow_signals_failure/%s" % mode, functions=["pandapipes.pipeflow:pipeflow"], engine="E1")
        def _u(ctx):
            from contracts.C05 import _pipeflow_unit
            _pipeflow_unit(ctx, mode)
    _mk13()
