"""C12 -- pipeflow is a pure, repeatable function of the network description.

Engine E4 (pvc/frames.py): frame / alias obligations for every write site of the pipeflow call
closure, stale-read obligations along pipeflow() for every read of an underscore key, and a scan
for nondeterminism sources.  Permitted writes of a calculation: net['_...'], net['res_...'],
net.converged and the bookkeeping key user_pf_options['hyd_flag'] (the key the property's anchors
name).  Not permitted: any element table or column buffer, net.fluid, net.std_types, module-level
option dictionaries, other keys of user_pf_options."""
import ast

from pvc.harness import unit
from pvc import src as S
from pvc import frames as F

# property-level native oracle used as the replay of refuted obligations that carry no model-specific replay
FALLBACK_REPLAY = {"handler": "purity_any", "input": {},
                   "expected": "pipeflow leaves every non-underscore, non-result entry bit-identical; a history of calls gives the results of a fresh net"}

PF = "pandapipes.pipeflow"


def analyse():
    a = F.Analyzer()
    cl = a.run([PF + ":pipeflow"])
    return a, cl


def short(key):
    return key.replace("pandapipes.", "")


@unit("C12", "frame", functions=[PF + ":pipeflow"], engine="E4")
def frame(ctx):
    ctx.assume("A4", "A6")
    a, cl = analyse()
    ctx.notes.append("pipeflow call closure: %d functions; component classes: %d" % (len(cl), len(a.comp_classes)))
    ctx.decided("closure-size", "cover", len(cl) >= 150, witness="closure has only %d functions" % len(cl),
                note="vacuity guard: dynamic dispatch and function-valued arguments must be followed")
    must = ["pandapipes.pf.build_system_matrix:build_system_matrix", PF + ":solve_hydraulics",
            "pandapipes.pf.derivative_calculation:calculate_derivatives_hydraulic",
            "pandapipes.component_models.pipe_component:Pipe.create_pit_branch_entries",
            "pandapipes.pf.result_extraction:extract_all_results",
            "pandapipes.component_models.abstract_models.const_flow_models:ConstFlow.create_pit_node_entries"]
    for m in must:
        ctx.decided("closure-contains/%s" % short(m), "cover", m in cl, witness="not reached")
    for k in sorted(cl):
        ctx.use_function(cl[k])
    nsites = 0
    for k in sorted(a.summaries):
        sm = a.summaries[k]
        per_fn = {}
        for ln, desc, tags in sm.sites:
            nsites += 1
            n = per_fn.get(desc, 0)
            per_fn[desc] = n + 1
            label = "write/%s/%s%s" % (short(k), desc[:60].replace("/", "|"), "" if n == 0 else "~%d" % n)
            bad = sorted(t for t in tags if F.is_forbidden(t))
            ctx.decided(label, "frame", not bad,
                        witness="line %d of %s: `%s` may modify %s" % (ln, k, desc, bad),
                        replay={"handler": "purity_diff", "input": {"function": k, "line": ln}} if bad else None)
    ctx.decided("write-sites-found", "cover", nsites >= 200, witness="only %d write sites" % nsites)


@unit("C12", "stale_reads", functions=[PF + ":pipeflow"], engine="E4")
def stale_reads(ctx):
    ctx.assume("A6")
    a, cl = analyse()
    sc = F.StaleChecker(a, cl)
    final = sc.run(PF + ":pipeflow")
    ctx.decided("reads-checked", "cover", sc.reads_checked >= 300, witness="%d reads" % sc.reads_checked)
    ctx.notes.append("reads of underscore keys checked along pipeflow(): %d; preconditions: transient, "
                     "reuse_internal_data, only_update_hydraulic_matrix are False" % sc.reads_checked)
    seen = {}
    for k, ln, key, txt in sc.stale:
        seen.setdefault((k, key), (ln, txt))
    for (k, key), (ln, txt) in sorted(seen.items()):
        ctx.decided("stale/%s/%s" % (short(k), key), "stale-read", False,
                    witness="line %d of %s reads net[%r] (`%s`) before this run has written it" % (ln, k, key, txt),
                    replay={"handler": "purity_history", "input": {"key": key}})
    # positive obligations: the entries every stage relies on are rewritten on every path before use
    for key in ("_options", "_lookups", "_pit", "converged"):
        ctx.decided("rewritten/%s" % key, "stale-read", key in final,
                    witness="net[%r] is not rewritten on every path through pipeflow()" % key)
    ctx.decided("no-stale-read", "stale-read", not seen, witness="%d stale reads" % len(seen))


@unit("C12", "repeatability", functions=[PF + ":pipeflow"], engine="E4")
def repeatability(ctx):
    a, cl = analyse()
    sites = F.nondeterminism_sites(cl)
    for k, ln, txt in sites:
        ctx.decided("nondeterminism/%s/L%d" % (short(k), ln), "repeatability", False,
                    witness="%s line %d: %s" % (k, ln, txt))
    ctx.decided("no-nondeterminism-source", "repeatability", not sites,
                witness="%d sources" % len(sites),
                note="random / time / id / hash / set iteration / directory listings in the closure")


# ---------------------------------------------------------------------------------------------
# the cached matrix structure must not outlive a run that did not ask for it

@unit("C12", "cache_dropped_on_every_exit", functions=[PF + ":hydraulics", PF + ":bidirectional"], engine="E1")
def cache_dropped(ctx):
    """net['_internal_data'] (sorted Jacobian structure of only_update_hydraulic_matrix) is state that later runs
    read: unless reuse_internal_data is requested it must be gone at EVERY exit of the stage, also the raising
    ones -- otherwise a failed run changes what the next run computes"""
    import z3
    from contracts import C05
    from pvc import twin as T, src as S_
    ctx.assume("A2", "A4", "A6")
    for stage in ("hydraulics", "bidirectional"):
        fm = C05.FunctModel(stage)
        log, record = [], {}
        wl = C05.while_line(PF + ":newton_raphson")
        paths = T.run_paths(ctx, PF + ":" + stage, lambda: ([C05.make_net("constant")], {}),
                            contracts=C05.stage_contracts(stage, fm, log), hooks={("while", wl): C05.loop_hook(record)},
                            max_paths=4096, guarded_ifs=True)
        ctx.decided("%s/exits-found" % stage, "cover", any(p.exc is None for p in paths) and any(p.exc is not None for p in paths),
                    witness=str(len(paths)))
        reuse = z3.Bool("reuse_internal_data")
        bad = []
        for p in paths:
            net = p.args[0][0]
            if "_internal_data" in net.items:
                bad.append(p)
        for kind in ("returning", "raising"):
            sel = [p for p in bad if (p.exc is None) == (kind == "returning")]
            # a path that still holds the cache must be one on which reuse was requested
            goal = z3.And(*[z3.Implies(p.cond(), reuse) for p in sel]) if sel else z3.BoolVal(True)
            ctx.ob("%s/%s-exits-drop-the-cache-unless-reuse-requested" % (stage, kind), "ensures", [], goal)


# ---------------------------------------------------------------------------------------------
# heat calculation from stored hydraulic results: exactly the two unknown columns are restored

@unit("C12", "stored_hydraulics", functions=[PF + ":use_given_hydraulic_results"], engine="E2")
def stored_hydraulics(ctx):
    """use_given_hydraulic_results writes the stored solution vector into PINIT (first len(node_pit) entries) and MDOTINIT
    (the rest), nothing else, and refuses to do so unless the hydraulic results are flagged as available"""
    import z3
    from pvc import kern as K, twin as T, val as V
    from pvc.val import compare, B
    ND_, BR_ = "pandapipes.idx_node", "pandapipes.idx_branch"
    NCN_, NCB_ = K.const(ND_, "node_cols"), K.const(BR_, "branch_cols")
    N_PINIT_, B_MDOT_ = K.const(ND_, "PINIT"), K.const(BR_, "MDOTINIT")
    NN_, NB_, NS = z3.Int("NN"), z3.Int("NB"), z3.Int("NSOL")
    for flag in (True, False):
        def mk(_f=flag):
            net = K.NetObj({"_pit": {"node": K.sym_pit("node_pit", NN_, NCN_), "branch": K.sym_pit("branch_pit", NB_, NCB_)},
                            "user_pf_options": {"hyd_flag": _f}})
            return [net, K.sym_arr("sol_vec", NS, "f")], {}
        paths = T.run_paths(ctx, PF + ":use_given_hydraulic_results", mk)
        if not flag:
            ctx.decided("refuses-without-the-flag", "ensures", len(paths) >= 1 and all(p.exc is not None for p in paths),
                        witness=str([str(p.exc) for p in paths]))
            continue
        ok = len(paths) == 1 and paths[0].exc is None
        ctx.decided("restores/single-path", "cover", ok, witness=str([str(p.exc) for p in paths]))
        if not ok:
            continue
        p = paths[0]
        net = p.args[0][0]
        npit, bpit = net.items["_pit"]["node"], net.items["_pit"]["branch"]
        np0, bp0 = K.sym_pit("node_pit", NN_, NCN_), K.sym_pit("branch_pit", NB_, NCB_)
        sol = K.sym_arr("sol_vec", NS, "f")
        n, b, c = z3.Int("n!row"), z3.Int("b!row"), z3.Int("c!col")
        base = [NN_ >= 1, NB_ >= 0, NS == NN_ + NB_] + list(p.facts)
        ctx.ob("restores/pressures", "ensures", base + [n >= 0, n < NN_], K.eq_val(npit.f(n, N_PINIT_), sol.f(n)))
        ctx.ob("restores/mass-flows", "ensures", base + [b >= 0, b < NB_], K.eq_val(bpit.f(b, B_MDOT_), sol.f(NN_ + b)))
        ctx.ob("restores/frame-node-columns", "frame", base + [n >= 0, n < NN_, c >= 0, c < NCN_, c != N_PINIT_],
               K.eq_val(npit.f(n, c), np0.f(n, c)))
        ctx.ob("restores/frame-branch-columns", "frame", base + [b >= 0, b < NB_, c >= 0, c < NCB_, c != B_MDOT_],
               K.eq_val(bpit.f(b, c), bp0.f(b, c)))
        ctx.check_safety(paths, base, "restores/fn", kinds=("shape", "index"))
