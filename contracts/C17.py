"""C17 -- restructuring tools preserve referential integrity and physics.

Engine E5 on pandapipes/toolbox.py.  All reference handling of the toolbox goes through one schema
function, element_junction_tuples; the contracts are

  reference schema     the (table, column) pairs that hold junction references are DERIVED from the create
                       functions (C16 traces: a column is a junction reference iff the parameter written
                       to it is passed to a junction check; conditionally for valve.element with et == 'ju')
                       and compared with what element_junction_tuples returns: every reference column must
                       be listed, and a listed column must be a junction reference in every row
  reindex_elements     evaluated over abstract data frames (any contents): the table index, its geodata and
                       result index and exactly the schema columns are mapped through the lookup, pipe
                       relabelling maps valve.element of the rows with et == 'pi' only; nothing else is written
  fuse_junctions       exactly the schema columns are redirected (rows with a reference in j2), then j2 dropped
  drop_elements_at_junctions / drop_junctions / drop_pipes
                       exactly the rows holding a reference to the dropped junctions are dropped, with
                       their result rows; pipes through drop_pipes
  continuous index     create_continuous_element_index builds the lookup old -> start..start+n-1 over the
                       sorted index and delegates to reindex_elements

Bounded stand-in (native): one network with every component type (pipe-attached valves, remote pressure
control, circulation pumps) under relabelling with pipe/junction label coincidences, drop, fuse, subnet.
"""
import ast
import z3

from pvc.harness import unit, venv_run
from pvc import src as S, kern as K, ev as E, classes as CL, symdict as SD
from pvc.val import *  # noqa
from pvc import val as V

# property-level native oracle used as the replay of refuted obligations that carry no model-specific replay
FALLBACK_REPLAY = {"handler": "bounded_any", "input": {"what": "toolbox_ops"}, "expected": "restructuring tools keep referential integrity, other elements and results"}

TB = "pandapipes.toolbox"
CR = "pandapipes.create"


# ---------------------------------------------------------------------------------------------
# abstract data frames: every read returns a description term, every write is recorded

class Ref:
    def __init__(self, desc):
        self.desc = desc

    def __repr__(self):
        return "Ref%r" % (self.desc,)

    def __eq__(self, other):
        return isinstance(other, Ref) and self.desc == other.desc

    def __hash__(self):
        return hash(repr(self.desc))

    def getattr_(self, ev, attr, lineno):
        if attr == "index":
            return Ref(("index-of", self.desc))
        if attr == "values":
            return self
        if attr == "shape":
            return (fresh("rows", "int"), 1)
        if attr in ("isin", "intersection", "difference"):
            return _Meth(self, attr)
        if attr in ("copy", "astype", "to_numpy"):
            return _Same(self)
        if attr == "any":
            return _Any(self)
        if self.desc and self.desc[0] in ("rows", "loc"):
            return Ref(("sub", self.desc, attr))         # column of a row selection
        raise Unsupported("attribute %s of %r (line %d)" % (attr, self, lineno))

    def getitem(self, ev, key, lineno):
        return Ref(("sub", self.desc, _k(key)))

    def setitem(self, ev, idx, v, lineno):
        """in-place store into a described array.  A boolean-mask index with a constant False / True is the same array as
        `a &= ~mask` / `a |= mask` (normalised to that description); any other index -- in particular VALUES of a reference
        column used as positions -- gives a description that no specification term equals: labels are not positions"""
        d = _k(idx)
        is_mask = isinstance(d, tuple) and d and d[0] in ("isin", "cmp", "not", "&", "|")
        if is_mask and v is False:
            self.desc = ("&", self.desc, ("not", d))
        elif is_mask and v is True:
            self.desc = ("|", self.desc, d)
        else:
            self.desc = ("positional-store-indexed-by-values", self.desc, d, _k(v))

    def cmp(self, op, other):
        return Ref(("cmp", self.desc, op, _k(other)))

    def binop(self, ev, op, other, reflected=False):
        a, b = (other, self) if reflected else (self, other)
        return Ref((op, _k(a), _k(b)))

    def invert(self, ev):
        return Ref(("not", self.desc))

    def length(self):
        return fresh("len", "int")

    def contains(self, ev, key, *a):
        if self.desc and self.desc[0] in ("rows", "loc") and isinstance(key, str):
            return True          # a row selection of a table has the table's columns
        raise Unsupported("`in` on %r" % (self,))


def _k(x):
    if isinstance(x, Ref):
        return x.desc
    if isinstance(x, (list, tuple)):
        return tuple(_k(y) for y in x)
    if isinstance(x, SD.PV):
        return str(x.t)
    if hasattr(x, "desc"):
        return x.desc
    return x if isinstance(x, (str, int, bool, type(None))) else repr(x)


class _Same:
    """value-preserving conversions (.copy(), .astype(bool) of a flag column, .to_numpy())"""

    def __init__(self, ref):
        self.ref = ref

    def call(self, ev, args, kwargs, lineno):
        return self.ref


class _Any:
    def __init__(self, ref):
        self.ref = ref

    def call(self, ev, args, kwargs, lineno):
        return z3.Bool("any!%s" % (self.ref.desc,))


class _Meth:
    def __init__(self, ref, name):
        self.ref, self.name = ref, name

    def call(self, ev, args, kwargs, lineno):
        return Ref((self.name, self.ref.desc) + tuple(_k(a) for a in args))


class Frame:
    def __init__(self, name, trace):
        self.name, self.trace = name, trace

    def getattr_(self, ev, attr, lineno):
        if attr == "index":
            return Ref((self.name, "<index>"))
        if attr == "shape":
            return (fresh("rows", "int"), 3)
        if attr == "loc":
            return _Loc(self)
        if attr == "empty":
            return z3.Bool("empty!" + self.name)
        if attr == "columns":
            return _Cols(self)
        if attr in ("drop", "sort_index"):
            return _FMeth(self, attr)
        if attr in getattr(self, "column_attrs", ()):
            return Ref((self.name, attr))
        raise Unsupported("frame attribute %s (line %d)" % (attr, lineno))

    def setattr_(self, ev, attr, v, lineno):
        self.trace.append(("set", self.name, "<" + attr + ">", _k(v)))

    def getitem(self, ev, key, lineno):
        if isinstance(key, Ref):
            return Ref(("rows", self.name, key.desc))
        return Ref((self.name, key))

    def setitem(self, ev, key, v, lineno):
        self.trace.append(("set", self.name, _k(key), _k(v)))

    def length(self):
        return fresh("len", "int")

    def contains(self, ev, key, *a):
        return True              # `col in frame`: the documented columns exist


class _Cols:
    """column set of a table: the valve table has its documented columns; other memberships are unknown"""

    def __init__(self, fr):
        self.fr = fr
        self.desc = (fr.name, "<columns>")

    def contains(self, ev, key, *a):
        if key == "et":
            return self.fr.name == "valve"          # only the valve table has an element-type column
        return z3.Bool("col!%s!%s" % (self.fr.name, key))


class _FMeth:
    def __init__(self, fr, name):
        self.fr, self.name = fr, name

    def call(self, ev, args, kwargs, lineno):
        self.fr.trace.append((self.name, self.fr.name, tuple(_k(a) for a in args), tuple(sorted((k, _k(v)) for k, v in kwargs.items()))))
        return None


class _Loc:
    def __init__(self, fr):
        self.fr = fr

    def getitem(self, ev, key, lineno):
        return Ref(("loc", self.fr.name, _k(key)))

    def setitem(self, ev, key, v, lineno):
        self.fr.trace.append(("set-loc", self.fr.name, _k(key), _k(v)))


class OSet:
    """an opaque set / list value derived from table contents: only its emptiness is observable"""

    def __init__(self, desc):
        self.desc = desc

    def __repr__(self):
        return "OSet%r" % (self.desc,)

    def length(self):
        return fresh("len", "int")

    def getattr_(self, ev, attr, lineno):
        if attr in ("intersection", "union", "difference"):
            return _Meth(Ref(self.desc), attr)
        raise Unsupported("set attribute " + attr)

    def binop(self, ev, op, other, reflected=False):
        return OSet((op, self.desc, _k(other)))


class Lookup:
    """the relabelling dictionary old -> new (any contents)"""

    def __init__(self, trace):
        self.trace = trace
        self.desc = "lookup"

    def getattr_(self, ev, attr, lineno):
        return _LMeth(self, attr)


class _LMeth:
    def __init__(self, lk, name):
        self.lk, self.name = lk, name

    def call(self, ev, args, kwargs, lineno):
        if self.name == "update":
            self.lk.trace.append(("lookup.update",))
            return None
        return OSet(("lookup." + self.name,))


SCHEMA_TABLES = ["junction", "junction_geodata", "res_junction", "pipe", "pipe_geodata", "res_pipe", "valve", "res_valve", "sink",
                 "res_sink", "press_control", "res_press_control", "heat_exchanger", "res_heat_exchanger"]
def ref_rows(t, c):
    """the junction-reference rows of column c of table t, as _junction_reference_rows must return them"""
    if (t, c) == ("valve", "element"):
        return ("cmp", ("valve", "et"), "!=", "pi")
    return ("all-rows", (t, "<index>"))


SAMPLE_SCHEMA = [("sink", "junction"), ("pipe", "from_junction"), ("pipe", "to_junction"), ("valve", "junction"), ("valve", "element"),
                 ("heat_exchanger", "from_junction"), ("heat_exchanger", "to_junction"), ("press_control", "from_junction"),
                 ("press_control", "to_junction"), ("press_control", "controlled_junction")]


def run_toolbox(ctx, fn, make_args, schema=SAMPLE_SCHEMA, extra_contracts=None, tables=SCHEMA_TABLES):
    fref = S.get_function(TB + ":" + fn)
    ctx.use_function(fref)
    cur = {}

    class G:
        def __init__(self, nm):
            self.nm = nm

        def call(self, ev, args, kw, lineno):
            if self.nm == "get_indices":
                return Ref(("mapped", _k(args[0])))
            if self.nm == "set":
                return OSet(("set",) + tuple(_k(a) for a in args))
            if self.nm == "sorted":
                return [SD.PV(z3.Const("generic_missing_index", SD.PyVal))]
            if self.nm == "any":
                return z3.Bool("any!%s" % (_k(args[0]),))
            if self.nm == "hasattr":
                if isinstance(args[0], K.NetObj):
                    return args[1] in args[0].items
                from pvc import npmodel
                return npmodel.builtin(ev, "hasattr", args, kw, lineno, None)
            if self.nm == "isinstance":
                if isinstance(args[0], Frame):
                    return True           # the tables of the net are data frames
                if isinstance(args[0], OSet):
                    return True           # junction sets are iterables
                from pvc import npmodel
                return npmodel.builtin(ev, "isinstance", args, kw, lineno, None)
            raise Unsupported(self.nm)

    class PD:
        def getattr_(self, ev, attr, lineno):
            if attr == "Series":
                class Sr:
                    def call(s, ev_, args, kw, ln):
                        return Ref(("all-rows", _k(kw.get("index"))))
                return Sr()
            return E.Opaque("pandas." + attr)

    def glob(m, nm):
        if nm in ("get_indices", "set", "sorted", "any", "isinstance", "hasattr"):
            return G(nm)
        if nm == "pd":
            return PD()
        return None
    contracts = {TB + ":element_junction_tuples": (lambda ev, a, k: list(schema))}
    contracts.update(extra_contracts or {})

    def mk():
        tr = []
        cur["t"] = tr
        net = K.NetObj({t: Frame(t, tr) for t in tables})
        net.trace = tr
        return make_args(net, tr)
    ev = E.Evaluator(hooks={"global": glob}, contracts=contracts, max_paths=512)
    paths = ev.run_all(fref, mk)
    for p in paths:
        ctx.inlined |= p.inlined
    return paths


def writes_of(tr):
    return [t for t in tr if t[0] in ("set", "set-loc", "drop")]


@unit("C17", "reindex/junction", functions=[TB + ":reindex_elements", TB + ":reindex_junctions"], engine="E5")
def reindex_junction(ctx):
    ctx.assume("A4", "A6", "A7")
    paths = run_toolbox(ctx, "reindex_elements", lambda net, tr: ([net, "junction", Lookup(tr)], {}))
    normal = [p for p in paths if p.exc is None]
    ctx.decided("evaluated", "cover", len(normal) >= 1 and len(normal) == len(paths), witness=str([str(p.exc) for p in paths]))
    for kx, p in enumerate(normal):
        tr = p.args[0][0].trace
        w = writes_of(tr)
        exp = [("set", "junction", "<index>", ("mapped", ("junction", "<index>")))]
        for t, c in SAMPLE_SCHEMA:
            exp.append(("set-loc", t, (ref_rows(t, c), c), ("mapped", ("loc", t, (ref_rows(t, c), c)))))
        for e in exp:
            ctx.decided("follows/%s.%s#%d" % (e[1], e[2] if isinstance(e[2], str) else e[2][1], kx), "ensures", e in w, witness=str(w)[:900])
        opt = [("set", "junction_geodata", "<index>", ("mapped", ("junction_geodata", "<index>"))),
               ("set", "res_junction", "<index>", ("mapped", ("res_junction", "<index>")))]
        ctx.decided("nothing-else-written#%d" % kx, "frame", all(x in exp or x in opt for x in w),
                    witness=str([x for x in w if x not in exp and x not in opt])[:600])
        ctx.decided("result-index-follows#%d" % kx, "ensures", opt[1] in w, witness=str(w)[:400])
        ctx.decided("returns-lookup#%d" % kx, "ensures", isinstance(p.result, Lookup), witness=repr(p.result))
    geo = [p for p in normal if ("set", "junction_geodata", "<index>", ("mapped", ("junction_geodata", "<index>"))) in writes_of(p.args[0][0].trace)]
    ctx.decided("geodata-index-follows-when-present", "ensures", len(geo) >= 1)


@unit("C17", "reindex/pipe", functions=[TB + ":reindex_elements", TB + ":reindex_pipes"], engine="E5")
def reindex_pipe(ctx):
    ctx.assume("A4", "A6", "A7")
    paths = run_toolbox(ctx, "reindex_elements", lambda net, tr: ([net, "pipe", Lookup(tr)], {}))
    normal = [p for p in paths if p.exc is None]
    ctx.decided("evaluated", "cover", len(normal) >= 1 and len(normal) == len(paths), witness=str([str(p.exc) for p in paths]))
    pv = ("loc", "valve", (("cmp", ("valve", "et"), "==", "pi"), "element"))
    for kx, p in enumerate(normal):
        w = writes_of(p.args[0][0].trace)
        ctx.decided("pipe-index-mapped#%d" % kx, "ensures", ("set", "pipe", "<index>", ("mapped", ("pipe", "<index>"))) in w, witness=str(w)[:500])
        vw = [x for x in w if x[1] == "valve"]
        ok = len(vw) == 1 and vw[0][0] == "set-loc" and vw[0][2] == (("index-of", pv), "element") and vw[0][3] == ("mapped", pv)
        ctx.decided("pipe-attached-valves-follow-and-only-they#%d" % kx, "ensures", ok, witness=str(vw)[:500])
        others = [x for x in w if x[1] not in ("pipe", "pipe_geodata", "res_pipe", "valve")]
        ctx.decided("nothing-else-written#%d" % kx, "frame", not others, witness=str(others)[:400])


@unit("C17", "fuse_junctions", functions=[TB + ":fuse_junctions"], engine="E5")
def fuse(ctx):
    ctx.assume("A4", "A6", "A7")
    j1 = SD.PV(z3.Const("arg!j1", SD.PyVal))
    drops = []

    def c_drop(ev, a, k):
        drops.append((a, k))
        a[0].trace.append(("call", "drop_junctions", _k(a[1]), tuple(sorted((x, _k(y)) for x, y in k.items()))))

    class IsInst:
        def call(self, ev, args, kw, lineno):
            return True
    paths = run_toolbox(ctx, "fuse_junctions", lambda net, tr: ([net, j1, OSet(("arg", "j2"))], {}),
                        extra_contracts={TB + ":drop_junctions": c_drop})
    normal = [p for p in paths if p.exc is None]
    ctx.decided("evaluated", "cover", len(normal) >= 1 and len(normal) == len(paths), witness=str([str(p.exc) for p in paths]))
    for kx, p in enumerate(normal):
        tr = p.args[0][0].trace
        w = writes_of(tr)
        for t, c in SAMPLE_SCHEMA:
            sel = ("index-of", ("rows", t, ("BitAnd", ref_rows(t, c), ("isin", (t, c), ("Sub", ("set", ("arg", "j2")), "{PV(arg!j1)}")))))
            hit = [x for x in w if x[0] == "set-loc" and x[1] == t and x[2][1] == c and x[3] == "arg!j1"
                   and x[2][0][0] == "index-of" and x[2][0][1][0] == "rows" and x[2][0][1][2][0] == "BitAnd"
                   and x[2][0][1][2][1] == ref_rows(t, c) and x[2][0][1][2][2][:2] == ("isin", (t, c))]
            ctx.decided("redirects/%s.%s#%d" % (t, c, kx), "ensures", len(hit) == 1, witness=str([x for x in w if x[1] == t])[:500])
        ctx.decided("nothing-else-written#%d" % kx, "frame", len(w) == len(SAMPLE_SCHEMA), witness=str(w)[:600])
        dj = [x for x in tr if x[0] == "call"]
        ctx.decided("drops-fused-junctions-keeping-elements#%d" % kx, "ensures",
                    len(dj) == 1 and ("drop_elements", False) in dj[0][3], witness=str(dj))


@unit("C17", "drop_elements_at_junctions", functions=[TB + ":drop_elements_at_junctions", TB + ":drop_junctions"], engine="E5")
def drop_at(ctx):
    ctx.assume("A4", "A6", "A7")

    def c_drop_pipes(ev, a, k):
        a[0].trace.append(("call", "drop_pipes", _k(a[1])))
    schema = [("sink", "junction"), ("pipe", "from_junction"), ("valve", "element")]
    paths = run_toolbox(ctx, "drop_elements_at_junctions", lambda net, tr: ([net, OSet(("arg", "junctions"))], {}),
                        schema=schema, extra_contracts={TB + ":drop_pipes": c_drop_pipes},
                        tables=["sink", "res_sink", "pipe", "res_pipe", "valve", "res_valve", "junction"])
    normal = [p for p in paths if p.exc is None]
    ctx.decided("evaluated", "cover", len(normal) == 8 and len(normal) == len(paths), witness=str([str(p.exc) for p in paths]))
    for kx, p in enumerate(normal):
        tr = p.args[0][0].trace
        conds = str(p.conds)
        for t, c in schema:
            sel = ("BitAnd", ref_rows(t, c), ("isin", (t, c), ("arg", "junctions")))
            touched = "any!%s" % (sel,) in conds and "Not(any!%s" % (sel,) not in conds
            rows = ("index-of", ("rows", t, sel))
            if t == "pipe":
                got = [x for x in tr if x[0] == "call" and x[1] == "drop_pipes"]
                ok = (len(got) == 1 and got[0][2] == rows) if touched else not got
            else:
                got = [x for x in tr if x[0] == "drop" and x[1] == t]
                ok = (len(got) == 1 and got[0][2] == (rows,)) if touched else not got
                rgot = [x for x in tr if x[0] == "drop" and x[1] == "res_" + t]
                ok = ok and ((len(rgot) == 1 and "intersection" in str(rgot[0][2]) and repr(rows) in str(rgot[0][2])) if touched else not rgot)
            ctx.decided("drops-exactly-the-referencing-rows/%s#%d" % (t, kx), "ensures", ok, witness=str(tr)[:700])
        foreign = [x for x in tr if x[0] in ("drop", "set", "set-loc") and x[1].replace("res_", "") not in [s[0] for s in schema]]
        ctx.decided("no-foreign-table-touched#%d" % kx, "frame", not foreign, witness=str(foreign)[:300])


# ---------------------------------------------------------------------------------------------
# the reference schema

@unit("C17", "reference_schema", functions=[TB + ":element_junction_tuples"], engine="E5")
def reference_schema(ctx):
    """ground truth from the create functions (C16 traces) against element_junction_tuples (a function without
    inputs for net=None: evaluated natively, which is exhaustive)"""
    ctx.assume("A6", "A7")
    from contracts import C16
    uncond, cond, pipe_refs = set(), set(), set()
    for name in C16.creators():
        if name in C16.OUTSIDE_SUBSET or name.endswith("s") or "s_from_parameters" in name:
            continue
        fref, names, defaults, paths = C16.run_creator(ctx, name)
        per_path = []
        for p in paths:
            if p.exc is not None:
                continue
            tr = p.args[0][0].trace
            w = [t for t in tr if t[0] in C16.WRITES]
            if len(w) != 1:
                continue
            table, entries = w[0][1][1], w[0][2]
            checked = []
            for nm, a, kw in tr:
                if nm in ("_check_junction_element", "_check_branch", "_check_element") and not (
                        nm == "_check_element" and kw.get("element", a[2] if len(a) > 2 else None) not in ("junction", None)):
                    checked += [x for x in list(a) + list(kw.values()) if isinstance(x, SD.PV)]
            refs = {c for c, v in entries.items() if isinstance(v, SD.PV) and any(v.t.eq(x.t) for x in checked)}
            per_path.append((table, refs, str(p.conds)))
        if not per_path:
            continue
        table = per_path[0][0]
        allrefs = set().union(*[r for _, r, _ in per_path])
        for c in allrefs:
            if all(c in r for _, r, _ in per_path):
                uncond.add((table, c))
            else:
                cond.add((table, c))
    ctx.decided("derived/unconditional-references-found", "cover", len(uncond) >= 20 and ("press_control", "controlled_junction") in uncond,
                witness=str(sorted(uncond)))
    ctx.decided("derived/conditional-reference-is-valve-element", "cover", cond == {("valve", "element")}, witness=str(sorted(cond)))
    res = venv_run("run.py", {"handler": "element_junction_tuples", "input": {}})
    listed = {tuple(x) for x in res["observed"]}
    ctx.decided("listed/evaluated", "cover", len(listed) >= 20, witness=str(sorted(listed)))
    for t, c in sorted(uncond):
        ctx.decided("every-reference-column-listed/%s.%s" % (t, c), "ensures", (t, c) in listed, witness=str(sorted(listed)))
    known_tables = {t for t, _ in uncond | cond}
    # the rows the toolbox treats as junction references, from the real _junction_reference_rows
    fref = S.get_function(TB + ":_junction_reference_rows")
    ctx.use_function(fref)
    for t, c in sorted(listed):
        if t not in known_tables:
            continue            # components without a create function (converter valve_pipe)
        tr = []

        class PD:
            def getattr_(self, ev, attr, lineno):
                class Sr:
                    def call(s_, ev_, args, kw, ln):
                        return Ref(("all-rows", _k(kw.get("index"))))
                return Sr()
        ps = E.Evaluator(hooks={"global": lambda m, nm: PD() if nm == "pd" else None}).run_all(
            fref, lambda: ([K.NetObj({t: Frame(t, tr)}), t, c], {}))
        ok = len(ps) == 1 and ps[0].exc is None and isinstance(ps[0].result, Ref)
        ctx.decided("rows/%s.%s/evaluated" % (t, c), "cover", ok, witness=str([(str(p.exc), p.result) for p in ps]))
        if not ok:
            continue
        rows = ps[0].result.desc
        if (t, c) in uncond:
            ctx.decided("rows/%s.%s/every-row-is-a-junction-reference" % (t, c), "ensures", rows == ("all-rows", (t, "<index>")), witness=repr(rows))
        elif (t, c) in cond:
            # create_valve checks `element` as a junction exactly for et == 'ju', as a pipe for et == 'pi', and rejects any other et
            ctx.decided("rows/%s.%s/restricted-to-the-rows-created-as-junction-references" % (t, c), "ensures",
                        rows == ("cmp", (t, "et"), "!=", "pi"), witness=repr(rows),
                        replay={"handler": "toolbox_pipe_valve", "input": {"op": "reindex_junctions"}})
        else:
            ctx.decided("rows/%s.%s/listed-column-holds-junction-references" % (t, c), "ensures", False,
                        witness="no create function writes a checked junction reference to this column")


@unit("C17", "bounded/native", functions=[TB + ":select_subnet", TB + ":create_continuous_elements_index"], engine="bounded")
def native_bounded(ctx):
    """bounded stand-in: the restructuring tools natively on one heat network with every reference kind (pipe-attached
    valve, junction valve, remote pressure control, heat exchanger, sinks, multi-section pipe) under three labellings
    (disjoint, pipe labels == junction labels, unsorted)"""
    res = venv_run("bounded.py", {"what": "toolbox_ops"}, timeout=1500)["checks"]
    scope = ("one 8-junction water/heat network, 3 labellings x {3 junction relabellings, 2 pipe relabellings, continuous index, drop of every "
             "junction / pipe / elements at every junction, 4 fusions, 3 subnets}; referential integrity of every reference column, "
             "untouched rows compared field by field, sequential pipeflow results compared after relabelling and for the complete subnet")
    for k, v in res.items():
        ctx.bounded(k, v["ok"], scope=scope, cases=v["cases"], witness=v.get("witness"),
                    replay={"handler": "bounded_named", "input": {"what": "toolbox_ops", "check": k}} if not v["ok"] else None)


@unit("C17", "drop_pipes", functions=[TB + ":drop_pipes"], engine="E5")
def drop_pipes(ctx):
    ctx.assume("A4", "A6", "A7")
    paths = run_toolbox(ctx, "drop_pipes", lambda net, tr: ([net, OSet(("arg", "pipes"))], {}),
                        tables=["pipe", "pipe_geodata", "res_pipe", "valve", "res_valve", "junction"])
    normal = [p for p in paths if p.exc is None]
    ctx.decided("evaluated", "cover", len(normal) >= 1 and len(normal) == len(paths), witness=str([str(p.exc) for p in paths]))
    attached = ("index-of", ("sub", ("valve", "<index>"),
                             ("BitAnd", ("cmp", ("valve", "et"), "==", "pi"), ("isin", ("valve", "element"), ("arg", "pipes")))))
    for kx, p in enumerate(normal):
        tr = p.args[0][0].trace
        d = {x[1]: x for x in tr if x[0] == "drop"}
        ctx.decided("pipe-rows-dropped#%d" % kx, "ensures", "pipe" in d and d["pipe"][2] == (("arg", "pipes"),), witness=str(tr)[:400])
        ctx.decided("geodata-and-results-follow#%d" % kx, "ensures", "pipe_geodata" in d and "res_pipe" in d, witness=str(tr)[:400])
        # referential integrity: a valve attached to a dropped pipe (et == 'pi', element in pipes) must not survive
        ok = "valve" in d and "isin" in str(d["valve"][2]) and "('cmp', ('valve', 'et'), '==', 'pi')" in str(d["valve"][2]) \
            and "('valve', 'element')" in str(d["valve"][2]) and "res_valve" in d
        ctx.decided("valves-attached-to-dropped-pipes-are-dropped#%d" % kx, "ensures", ok, witness=str(tr)[:600],
                    replay={"handler": "toolbox_drop_pipe_valve", "input": {}})
        foreign = [x for x in tr if x[0] in ("drop", "set", "set-loc") and x[1] not in ("pipe", "pipe_geodata", "res_pipe", "valve", "res_valve")]
        ctx.decided("no-foreign-table-touched#%d" % kx, "frame", not foreign, witness=str(foreign)[:300])


@unit("C17", "drop_junctions", functions=[TB + ":drop_junctions"], engine="E5")
def drop_junctions(ctx):
    ctx.assume("A4", "A6", "A7")

    def c_at(ev, a, k):
        a[0].trace.append(("call", "drop_elements_at_junctions", _k(a[1])))
    for de in (True, False):
        paths = run_toolbox(ctx, "drop_junctions", lambda net, tr: ([net, OSet(("arg", "junctions"))], {"drop_elements": de}),
                            extra_contracts={TB + ":drop_elements_at_junctions": c_at},
                            tables=["junction", "junction_geodata", "res_junction", "sink"])
        normal = [p for p in paths if p.exc is None]
        ctx.decided("drop_elements=%s/evaluated" % de, "cover", len(normal) >= 1 and len(normal) == len(paths),
                    witness=str([str(p.exc) for p in paths]))
        for kx, p in enumerate(normal):
            tr = p.args[0][0].trace
            d = {x[1]: x for x in tr if x[0] == "drop"}
            ctx.decided("drop_elements=%s/junction-rows-geodata-results-dropped#%d" % (de, kx), "ensures",
                        all(t in d for t in ("junction", "junction_geodata", "res_junction")) and d["junction"][2] == (("arg", "junctions"),),
                        witness=str(tr)[:400])
            c = [x for x in tr if x[0] == "call"]
            ctx.decided("drop_elements=%s/connected-elements-%s#%d" % (de, "dropped" if de else "kept", kx), "ensures",
                        (len(c) == 1 and c[0][2] == ("arg", "junctions")) if de else not c, witness=str(c))


@unit("C17", "continuous_index", functions=[TB + ":create_continuous_element_index", TB + ":create_continuous_junction_index"], engine="E5")
def continuous_index(ctx):
    """the lookup handed to reindex_elements is  sorted old index -> start, start+1, ...  (labels only change)"""
    ctx.assume("A4", "A6", "A7")
    got = []

    def c_reindex(ev, a, k):
        got.append((a[1], a[2]))
        return a[2]
    start = z3.Int("start")
    fref = S.get_function(TB + ":create_continuous_element_index")
    ctx.use_function(fref)
    tr = []

    def glob(m, nm):
        if nm in ("zip", "dict", "list", "isinstance"):
            class H:
                def call(s, ev, args, kw, lineno):
                    if nm == "isinstance":
                        return True
                    return (nm,) + tuple(a if isinstance(a, tuple) else (_k(a) if not is_z3(a) else str(a)) for a in args)
            return H()
        if nm == "np":
            class NP:
                def getattr_(self, ev, attr, lineno):
                    class A:
                        def call(s, ev_, args, kw, ln):
                            return ("np." + attr,) + tuple(str(a) if is_z3(a) else _k(a) for a in args)
                    return A()
            return NP()
        return None

    def mk():
        del tr[:]
        del got[:]
        net = K.NetObj({"junction": Frame("junction", tr)})
        return [net, "junction", start], {}
    ev = E.Evaluator(hooks={"global": glob}, contracts={TB + ":reindex_elements": c_reindex}, max_paths=16)
    paths = ev.run_all(fref, mk)
    normal = [p for p in paths if p.exc is None]
    ctx.decided("evaluated", "cover", len(normal) == 1 and len(paths) == 1, witness=str([str(p.exc) for p in paths]))
    if len(normal) == 1:
        ctx.decided("sorted-before-numbering", "ensures", any(x[0] == "sort_index" and x[1] == "junction" for x in tr), witness=str(tr))
        ok = len(got) == 1 and got[0][0] == "junction"
        ctx.decided("delegates-to-reindex_elements", "ensures", ok, witness=str(got))
        if ok:
            lk = got[0][1]
            ctx.decided("lookup-is-old-index-to-consecutive-numbers", "ensures",
                        isinstance(lk, tuple) and lk[0] == "dict" and lk[1][0] == "zip" and lk[1][1] == ("junction", "<index>")
                        and isinstance(lk[1][2], tuple) and lk[1][2][0] == "list" and lk[1][2][1][0] == "np.arange"
                        and lk[1][2][1][1] == "start", witness=repr(lk))


# ---------------------------------------------------------------------------------------------
# which rows of valve.element are JUNCTION references: the solver's own use of the column (prefix of the real function)

@unit("C17", "valve_element_reference_rows", functions=["pandapipes.component_models.valve_component:Valve.create_pit_branch_entries"],
      engine="E3")
def valve_element_reference_rows(ctx):
    """the declared reference schema (valve.element references a junction exactly on the rows with et == 'ju') is the
    solver's: Valve.create_pit_branch_entries looks `element` up in the JUNCTION lookup on those rows only, and `junction`
    on every row.  Mechanical extraction: the body of the real method up to (and including) the statement that fills
    to_nodes for the junction valves; everything after it (re-wiring of the pipes of pipe-attached valves, parameter
    columns) is dropped and `return from_nodes, to_nodes` appended."""
    ctx.assume("A4", "A6", "A7")
    import copy as _copy
    VCM = "pandapipes.component_models.valve_component"
    fref = S.get_function(VCM + ":Valve.create_pit_branch_entries")
    ctx.use_function(fref)
    node = _copy.deepcopy(fref.node)
    # the prefix: every statement before the first top-level `if` (the block that re-wires pipes and fills parameter columns)
    firstif = [k for k, st in enumerate(node.body) if isinstance(st, ast.If)]
    names_before = set()
    for st in (node.body[:firstif[0]] if firstif else []):
        for n_ in ast.walk(st):
            if isinstance(n_, ast.Name) and isinstance(n_.ctx, ast.Store):
                names_before.add(n_.id)
    cut = firstif[0] - 1 if firstif and {"from_nodes", "to_nodes"} <= names_before else None
    ctx.structural("prefix/found", "cover", cut is not None,
                   witness="from_nodes / to_nodes are not both assigned before the first top-level `if` of the method")
    if cut is None:
        return
    node.body = node.body[:cut + 1] + [ast.parse("return from_nodes, to_nodes").body[0]]
    ast.fix_missing_locations(node)
    pref = S.FunctionRef(fref.module, fref.qualname, node, fref.cls)
    cref = S.get_module(VCM).classes["Valve"]
    n, NLJ = z3.Int("NV"), z3.Int("NLJ")
    cols = {"junction": "i", "element": "i", "et": "i"}

    def mk():
        net = K.NetObj({"valve": K.sym_table("valve", n, cols),
                        "_lookups": {"node_index": {"junction": K.sym_arr("junction_lookup", NLJ, "i")}}})
        return [cref, net, K.sym_pit("branch_pit", z3.Int("NB"), 4)], {}
    BWI_ = "pandapipes.component_models.abstract_models.branch_w_internals_models"
    triple = (K.sym_arr("int_nodes", n, "i"), K.sym_arr("inverse_index", z3.Int("NPI"), "i"), K.sym_arr("mask_p", z3.Int("NPI"), "i"))
    ev = E.Evaluator(contracts={BWI_ + ":BranchWInternalsComponent.create_pit_branch_entries": lambda e_, a, k: (a[2], K.sym_pit("node_pit", z3.Int("NN"), 4)),
                                VCM + ":Valve.get_internal_node_number": lambda e_, a, k: triple})
    try:
        paths = ev.run_all(pref, mk)
    except Unsupported as e:
        ctx.undecided("prefix/subset", "unsupported", str(e))
        return
    ok = len(paths) == 1 and paths[0].exc is None and isinstance(paths[0].result, tuple)
    ctx.decided("prefix/single-path", "cover", ok, witness=str([str(p.exc) for p in paths]))
    if not ok:
        return
    fn_, tn_ = paths[0].result
    tbl = K.sym_table("valve", n, cols)
    L = K.sym_arr("junction_lookup", NLJ, "i")
    r = z3.Int("r")
    is_ju = tbl.columns["et"].f(r) == V.str_code("ju")
    base = [n >= 1, r >= 0, r < n] + list(paths[0].facts)
    ctx.ob("junction-column-is-a-junction-reference-on-every-row", "schema", base,
           K.eq_val(fn_.f(r), L.f(V.I(tbl.columns["junction"].f(r)))))
    ctx.ob("element-is-looked-up-as-a-junction-on-ju-rows", "schema", base + [is_ju],
           K.eq_val(tn_.f(r), L.f(V.I(tbl.columns["element"].f(r)))))
    ctx.ob("element-is-NOT-looked-up-as-a-junction-on-other-rows", "schema", base + [z3.Not(is_ju)], K.eq_val(tn_.f(r), 0))
