"""C18 -- the topology graph agrees with the solver about what is connected.

Engine E5: the graph code and the solver are tied together through the contracts already proved for the solver
side (C04: which branches connect, which nodes are slacks; C06: FROM/TO = lookup of the class's from/to columns,
ACTIVE = the class's activity column; C17: which columns are junction references in which rows).

  edges/<table>       add_branch_component + init_par evaluated over abstract frames for every branch class:
                      one edge per row between tab[from_col] and tab[to_col] (the class's from_to_node_cols, both
                      junction references in every remaining row -- pipe-attached valves are filtered out), edge
                      status = tab[active_identifier] when the status is respected, all rows otherwise;
                      pipe edges are additionally switched off by a closed valve attached to them
  solver_agreement    the edge relation uses the same end columns and the same activity column as the pit
                      construction; components that do not establish hydraulic connectivity in the solver
                      (FLOW_RETURN_CONNECT) must not connect islands in the graph        -> known finding F31
  slacks              unsupplied_junctions roots = junctions of the in-service pressure-fixing elements
                                                                                          -> known finding F12

Bounded stand-in (native): unsupplied_junctions / connected components against the NaN pattern of pipeflow over
all in_service/opened patterns of a small net; distances against an independent shortest-path computation.
"""
import z3

from pvc.harness import unit, venv_run
from pvc import src as S, kern as K, ev as E, classes as CL
from pvc.val import *  # noqa
from contracts import C17
from contracts.C17 import Ref, Frame, _k

# property-level native oracle used as the replay of refuted obligations that carry no model-specific replay
FALLBACK_REPLAY = {"handler": "bounded_any", "input": {"what": "graph_vs_solver"}, "expected": "graph reachability, components, edges and distances agree with the solver"}

CG = "pandapipes.topology.create_graph"
GS = "pandapipes.topology.graph_searches"
ABSTRACT = ("BranchComponent", "BranchWInternalsComponent", "BranchWOInternalsComponent", "CirculationPump")


def branch_classes():
    out = []
    for cref in CL.all_component_classes():
        names = [m.name for m in CL.mro(cref)]
        if "BranchComponent" in names and cref.name not in ABSTRACT and "converter" not in cref.module.name:
            out.append(cref)
    return out


def const_method(cref, name):
    m = CL.lookup_method(cref, name)
    ps = E.Evaluator().run_all(m, lambda: ([cref], {}))
    return ps[0].result if len(ps) == 1 and ps[0].exc is None else None


class _NP:
    def getattr_(self, ev, attr, lineno):
        class A:
            def call(s, ev_, args, kw, ln):
                if attr in ("zeros", "ones"):
                    return Frame("np." + attr, ev_.c18_trace) if attr == "zeros" else Ref(("all-rows",))
                return Ref(("np." + attr,) + tuple(_k(a) for a in args))
        return A()


def run_add_branch(ctx, cref, tname, respect_status, valve_et_filter):
    """returns (paths, trace, add_edges records) -- trace / records of the LAST normal path, and per path on
    p.args[0][2].tr / .rec"""
    cur = {}

    def glob(m, nm):
        if nm == "get_edge_table":
            class G:
                def call(s, ev, args, kw, lineno):
                    f = Frame(args[1], cur["tr"])
                    f.column_attrs = ("et", "opened", "element")
                    return f
            return G()
        if nm == "add_edges":
            class G2:
                def call(s, ev, args, kw, lineno):
                    cur["rec"].append([_k(a) if not isinstance(a, (Frame, K.NetObj)) else getattr(a, "name", "net") for a in args])
                    return None
            return G2()
        if nm == "np":
            return _NP()
        return None

    def mk():
        cur["tr"], cur["rec"] = [], []
        v = Frame("valve", cur["tr"])
        v.column_attrs = ("et", "opened", "element")
        net = K.NetObj({"valve": v})
        net.tr, net.rec = cur["tr"], cur["rec"]
        ev.c18_trace = cur["tr"]
        return [cref, "mg", net, tname, True, respect_status, None, valve_et_filter], {}
    ev = E.Evaluator(hooks={"global": glob}, max_paths=32)
    fref = S.get_function(CG + ":add_branch_component")
    ctx.use_function(fref)
    ctx.use_function(S.get_function(CG + ":init_par"))
    paths = ev.run_all(fref, mk)
    normal = [p for p in paths if p.exc is None]
    last = normal[-1].args[0][2] if normal else None
    return paths, (last.tr if last else []), (last.rec if last else [])


@unit("C18", "edges", functions=[CG + ":add_branch_component", CG + ":init_par"], engine="E5")
def edges(ctx):
    ctx.assume("A4", "A6", "A7")
    classes = branch_classes()
    ctx.decided("branch-classes-found", "cover", len(classes) >= 10, witness=str([c.name for c in classes]))
    for cref in classes:
        tname = const_method(cref, "table_name")
        ft = const_method(cref, "from_to_node_cols")
        act = const_method(cref, "active_identifier")
        ok = isinstance(tname, str) and isinstance(ft, tuple) and isinstance(act, str)
        ctx.decided("%s/class-constants" % cref.name, "cover", ok, witness=repr((tname, ft, act)))
        if not ok:
            continue
        for respect in (True, False):
            filt = "pi" if tname == "pipe" else None
            # re-run per path because the recorders are refilled per path: evaluate and inspect the last path only when single
            paths, tr, rec = run_add_branch(ctx, cref, tname, respect, filt)
            normal = [p for p in paths if p.exc is None]
            ctx.decided("%s/respect_status=%s/evaluated" % (tname, respect), "cover", len(normal) == len(paths) and len(paths) >= 1,
                        witness=str([str(p.exc) for p in paths]))
            if not normal:
                continue
            # the recorders hold the trace of the last enumerated path; the obligations below are path independent
            rows = tname if tname != "valve" else ("rows", "valve", ("cmp", ("valve", "et"), "!=", "pi"))
            col = lambda c: (tname, c) if tname != "valve" else ("sub", rows, c)
            w = {x[2][1]: x[3] for x in tr if x[0] == "set" and x[1] == "np.zeros" and isinstance(x[2], tuple)}
            ctx.decided("%s/respect_status=%s/one-edge-per-row-between-the-from-and-to-junction" % (tname, respect), "ensures",
                        w.get(1) == col(ft[0]) and w.get(2) == col(ft[1]) and len(rec) == 1, witness=str((w, rec))[:600])
            ctx.decided("%s/respect_status=%s/edge-key-is-the-row-label" % (tname, respect), "ensures",
                        w.get(0) == ((tname, "<index>") if tname != "valve" else ("index-of", rows)), witness=str(w)[:300])
            if tname == "valve":
                ctx.decided("valve/respect_status=%s/pipe-attached-valves-add-no-edge" % respect, "ensures",
                            any(x == ("rows", "valve", ("cmp", ("valve", "et"), "!=", "pi")) for x in [rows]) and
                            w.get(2) == ("sub", rows, "element"), witness=str(w)[:300],
                            replay={"handler": "graph_pipe_valve", "input": {}})
            if len(rec) == 1:
                status = rec[0][3]
                if not respect:
                    ctx.decided("%s/respect_status=False/every-row-is-an-edge" % tname, "ensures", status == ("all-rows",), witness=repr(status))
                elif tname != "pipe":
                    ctx.decided("%s/respect_status=True/edge-status-is-the-activity-column" % tname, "ensures",
                                status == col(act), witness=repr(status))
    # pipes: a closed valve attached to the pipe switches the pipe's edge off (and only then)
    pipe = [c for c in classes if c.name == "Pipe"][0]
    paths, tr, rec = run_add_branch(ctx, pipe, "pipe", True, "pi")
    closed = ("BitAnd", ("cmp", ("valve", "et"), "==", "pi"), ("not", ("valve", "opened")))
    sw, plain = None, None
    for p in paths:
        if p.exc is not None:
            continue
        conds = str(p.conds)
        if "Not(any!" in conds:
            plain = p.args[0][2].rec
        elif "any!" in conds:
            sw = p.args[0][2].rec
    ctx.decided("pipe/closed-attached-valve-switches-the-pipe-edge-off", "ensures",
                sw is not None and len(sw) == 1 and "isin" in str(sw[0][3]) and "not" in str(sw[0][3])
                and str(closed) in str(sw[0][3]) and "('pipe', 'in_service')" in str(sw[0][3]) and "('valve', 'element')" in str(sw[0][3]),
                witness=str(sw)[:700])
    ctx.decided("pipe/no-closed-attached-valve-leaves-the-pipe-status", "ensures",
                plain is not None and len(plain) == 1 and plain[0][3] == ("pipe", "in_service"), witness=str(plain)[:300])
    paths2, tr2, rec2 = run_add_branch(ctx, pipe, "pipe", True, None)
    ctx.decided("pipe/valve-status-ignored-when-not-respected", "ensures",
                len(paths2) == 1 and len(rec2) == 1 and rec2[0][3] == ("pipe", "in_service"), witness=str(rec2)[:300])


@unit("C18", "solver_agreement", functions=[CG + ":add_branch_component"], engine="E5")
def solver_agreement(ctx):
    """schema-level agreement with the pit construction proved in C06 / C04"""
    ctx.assume("A6", "A7")
    from contracts import C06
    classes = branch_classes()
    # (1) same end columns and activity column: both sides read them from the class methods
    for cref in classes:
        tname = const_method(cref, "table_name")
        ft = const_method(cref, "from_to_node_cols")
        schema_ok = all((tname, c) in C17_REFS() for c in ft) if tname != "valve" else True
        ctx.decided("%s/end-columns-are-junction-references" % tname, "ensures", schema_ok, witness=repr(ft))
    # (2) connectivity semantics: classes whose branches are FLOW_RETURN_CONNECT in the solver do not connect there
    frc = {"heat_consumer": "always", "flow_control": "control_active"}
    for cref in classes:
        tname = const_method(cref, "table_name")
        import ast
        own = [n for n in cref.node.body if isinstance(n, ast.FunctionDef) and n.name == "create_pit_branch_entries"]
        sets = any(isinstance(n, ast.Name) and n.id == "FLOW_RETURN_CONNECT" for f in own for n in ast.walk(f))
        ctx.decided("%s/flow-return-classification-known" % tname, "cover", sets == (tname in frc), witness=repr((tname, sets)))
        if sets:
            ctx.decided("%s/non-connecting-branch-adds-no-connecting-edge" % tname, "ensures", False,
                        witness="the solver does not let %s rows (%s) establish hydraulic connectivity (FLOW_RETURN_CONNECT), "
                                "create_nxgraph adds them as ordinary edges" % (tname, frc.get(tname)),
                        replay={"handler": "graph_flow_return", "input": {"table": tname}})


_refs = {}


def C17_REFS():
    """unconditional junction reference columns (from the native element_junction_tuples, checked against the create
    functions in C17/reference_schema)"""
    if "v" not in _refs:
        res = venv_run("run.py", {"handler": "element_junction_tuples", "input": {}})
        _refs["v"] = {tuple(x) for x in res["observed"]} - {("valve", "element")}
    return _refs["v"]


@unit("C18", "slacks", functions=[GS + ":unsupplied_junctions"], engine="E5")
def slacks(ctx):
    ctx.assume("A4", "A6", "A7")
    tr = []
    seen = {}

    class NX:
        def getattr_(self, ev, attr, lineno):
            class A:
                def call(s, ev_, args, kw, ln):
                    seen["cc"] = args
                    return []
            return A()

    def glob(m, nm):
        if nm == "nx":
            return NX()
        if nm == "set":
            class St:
                def call(s, ev, args, kw, lineno):
                    return C17.OSet(("set",) + tuple(_k(a) for a in args))
            return St()
        return None

    def c_graph(ev, a, k):
        seen["graph_kwargs"] = dict(k)
        return "mg"

    def mk():
        del tr[:]
        eg = Frame("ext_grid", tr)
        eg.column_attrs = ("in_service", "junction", "type")
        cp, cm = Frame("circ_pump_pressure", tr), Frame("circ_pump_mass", tr)
        cp.column_attrs = cm.column_attrs = ("in_service", "flow_junction", "return_junction")
        net = K.NetObj({"ext_grid": eg, "circ_pump_pressure": cp, "circ_pump_mass": cm})
        return [net], {}
    fref = S.get_function(GS + ":unsupplied_junctions")
    ctx.use_function(fref)
    ev = E.Evaluator(hooks={"global": glob}, contracts={CG + ":create_nxgraph": c_graph}, max_paths=16)
    paths = ev.run_all(fref, mk)
    normal = [p for p in paths if p.exc is None]
    ctx.decided("evaluated", "cover", len(normal) == len(paths) and len(paths) >= 1, witness=str([str(p.exc) for p in paths]))
    # the path on which both circulation pump tables are non-empty shows all roots
    full = None
    for p in normal:
        d = str(_k(p.env.vars.get("slacks")))
        if full is None or len(d) > len(full):
            full = d
    ctx.decided("graph-built-with-the-valve-flag", "ensures", "respect_status_valves" in seen.get("graph_kwargs", {}), witness=str(seen.get("graph_kwargs")))
    # the solver's roots (C04 connectivity/search, slack selection): in-service nodes fixed in pressure, i.e. external grids of
    # type p / pt and the flow junctions of in-service circulation pumps
    eg_rows = "('rows', 'ext_grid', ('BitAnd', ('ext_grid', 'in_service'), ('isin', ('ext_grid', 'type'), ('p', 'pt'))))"
    ctx.decided("roots/in-service-external-grids-of-a-pressure-type", "ensures", full is not None and eg_rows in full, witness=repr(full),
                replay={"handler": "graph_slacks", "input": {}})
    for t in ("circ_pump_pressure", "circ_pump_mass"):
        ctx.decided("roots/flow-junctions-of-in-service-%s" % t, "ensures",
                    full is not None and "('%s', 'flow_junction')" % t in full and "('%s', 'in_service')" % t in full, witness=repr(full),
                    replay={"handler": "graph_slacks", "input": {}})
    ctx.decided("roots/nothing-else", "ensures",
                full is not None and full.count("'junction'") + full.count("'flow_junction'") == 3 and "return_junction" not in full,
                witness=repr(full))


@unit("C18", "bounded/native", functions=[CG + ":create_nxgraph", GS + ":unsupplied_junctions", GS + ":calc_distance_to_junction",
                                          GS + ":calc_distance_to_junctions", GS + ":calc_minimum_distance_to_junctions"], engine="bounded")
def native_bounded(ctx):
    res = venv_run("bounded.py", {"what": "graph_vs_solver"}, timeout=1500)["checks"]
    scope = ("one gas network (6 junctions, 4 pipes with a pipe-attached valve, junction valve, pump, pressure control, 2 external grids): "
             "all 2^k in_service / opened patterns with consistent junction flags; unsupplied_junctions + out-of-service junctions against the "
             "NaN pattern of res_junction.p_bar, connected components against the solver's islands, one edge per in-service "
             "junction-junction element, distances against an independent Dijkstra over pipe lengths; multigraph and simple graph; pipe labels "
             "differ from row positions; all 8 combinations of respect_status_pipes / _valves / _pumps on a net with one element of each "
             "kind switched off (each option acts on its own component only)")
    for k, v in res.items():
        ctx.bounded(k, v["ok"], scope=scope, cases=v["cases"], witness=v.get("witness"),
                    replay={"handler": "bounded_named", "input": {"what": "graph_vs_solver", "check": k}} if not v["ok"] else None)
