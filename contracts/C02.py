"""C02 -- every flowing branch obeys the documented pressure-loss law.

Modular structure (a caller is checked against the callee's contract, not its body):

  kernels   derivatives_hydraulic_{incomp,comp}_{np,numba}:  load_vec = R(arguments)      [ensures]
  helpers   calc_lambda, calc_derived_values_*, calc_medium_pressure_*,
            get_branch_real_density, get_branch_real_eta                                   [ensures]
  stage     calculate_derivatives_hydraulic: with the callee contracts applied, the residual,
            Reynolds and friction-factor columns are the spec functions of the pit columns   [ensures]
  results   get_basic_branch_results, get_branch_results_gas(_numba)                         [ensures]

R, lambda, Re ... are the spec functions of contracts/spec.py (written from the property
statement and the documentation).
"""
import z3
from fractions import Fraction

from pvc.harness import unit
from pvc import src as S, kern as K, twin as T, ev as E
from pvc.val import *  # noqa
from pvc import val as V
from contracts import spec as SP

BR = "pandapipes.idx_branch"
ND = "pandapipes.idx_node"
DC = "pandapipes.pf.derivative_calculation"
TB = "pandapipes.pf.derivative_toolbox"
TBN = "pandapipes.pf.derivative_toolbox_numba"
RX = "pandapipes.pf.result_extraction"
PT = "pandapipes.properties.properties_toolbox"
CT = "pandapipes.component_models.component_toolbox"

NCB = K.const(BR, "branch_cols")
NCN = K.const(ND, "node_cols")
for _n in ("FROM_NODE", "TO_NODE", "LENGTH", "D", "AREA", "K", "RE", "LAMBDA", "LOSS_COEFFICIENT",
           "PL", "MDOTINIT", "TOUTINIT", "FROM_NODE_T_SWITCHED", "LOAD_VEC_BRANCHES",
           "LOAD_VEC_NODES_FROM", "LOAD_VEC_NODES_TO", "JAC_DERIV_DM_NODE", "DP_FRICT_LOSS",
           "JAC_DERIV_DP", "JAC_DERIV_DP1", "JAC_DERIV_DM", "QEXT"):
    globals()["B_" + _n] = K.const(BR, _n)
for _n in ("HEIGHT", "PAMB", "PINIT", "TINIT"):
    globals()["N_" + _n] = K.const(ND, _n)

INT_B = (B_FROM_NODE, B_TO_NODE, B_FROM_NODE_T_SWITCHED)
ENGINES = (("numpy", False), ("numba", True))


def arr(name, rows="b", **kw):
    d = dict(rows=rows)
    d.update(kw)
    return (name, "arr", d)


def forall_b(sp, body):
    i = z3.Int("i")
    return z3.ForAll([i], z3.Implies(z3.And(i >= 0, i < sp.NB), body(i)))


def forall_n(sp, body):
    i = z3.Int("qq")
    return z3.ForAll([i], z3.Implies(z3.And(i >= 0, i < sp.NN), body(i)))


def forall_real(body, name="x"):
    x = z3.Real(name)
    return z3.ForAll([x], body(x))


def lift(f, *args):
    """apply the scalar spec function f elementwise"""
    n = None
    for a in args:
        if is_array(a):
            n = a.n
            break
    if n is None:
        return f(*args)
    fs = [(a.f if is_array(a) else (lambda j, _a=a: _a)) for a in args]
    return Arr(n, lambda j: f(*[g(j) for g in fs]), "f")


def goal_over_paths(paths, sel, expect, idx):
    gs = []
    for p in paths:
        if p.exc is not None:
            continue
        gs.append(z3.Implies(p.cond(), K.eq_val(T.elem_at(sel(p), idx), expect)))
    return z3.And(*gs) if gs else z3.BoolVal(True)


# ---------------------------------------------------------------------------------------------
# kernels

def kernel_requires_incomp(sp):
    bp = sp.objs["branch_pit"]
    return [forall_b(sp, lambda i: z3.And(bp.f(i, B_D) > 0, bp.f(i, B_AREA) > 0,
                                          sp.objs["rho"].f(i) > 0))]


def _kernel_incomp(ctx, key):
    ctx.assume("A1", "A4", "A5")
    spec = T.ArgSpec([("branch_pit", "pit", dict(rows="b", ncols=NCB, int_cols=INT_B))] +
                     [arr(x) for x in ("der_lambda", "p_init_i_abs", "p_init_i1_abs",
                                       "height_difference", "rho")])
    paths = T.run_paths(ctx, key, spec.build)
    spec.build()
    o, r = spec.objs, spec.r
    bp = o["branch_pit"]
    req = spec.base() + kernel_requires_incomp(spec)
    m = bp.f(r, B_MDOTINIT)
    Rr = SP.residual_liquid(m, o["p_init_i_abs"].f(r), o["p_init_i1_abs"].f(r), bp.f(r, B_PL),
                            o["height_difference"].f(r), o["rho"].f(r), bp.f(r, B_LAMBDA),
                            bp.f(r, B_LENGTH), bp.f(r, B_D), bp.f(r, B_LOSS_COEFFICIENT),
                            bp.f(r, B_AREA))
    fr = SP.friction_loss_liquid(m, o["rho"].f(r), bp.f(r, B_LAMBDA), bp.f(r, B_LENGTH), bp.f(r, B_D),
                                 bp.f(r, B_LOSS_COEFFICIENT), bp.f(r, B_AREA))
    exp = [("load_vec", Rr), ("load_vec_nodes_from", m), ("load_vec_nodes_to", m), None,
           ("df_dm_nodes", 1), ("df_dp", 1), ("df_dp1", -1), ("dp_frict_loss", fr)]
    for k, e in enumerate(exp):
        if e is None:
            continue
        ctx.ob("ensures/%s" % e[0], "ensures", req,
               goal_over_paths(paths, lambda p, _k=k: p.result[_k], e[1], r),
               replay=kernel_replay(key, spec, k, e[0], "liquid"))
    ctx.check_safety(paths, req, "kernel")


def kernel_replay(key, spec, k, name, medium):
    def rp(m):
        return {"handler": "kernel_spec", "input": {"function": key, "output": k, "name": name,
                                                    "medium": medium},
                "expected": "output %s equals the documented momentum equation" % name}
    return rp


def kernel_requires_comp(sp):
    bp = sp.objs["branch_pit"]
    o = sp.objs
    return [forall_b(sp, lambda i: z3.And(
        bp.f(i, B_D) > 0, bp.f(i, B_AREA) > 0, o["rho_n"].f(i) > 0,
        o["p_init_i_abs"].f(i) > 0, o["p_init_i1_abs"].f(i) > 0,
        z3.ToInt(bp.f(i, B_FROM_NODE)) >= 0, z3.ToInt(bp.f(i, B_FROM_NODE)) < sp.NN))]


def _kernel_comp(ctx, key):
    ctx.assume("A1", "A4", "A5")
    spec = T.ArgSpec([("node_pit", "pit", dict(rows="n", ncols=NCN)),
                      ("branch_pit", "pit", dict(rows="b", ncols=NCB, int_cols=INT_B))] +
                     [arr(x) for x in ("lambda_", "der_lambda", "p_init_i_abs", "p_init_i1_abs",
                                       "height_difference", "comp_fact", "der_comp", "der_comp1",
                                       "rho", "rho_n")])
    paths = T.run_paths(ctx, key, spec.build)
    spec.build()
    o, r = spec.objs, spec.r
    bp, npit = o["branch_pit"], o["node_pit"]
    req = spec.base() + kernel_requires_comp(spec)
    m = bp.f(r, B_MDOTINIT)
    fn = V.I(bp.f(r, B_FROM_NODE))
    tm = SP.div(SP.add(npit.f(fn, N_TINIT), bp.f(r, B_TOUTINIT)), 2)
    Rr = SP.residual_gas(m, o["p_init_i_abs"].f(r), o["p_init_i1_abs"].f(r), bp.f(r, B_PL),
                         o["height_difference"].f(r), o["rho"].f(r), o["rho_n"].f(r),
                         o["lambda_"].f(r), bp.f(r, B_LENGTH), bp.f(r, B_D),
                         bp.f(r, B_LOSS_COEFFICIENT), bp.f(r, B_AREA), tm, o["comp_fact"].f(r))
    exp = [("load_vec", Rr), ("load_vec_nodes_from", m), ("load_vec_nodes_to", m), None,
           ("df_dm_nodes", 1)]
    for k, e in enumerate(exp):
        if e is None:
            continue
        ctx.ob("ensures/%s" % e[0], "ensures", req,
               goal_over_paths(paths, lambda p, _k=k: p.result[_k], e[1], r),
               replay=kernel_replay(key, spec, k, e[0], "gas"))
    ctx.check_safety(paths, req, "kernel")


for _eng, _nb in ENGINES:
    _ki = (TBN + ":derivatives_hydraulic_incomp_numba") if _nb else (TB + ":derivatives_hydraulic_incomp_np")
    _kc = (TBN + ":derivatives_hydraulic_comp_numba") if _nb else (TB + ":derivatives_hydraulic_comp_np")

    def _mk(ki=_ki, kc=_kc, eng=_eng):
        @unit("C02", "kernel/liquid/" + eng, functions=[ki], engine="E2")
        def _a(ctx):
            _kernel_incomp(ctx, ki)

        @unit("C02", "kernel/gas/" + eng, functions=[kc], engine="E2")
        def _b(ctx):
            _kernel_comp(ctx, kc)
    _mk()


# ---------------------------------------------------------------------------------------------
# helpers: derived values, medium pressure, density, viscosity

def _derived(ctx, key):
    ctx.assume("A1", "A4", "A5")
    spec = T.ArgSpec([("node_pit", "pit", dict(rows="n", ncols=NCN)),
                      arr("from_nodes", kind="i"), arr("to_nodes", kind="i")])
    paths = T.run_paths(ctx, key, spec.build)
    spec.build()
    o, r = spec.objs, spec.r
    npit = o["node_pit"]
    fn, tn = o["from_nodes"].f(r), o["to_nodes"].f(r)
    req = spec.base()
    exp = derived_spec(npit, fn, tn)
    for k, nm in enumerate(("tinit_branch", "height_difference", "p_init_i_abs", "p_init_i1_abs")):
        ctx.ob("ensures/%s" % nm, "ensures", req,
               goal_over_paths(paths, lambda p, _k=k: p.result[_k], exp[k], r))


def derived_spec(npit, fn, tn):
    return (SP.div(SP.add(npit.f(fn, N_TINIT), npit.f(tn, N_TINIT)), 2),
            SP.sub(npit.f(fn, N_HEIGHT), npit.f(tn, N_HEIGHT)),
            SP.add(npit.f(fn, N_PINIT), npit.f(fn, N_PAMB)),
            SP.add(npit.f(tn, N_PINIT), npit.f(tn, N_PAMB)))


def _medium(ctx, key):
    ctx.assume("A1", "A4", "A5")
    spec = T.ArgSpec([arr("p_init_i_abs"), arr("p_init_i1_abs")])
    paths = T.run_paths(ctx, key, spec.build)
    spec.build()
    o, r = spec.objs, spec.r
    req = spec.base() + [forall_b(spec, lambda i: z3.And(o["p_init_i_abs"].f(i) > 0,
                                                         o["p_init_i1_abs"].f(i) > 0))]
    ctx.ob("ensures/p_m", "ensures", req,
           goal_over_paths(paths, lambda p: p.result[0],
                           SP.mean_pressure(o["p_init_i_abs"].f(r), o["p_init_i1_abs"].f(r)), r))
    ctx.check_safety(paths, req, "kernel")


for _eng, _nb in ENGINES:
    def _mk2(eng=_eng, nb=_nb):
        kd = (TBN + ":calc_derived_values_numba") if nb else (TB + ":calc_derived_values_np")
        km = (TBN + ":calc_medium_pressure_with_derivative_numba") if nb else \
            (TB + ":calc_medium_pressure_with_derivative_np")

        @unit("C02", "derived_values/" + eng, functions=[kd], engine="E2")
        def _a(ctx):
            _derived(ctx, kd)

        @unit("C02", "medium_pressure/" + eng, functions=[km], engine="E2")
        def _b(ctx):
            _medium(ctx, km)
    _mk2()


def pit_spec(gas):
    fluid = K.make_fluid(gas)
    spec = T.ArgSpec([
        ("fluid", "const", dict(value=fluid)),
        ("node_pit", "pit", dict(rows="n", ncols=NCN)),
        ("branch_pit", "pit", dict(rows="b", ncols=NCB, int_cols=INT_B)),
    ])
    return fluid, spec


def pit_requires(sp, fluid, gas):
    bp, npit = sp.objs["branch_pit"], sp.objs["node_pit"]
    u = fluid.ufs
    reqs = [
        forall_b(sp, lambda i: z3.And(
            z3.ToInt(bp.f(i, B_FROM_NODE)) >= 0, z3.ToInt(bp.f(i, B_FROM_NODE)) < sp.NN,
            z3.ToInt(bp.f(i, B_TO_NODE)) >= 0, z3.ToInt(bp.f(i, B_TO_NODE)) < sp.NN,
            z3.Or(z3.ToInt(bp.f(i, B_FROM_NODE_T_SWITCHED)) == 0,
                  z3.ToInt(bp.f(i, B_FROM_NODE_T_SWITCHED)) == 1),
            bp.f(i, B_TOUTINIT) > 0)),
        forall_n(sp, lambda q: z3.And(npit.f(q, N_PINIT) + npit.f(q, N_PAMB) > 0,
                                      npit.f(q, N_TINIT) > 0)),
        forall_real(lambda x: u["density"](x) > 0),
        forall_real(lambda x: u["viscosity"](x) > 0),
    ]
    if gas:
        reqs.append(forall_real(lambda x: u["compressibility"](x) > 0))
    return reqs


def inflow_nodes(bp, r):
    fn, tn = V.I(bp.f(r, B_FROM_NODE)), V.I(bp.f(r, B_TO_NODE))
    sw = V.I(bp.f(r, B_FROM_NODE_T_SWITCHED))
    return z3.If(sw == 1, tn, fn), z3.If(sw == 1, fn, tn)


def density_spec(fluid, gas, bp, npit, r):
    """mean of the densities at the inflow end (node temperature) and at the outlet (branch outlet
    temperature); for gases the real-gas law rho_N p T_N / (T p_N K(p))"""
    u = fluid.ufs
    fn_c, tn_c = inflow_nodes(bp, r)
    t_in, t_out = npit.f(fn_c, N_TINIT), bp.f(r, B_TOUTINIT)
    if gas:
        rho_n = u["density"](z3.RealVal(SP.T_N))
        pfc = npit.f(fn_c, N_PINIT) + npit.f(fn_c, N_PAMB)
        ptc = npit.f(tn_c, N_PINIT) + npit.f(tn_c, N_PAMB)
        return SP.div(SP.add(SP.gas_density(rho_n, pfc, t_in, u["compressibility"](pfc)),
                             SP.gas_density(rho_n, ptc, t_out, u["compressibility"](ptc))), 2)
    return SP.div(SP.add(u["density"](t_in), u["density"](t_out)), 2)


def eta_spec(fluid, bp, npit, r):
    fn_c, _ = inflow_nodes(bp, r)
    return fluid.ufs["viscosity"](SP.div(SP.add(npit.f(fn_c, N_TINIT), bp.f(r, B_TOUTINIT)), 2))


def _density_unit(ctx, gas):
    ctx.assume("A1", "A4")
    fluid, spec = pit_spec(gas)
    paths = T.run_paths(ctx, PT + ":get_branch_real_density", spec.build)
    spec.build()
    r = spec.r
    req = spec.base() + pit_requires(spec, fluid, gas)
    ctx.ob("ensures/rho", "ensures", req,
           goal_over_paths(paths, lambda p: p.result,
                           density_spec(fluid, gas, spec.objs["branch_pit"], spec.objs["node_pit"], r), r))
    ctx.check_safety(paths, req, "fn")


def _eta_unit(ctx, gas):
    ctx.assume("A1", "A4")
    fluid, spec = pit_spec(gas)
    spec.args.append(arr("pm"))
    paths = T.run_paths(ctx, PT + ":get_branch_real_eta", spec.build)
    spec.build()
    r = spec.r
    req = spec.base() + pit_requires(spec, fluid, gas)
    ctx.ob("ensures/eta", "ensures", req,
           goal_over_paths(paths, lambda p: p.result,
                           eta_spec(fluid, spec.objs["branch_pit"], spec.objs["node_pit"], r), r))


for _g in (False, True):
    def _mk3(g=_g):
        nm = "gas" if g else "liquid"

        @unit("C02", "density/" + nm, functions=[PT + ":get_branch_real_density"], engine="E2")
        def _a(ctx):
            _density_unit(ctx, g)

        @unit("C02", "viscosity/" + nm, functions=[PT + ":get_branch_real_eta"], engine="E2")
        def _b(ctx):
            _eta_unit(ctx, g)
    _mk3()


# ---------------------------------------------------------------------------------------------
# calc_lambda

class NewtonModel:
    """assumed contract (A4) of scipy.optimize.newton(func, x0, maxiter, args, tol, full_output,
    fprime): returns an arbitrary array `root` and a flag `converged`; the residual func(root) is
    recorded so that the contract can state which equation the root is meant to solve."""

    def __init__(self):
        self.recorded = []

    def call(self, ev, args, kwargs, lineno):
        func, x0 = args[0], args[1]
        extra = kwargs.get("args", ())
        if not isinstance(x0, Comp):
            raise Unsupported("newton start value is not a masked selection")
        uf = z3.Function("newton_root", z3.IntSort(), z3.RealSort())
        root = Comp(x0.mask, lambda j: uf(V.I(j)), "f")
        nsafe = len(ev.path.safety)
        res = ev.call(func, [root] + list(extra), {}, lineno)
        # divisions inside the residual are evaluated by scipy on its own iterates; they are not
        # obligations on the arbitrary root introduced here
        del ev.path.safety[nsafe:]
        conv = z3.Bool("newton_converged")
        rec = {"root": root, "residual": res, "mask": x0.mask, "conv": conv}
        self.recorded.append(rec)
        ev.path.notes.append(("newton", rec))        # per-path record (self.recorded only holds the last path's calls)
        return NewtonResult(root, conv)


class NewtonResult:
    def __init__(self, root, conv):
        self.root = root
        self.conv = conv

    def getitem(self, ev, idx, lineno):
        if idx == 0:
            return self.root
        if idx == 1:
            return E.Obj("RootResults", {"converged": self.conv})
        raise Unsupported("newton result index")

    def getattr_(self, ev, attr, lineno):
        if attr == "root":
            return self.root
        if attr == "converged":
            return self.conv
        raise Unsupported("newton result attribute %s" % attr)


def lambda_requires(sp, friction):
    o = sp.objs
    reqs = [forall_b(sp, lambda i: z3.And(o["d"].f(i) > 0, o["k"].f(i) > 0, o["k"].f(i) < o["d"].f(i),
                                          o["eta"].f(i) > 0, o["area"].f(i) > 0,
                                          o["lengths"].f(i) >= 0))]
    if friction == "swamee-jain":
        # 5.74 / Re**0.9 is evaluated for every row: zero flow divides by zero (inf in IEEE, which
        # numpy carries through to lambda = 0); under A1 the clause is stated for rows with flow
        reqs.append(forall_b(sp, lambda i: o["m"].f(i) != 0))
        # the explicit approximation has a pole where k/(3.7 d) + 5.74/Re^0.9 = 1 (Re of order 10);
        # the clause is stated for its validity range, where the argument of the logarithm is < 1
        reqs.append(forall_b(sp, lambda i: V.val_of(SP.add(
            SP.div(o["k"].f(i), SP.mul(Fraction("3.7"), o["d"].f(i))),
            SP.div(Fraction("5.74"), power(SP.reynolds(o["m"].f(i), o["d"].f(i), o["eta"].f(i),
                                                       o["area"].f(i)), Fraction("0.9"))))) < 1))
    return reqs


def lambda_value_spec(friction, gas, re, k, d):
    if friction == "nikuradse":
        return SP.lambda_nikuradse(re, k, d, gas)
    if friction == "swamee-jain":
        return SP.lambda_swamee_jain(re, k, d)
    raise ValueError(friction)


def colebrook_mask(re, L):
    return band(bnot(compare("<=", absval(re), Fraction("1e-8"))),
                bnot(compare("<=", absval(L), Fraction("1e-11"))))


def _lambda_unit(ctx, gas, friction, use_numba):
    ctx.assume("A1", "A3", "A4", "A5")
    newton = NewtonModel()
    options = {"use_numba": use_numba, "max_iter_colebrook": 100,
               "tolerance_colebrook": Fraction("1e-4")}
    spec = T.ArgSpec([arr("m"), arr("eta"), arr("d"), arr("k"),
                      ("gas_mode", "const", dict(value=gas)),
                      ("friction_model", "const", dict(value=friction)),
                      arr("lengths"), ("options", "const", dict(value=options)), arr("area")])

    def build():
        del newton.recorded[:]
        return spec.build()

    def glob(module, name):
        return newton if name == "newton" else None
    paths = T.run_paths(ctx, DC + ":calc_lambda", build, hooks={"global": glob})
    ctx.use_function(S.get_function(DC + ":colebrook_white"))
    spec.build()
    o, r = spec.objs, spec.r
    req = spec.base() + lambda_requires(spec, friction)
    re = SP.reynolds(o["m"].f(r), o["d"].f(r), o["eta"].f(r), o["area"].f(r))
    normal = [p for p in paths if p.exc is None]
    raising = [p for p in paths if p.exc is not None]
    ctx.decided("cover/returns", "cover", len(normal) >= 1, witness="no returning path")
    ctx.ob("ensures/re", "ensures", req, goal_over_paths(normal, lambda p: p.result[1], re, r))
    if friction != "colebrook":
        lam = lambda_value_spec(friction, gas, re, o["k"].f(r), o["d"].f(r))
        ctx.ob("ensures/lambda", "ensures", req, goal_over_paths(normal, lambda p: p.result[0], lam, r))
        ctx.decided("ensures/no-raise", "ensures", not raising, witness="unexpected raising path")
        if gas and friction == "nikuradse":
            lam_doc = SP.lambda_nikuradse(re, o["k"].f(r), o["d"].f(r), False)
            ctx.ob("ensures/lambda-documented-formula", "ensures", req,
                   goal_over_paths(normal, lambda p: p.result[0], lam_doc, r),
                   replay=lambda m: {"handler": "nikuradse_gas_constant", "input": {"use_numba": use_numba},
                                     "expected": "lambda = 64/Re + 1/(-2 log10(k/(3.71 d)))^2 as documented"})
    else:
        for kx, p in enumerate(raising):
            ctx.decided("raises/class#%d" % kx, "ensures", p.exc.cls == "PipeflowNotConverged",
                        witness="raises %s" % p.exc.cls)
        ctx.decided("cover/raises", "cover", len(raising) >= 1,
                    witness="non-convergence of the Colebrook iteration is not reported")
        conv = z3.Bool("newton_converged")
        ctx.ob("raises/only-if-not-converged", "ensures", req,
               z3.And(*[z3.Implies(p.cond(), z3.Not(conv)) for p in raising] or [z3.BoolVal(True)]))
        recs = {id(p): [d for tag, d in p.notes if tag == "newton"] for p in paths}
        solved = [p for p in normal if recs[id(p)]]
        unsolved = [p for p in normal if not recs[id(p)]]
        ctx.ob("returns/only-if-converged", "ensures", req,
               z3.And(*[z3.Implies(p.cond(), conv) for p in solved] or [z3.BoolVal(True)]))
        ctx.decided("newton/called", "cover", len(solved) >= 1, witness="newton never called")
        turb = SP.lambda_turbulent(o["k"].f(r), o["d"].f(r), gas)   # start value kept off-mask
        want_mask = B(colebrook_mask(re, o["lengths"].f(r)))
        for kx, p in enumerate(solved):
            rec = recs[id(p)][-1]
            root = rec["root"].f(r)
            mask = rec["mask"].f(r)
            sfx = "" if len(solved) == 1 else "#%d" % kx
            ctx.ob("newton/residual-is-colebrook" + sfx, "ensures", req + [p.cond(), B(mask), root > 0],
                   K.eq_val(rec["residual"].f(r),
                            SP.colebrook_residual(root, re, o["k"].f(r), o["d"].f(r))))
            ctx.ob("newton/mask" + sfx, "ensures", req + [p.cond()] + list(p.facts), B(mask) == want_mask)
            # requires@callsite of the assumed contract of scipy's newton: a NON-EMPTY vector of start values (scipy raises a
            # ValueError on an empty one, which would leave pipeflow as an exception that is not PipeflowNotConverged -- F34)
            jj = z3.Int("j!sel")
            ctx.ob("newton/called-with-a-non-empty-selection" + sfx, "requires@callsite", req + [p.cond()] + list(p.facts),
                   z3.Exists([jj], z3.And(jj >= 0, jj < spec.NB, B(rec["mask"].f(jj)))))
            ctx.ob("ensures/lambda" + sfx, "ensures", req + list(p.facts),
                   goal_over_paths([p], lambda q: q.result[0], ite(mask, root, turb), r))
        # a return WITHOUT solving is allowed only when no row has both flow and length; every row then keeps the start value
        for kx, p in enumerate(unsolved):
            ctx.ob("unsolved-return/only-when-no-row-is-selected#%d" % kx, "ensures", req + [p.cond()] + list(p.facts),
                   z3.Not(want_mask))
            ctx.ob("unsolved-return/start-value-kept#%d" % kx, "ensures", req + list(p.facts),
                   goal_over_paths([p], lambda q: q.result[0], turb, r))
    ctx.check_safety(paths, req, "fn")


for _g in (False, True):
    for _fr in ("nikuradse", "swamee-jain", "colebrook"):
        for _eng, _nb in ENGINES:
            def _mk4(g=_g, fr=_fr, eng=_eng, nb=_nb):
                @unit("C02", "calc_lambda/%s/%s/%s" % ("gas" if g else "liquid", fr, eng),
                      functions=[DC + ":calc_lambda"], engine="E2")
                def _a(ctx):
                    _lambda_unit(ctx, g, fr, nb)
            _mk4()


# ---------------------------------------------------------------------------------------------
# stage: calculate_derivatives_hydraulic with the callee contracts applied

class CallLog:
    def __init__(self):
        self.requires = []     # (label, formula builder result)


def stage_contracts(fluid, gas, friction, log, sp):
    """callee contracts as value transformers: the result *is* the spec function of the actual
    arguments (functional postcondition); preconditions are logged as call-site obligations."""
    u = fluid.ufs
    root_uf = z3.Function("lambda_colebrook_root", z3.IntSort(), z3.RealSort())
    conv = z3.Bool("colebrook_converged")

    def c_derived(ev, args, kwargs):
        npit, fn, tn = args[0], args[1], args[2]
        fs = [lambda j, _k=k: derived_spec(npit, fn.f(j), tn.f(j))[_k] for k in range(4)]
        return tuple(Arr(fn.n, f, "f") for f in fs)

    def c_medium(ev, args, kwargs):
        pf, pt = args
        j = fresh("cs")
        log.requires.append(("calc_medium_pressure/positive-pressures",
                             z3.Implies(z3.And(j >= 0, B(compare("<", j, pf.n))),
                                        z3.And(R(pf.f(j)) > 0, R(pt.f(j)) > 0))))
        pm = lift(SP.mean_pressure, pf, pt)
        d1 = K.sym_arr("der_p_m!res", pf.n)
        d2 = K.sym_arr("der_p_m1!res", pf.n)
        return pm, d1, d2

    def c_density(ev, args, kwargs):
        fl, npit, bp = args
        return Arr(bp.n, lambda j: density_spec(fluid, gas, bp, npit, j), "f")

    def c_eta(ev, args, kwargs):
        fl, npit, bp, pm = args
        return Arr(bp.n, lambda j: eta_spec(fluid, bp, npit, j), "f")

    def c_lambda(ev, args, kwargs):
        m, eta, d, k, gas_mode, fm, lengths, options, area = args
        j = fresh("cs")
        log.requires.append(("calc_lambda/admissible",
                             z3.Implies(z3.And(j >= 0, B(compare("<", j, m.n))),
                                        z3.And(R(d.f(j)) > 0, R(k.f(j)) > 0, R(k.f(j)) < R(d.f(j)),
                                               R(eta.f(j)) > 0, R(area.f(j)) > 0,
                                               R(lengths.f(j)) >= 0))))
        re = lift(SP.reynolds, m, d, eta, area)
        if fm == "colebrook":
            if not ev.decide(conv):
                raise E._Raise(E.ExcVal("PipeflowNotConverged"))
            turb = lift(lambda kk, dd: SP.lambda_turbulent(kk, dd, gas_mode), k, d)
            lam = Arr(m.n, lambda jj: ite(colebrook_mask(re.f(jj), lengths.f(jj)), root_uf(V.I(jj)),
                                          turb.f(jj)), "f")
            return lam, re
        lam = lift(lambda rr, kk, dd: lambda_value_spec(fm, gas_mode, rr, kk, dd), re, k, d)
        return lam, re

    def c_kernel_incomp(ev, args, kwargs):
        bp, der_lambda, pf, pt, dh, rho = args
        j = fresh("cs")
        log.requires.append(("kernel/admissible",
                             z3.Implies(z3.And(j >= 0, B(compare("<", j, bp.n))),
                                        z3.And(R(bp.f(j, B_D)) > 0, R(bp.f(j, B_AREA)) > 0,
                                               R(rho.f(j)) > 0))))
        bf = bp.f    # the kernel reads the pit as it is at the call (LAMBDA already stored)
        m = lambda jj: bf(jj, B_MDOTINIT)
        Rf = lambda jj: SP.residual_liquid(m(jj), pf.f(jj), pt.f(jj), bf(jj, B_PL), dh.f(jj), rho.f(jj),
                                           bf(jj, B_LAMBDA), bf(jj, B_LENGTH), bf(jj, B_D),
                                           bf(jj, B_LOSS_COEFFICIENT), bf(jj, B_AREA))
        fr = lambda jj: SP.friction_loss_liquid(m(jj), rho.f(jj), bf(jj, B_LAMBDA), bf(jj, B_LENGTH),
                                                bf(jj, B_D), bf(jj, B_LOSS_COEFFICIENT), bf(jj, B_AREA))
        n = bp.n
        return (Arr(n, Rf), Arr(n, m), Arr(n, m), K.sym_arr("df_dm!res", n), Arr(n, lambda jj: 1),
                Arr(n, lambda jj: 1), Arr(n, lambda jj: -1), Arr(n, fr))

    def c_kernel_comp(ev, args, kwargs):
        npit, bp, lam, der_lambda, pf, pt, dh, comp, dc, dc1, rho, rho_n = args
        j = fresh("cs")
        log.requires.append(("kernel/admissible",
                             z3.Implies(z3.And(j >= 0, B(compare("<", j, bp.n))),
                                        z3.And(R(bp.f(j, B_D)) > 0, R(bp.f(j, B_AREA)) > 0,
                                               R(rho_n.f(j)) > 0, R(pf.f(j)) > 0, R(pt.f(j)) > 0))))
        bf, nf = bp.f, npit.f
        m = lambda jj: bf(jj, B_MDOTINIT)
        tm = lambda jj: SP.div(SP.add(nf(V.I(bf(jj, B_FROM_NODE)), N_TINIT), bf(jj, B_TOUTINIT)), 2)
        Rf = lambda jj: SP.residual_gas(m(jj), pf.f(jj), pt.f(jj), bf(jj, B_PL), dh.f(jj), rho.f(jj),
                                        rho_n.f(jj), lam.f(jj), bf(jj, B_LENGTH), bf(jj, B_D),
                                        bf(jj, B_LOSS_COEFFICIENT), bf(jj, B_AREA), tm(jj), comp.f(jj))
        n = bp.n
        return (Arr(n, Rf), Arr(n, m), Arr(n, m), K.sym_arr("df_dm!res", n), Arr(n, lambda jj: 1),
                K.sym_arr("df_dp!res", n), K.sym_arr("df_dp1!res", n), K.sym_arr("dp_frict!res", n))

    def c_der_lambda(ev, args, kwargs):
        return K.sym_arr("der_lambda!res", args[0].n)

    cs = {
        TB + ":calc_derived_values_np": c_derived, TBN + ":calc_derived_values_numba": c_derived,
        TB + ":calc_medium_pressure_with_derivative_np": c_medium,
        TBN + ":calc_medium_pressure_with_derivative_numba": c_medium,
        PT + ":get_branch_real_density": c_density, PT + ":get_branch_real_eta": c_eta,
        DC + ":calc_lambda": c_lambda, DC + ":calc_der_lambda": c_der_lambda,
        TB + ":derivatives_hydraulic_incomp_np": c_kernel_incomp,
        TBN + ":derivatives_hydraulic_incomp_numba": c_kernel_incomp,
        TB + ":derivatives_hydraulic_comp_np": c_kernel_comp,
        TBN + ":derivatives_hydraulic_comp_numba": c_kernel_comp,
    }
    return cs, root_uf, conv


def stage_requires(sp, fluid, gas):
    bp = sp.objs["branch_pit"]
    reqs = pit_requires(sp, fluid, gas)
    reqs.append(forall_b(sp, lambda i: z3.And(
        bp.f(i, B_D) > 0, bp.f(i, B_AREA) > 0, bp.f(i, B_K) > 0, bp.f(i, B_K) < bp.f(i, B_D),
        bp.f(i, B_LENGTH) >= 0)))
    return reqs


def stage_spec_terms(fluid, gas, friction, bp, npit, r, root_uf):
    u = fluid.ufs
    fn, tn = V.I(bp.f(r, B_FROM_NODE)), V.I(bp.f(r, B_TO_NODE))
    tb, dh, pf, pt = derived_spec(npit, fn, tn)
    m = bp.f(r, B_MDOTINIT)
    rho = density_spec(fluid, gas, bp, npit, r)
    eta = eta_spec(fluid, bp, npit, r)
    re = SP.reynolds(m, bp.f(r, B_D), eta, bp.f(r, B_AREA))
    if friction == "colebrook":
        turb = SP.lambda_turbulent(bp.f(r, B_K), bp.f(r, B_D), gas)
        lam = ite(colebrook_mask(re, bp.f(r, B_LENGTH)), root_uf(V.I(r)), turb)
    else:
        lam = lambda_value_spec(friction, gas, re, bp.f(r, B_K), bp.f(r, B_D))
    if gas:
        pm = SP.mean_pressure(pf, pt)
        comp = u["compressibility"](R(pm))
        tm = SP.div(SP.add(npit.f(fn, N_TINIT), bp.f(r, B_TOUTINIT)), 2)
        rho_n = u["density"](z3.RealVal(SP.T_N))
        Rr = SP.residual_gas(m, pf, pt, bp.f(r, B_PL), dh, rho, rho_n, lam, bp.f(r, B_LENGTH),
                             bp.f(r, B_D), bp.f(r, B_LOSS_COEFFICIENT), bp.f(r, B_AREA), tm, comp)
    else:
        Rr = SP.residual_liquid(m, pf, pt, bp.f(r, B_PL), dh, rho, lam, bp.f(r, B_LENGTH), bp.f(r, B_D),
                                bp.f(r, B_LOSS_COEFFICIENT), bp.f(r, B_AREA))
    return dict(m=m, re=re, lam=lam, R=Rr, rho=rho)


def _stage(ctx, gas, friction, use_numba):
    ctx.assume("A1", "A3", "A4", "A5")
    fluid = K.make_fluid(gas)
    spec = T.ArgSpec([
        ("net", "obj", dict(make=lambda: K.NetObj({"fluid": fluid, "_options": {}}))),
        ("branch_pit", "pit", dict(rows="b", ncols=NCB, int_cols=INT_B)),
        ("node_pit", "pit", dict(rows="n", ncols=NCN)),
        ("branch_pit_old", "const", dict(value=None)),
        ("node_pit_old", "const", dict(value=None)),
        ("options", "const", dict(value={"use_numba": use_numba, "friction_model": friction})),
    ])
    log = CallLog()
    cs, root_uf, conv = stage_contracts(fluid, gas, friction, log, spec)

    paths = T.run_paths(ctx, DC + ":calculate_derivatives_hydraulic", spec.build, contracts=cs)
    callsite, seen_lbl = [], set()
    for lbl, f in log.requires:      # one instance per call site (paths repeat them)
        if lbl not in seen_lbl:
            seen_lbl.add(lbl)
            callsite.append((lbl, f))
    spec.build()
    bp0, np0 = spec.objs["branch_pit"], spec.objs["node_pit"]
    r = spec.r
    req = spec.base() + stage_requires(spec, fluid, gas)
    s = stage_spec_terms(fluid, gas, friction, bp0, np0, r, root_uf)
    normal = [p for p in paths if p.exc is None]
    ctx.decided("cover/returns", "cover", len(normal) >= 1, witness="no normally returning path")
    ctx.decided("cover/contracts-applied", "cover", len(callsite) >= 2,
                witness="callee contracts were not reached (%d call sites)" % len(callsite),
                note="vacuity guard: the stage must call the kernels and helpers under contract")
    for kx, (lbl, f) in enumerate(callsite):
        ctx.ob("requires@%s#%d" % (lbl, kx), "requires@callsite", req, f)

    def col(colidx, expect):
        gs = [z3.Implies(p.cond(), K.eq_val(p.args[0][1].f(r, colidx), expect)) for p in normal]
        return z3.And(*gs)
    ctx.ob("ensures/LOAD_VEC_BRANCHES", "ensures", req, col(B_LOAD_VEC_BRANCHES, s["R"]))
    ctx.ob("ensures/RE", "ensures", req, col(B_RE, s["re"]))
    ctx.ob("ensures/LAMBDA", "ensures", req, col(B_LAMBDA, s["lam"]))
    ctx.ob("ensures/LOAD_VEC_NODES_FROM", "ensures", req, col(B_LOAD_VEC_NODES_FROM, s["m"]))
    ctx.ob("ensures/LOAD_VEC_NODES_TO", "ensures", req, col(B_LOAD_VEC_NODES_TO, s["m"]))
    ctx.ob("ensures/JAC_DERIV_DM_NODE", "ensures", req, col(B_JAC_DERIV_DM_NODE, 1))
    if not gas:
        ctx.ob("ensures/JAC_DERIV_DP", "ensures", req, col(B_JAC_DERIV_DP, 1))
        ctx.ob("ensures/JAC_DERIV_DP1", "ensures", req, col(B_JAC_DERIV_DP1, -1))
    if friction == "colebrook":
        raising = [p for p in paths if p.exc is not None]
        ctx.decided("raises/propagated", "ensures",
                    len(raising) >= 1 and all(p.exc.cls == "PipeflowNotConverged" for p in raising),
                    witness="Colebrook non-convergence is swallowed by the stage")
    for nm, c in (("MDOTINIT", B_MDOTINIT), ("LENGTH", B_LENGTH), ("D", B_D), ("AREA", B_AREA),
                  ("K", B_K), ("PL", B_PL), ("LC", B_LOSS_COEFFICIENT), ("FROM_NODE", B_FROM_NODE),
                  ("TO_NODE", B_TO_NODE), ("TOUTINIT", B_TOUTINIT)):
        ctx.ob("frame/%s" % nm, "frame", req, col(c, bp0.f(r, c)))
    # node pit untouched
    q = spec.q
    for nm, c in (("PINIT", N_PINIT), ("TINIT", N_TINIT), ("PAMB", N_PAMB), ("HEIGHT", N_HEIGHT)):
        gs = [z3.Implies(p.cond(), K.eq_val(p.args[0][2].f(q, c), np0.f(q, c))) for p in normal]
        ctx.ob("frame/node-%s" % nm, "frame", req, z3.And(*gs))


for _g in (False, True):
    for _fr in ("nikuradse", "swamee-jain", "colebrook"):
        for _eng, _nb in ENGINES:
            def _mk5(g=_g, fr=_fr, eng=_eng, nb=_nb):
                @unit("C02", "stage/%s/%s/%s" % ("gas" if g else "liquid", fr, eng),
                      functions=[DC + ":calculate_derivatives_hydraulic"], engine="E2")
                def _a(ctx):
                    _stage(ctx, g, fr, nb)
            _mk5()


# ---------------------------------------------------------------------------------------------
# derived gas result columns: each end's normfactor / velocity follows from THAT end's pressure and temperature

def _gas_result_spec(ctx, comp_2d):
    ctx.assume("A1", "A3", "A4", "A5")
    fluid = K.make_fluid(True, comp_2d=comp_2d)
    TSW = B_FROM_NODE_T_SWITCHED
    PAMB, TIN = K.const(ND, "PAMB"), K.const(ND, "TINIT")
    TOUT = K.const(BR, "TOUTINIT")
    spec = T.ArgSpec([
        ("net", "obj", dict(make=lambda: K.NetObj({"fluid": fluid}))),
        ("branch_pit", "pit", dict(rows="b", ncols=NCB, int_cols=INT_B)),
        ("node_pit", "pit", dict(rows="n", ncols=NCN)),
        arr("from_nodes", kind="i"), arr("to_nodes", kind="i"),
        arr("v_mps"), arr("p_from"), arr("p_to")])
    names = ["v_gas_from", "v_gas_to", "v_gas_mean", "p_abs_from", "p_abs_to", "p_abs_mean",
             "normfactor_from", "normfactor_to", "normfactor_mean"]
    for key, tag in ((RX + ":get_branch_results_gas", "numpy"), (RX + ":get_branch_results_gas_numba", "numba")):
        paths = T.run_paths(ctx, key, spec.build)
        spec.build()
        o = spec.objs
        bp, npit, r = o["branch_pit"], o["node_pit"], spec.r
        fnode, tnode = o["from_nodes"].f(r), o["to_nodes"].f(r)
        i = z3.Int("i!req")
        body = lambda i: z3.And(
            o["from_nodes"].f(i) >= 0, o["from_nodes"].f(i) < spec.NN, o["to_nodes"].f(i) >= 0, o["to_nodes"].f(i) < spec.NN,
            z3.ToInt(bp.f(i, B_FROM_NODE)) == o["from_nodes"].f(i), z3.ToInt(bp.f(i, B_TO_NODE)) == o["to_nodes"].f(i),
            z3.Or(z3.ToInt(bp.f(i, TSW)) == 0, z3.ToInt(bp.f(i, TSW)) == 1),
            npit.f(o["from_nodes"].f(i), PAMB) + o["p_from"].f(i) > 0, npit.f(o["to_nodes"].f(i), PAMB) + o["p_to"].f(i) > 0)
        # (the instance at the generic row r is stated explicitly: it spares the solver the instantiation)
        req = spec.base() + [z3.ForAll([i], z3.Implies(z3.And(i >= 0, i < spec.NB), body(i))), body(r)]
        ok = len(paths) >= 1 and all(p.exc is None for p in paths)
        ctx.decided("%s/returns" % tag, "cover", ok, witness=str([str(p.exc) for p in paths]))
        if not ok:
            continue
        pf = V.R(SP.add(npit.f(fnode, PAMB), o["p_from"].f(r)))
        pt = V.R(SP.add(npit.f(tnode, PAMB), o["p_to"].f(r)))
        close = z3.If(pf - pt >= 0, pf - pt, pt - pf) <= z3.RealVal("1e-8") + z3.RealVal("1e-5") * z3.If(pt >= 0, pt, -pt)
        cube = lambda x: SP.mul(x, x, x)
        sq = lambda x: SP.mul(x, x)
        # documented mean pressure 2/3 (pf^3 - pt^3) / (pf^2 - pt^2)
        pm = z3.If(close, pf, V.R(SP.div(SP.mul(Fraction(2, 3), SP.sub(cube(pf), cube(pt))), SP.sub(sq(pf), sq(pt)))))
        t_in = z3.If(z3.ToInt(bp.f(r, TSW)) == 1, V.R(npit.f(tnode, TIN)), V.R(npit.f(fnode, TIN)))
        t_out = V.R(bp.f(r, TOUT))
        tm = V.R(SP.div(SP.add(t_in, t_out), 2))
        cf = fluid.ufs["compressibility"]
        comp = (lambda p_, t_: cf(p_, t_)) if comp_2d else (lambda p_, t_: cf(p_))
        # documented factor p_N T K / (T_N p) (spec.normfactor), built with the same constant-pulling constructors as
        # the evaluator so that only genuine differences are left to the solver
        nf = lambda p_, t_: V.R(SP.normfactor(p_, t_, comp(p_, t_)))
        v = V.R(o["v_mps"].f(r))
        want = {"p_abs_from": pf, "p_abs_to": pt, "p_abs_mean": pm,
                "normfactor_from": nf(pf, t_in), "normfactor_to": nf(pt, t_out), "normfactor_mean": nf(pm, tm),
                "v_gas_from": V.R(SP.mul(v, nf(pf, t_in))), "v_gas_to": V.R(SP.mul(v, nf(pt, t_out))),
                "v_gas_mean": V.R(SP.mul(v, nf(pm, tm)))}
        facts = T.all_facts(paths)
        proved = []
        for nm in ("p_abs_from", "p_abs_to", "p_abs_mean", "normfactor_from", "normfactor_to", "normfactor_mean",
                   "v_gas_from", "v_gas_to", "v_gas_mean"):
            k = names.index(nm)
            g = z3.And(*[z3.Implies(p.cond(), K.eq_val(T.elem_at(p.result[k], r), want[nm])) for p in paths])
            # lemma chaining: the columns already proved are valid under req + facts
            lem = [x for n_, x in proved if (nm.startswith("normfactor") and n_.startswith("p_abs"))
                   or (nm.startswith("v_gas") and n_ == nm.replace("v_gas", "normfactor"))]
            if ctx.ob("%s/%s-follows-from-that-end's-state" % (tag, nm), "ensures", req + facts + lem + [pf * pf - pt * pt != 0], g):
                proved.append((nm, g))


@unit("C02", "gas_results/compressibility_1d", functions=[RX + ":get_branch_results_gas", RX + ":get_branch_results_gas_numba",
                                                         RX + ":get_pressures_numba", RX + ":get_gas_vel_numba"], engine="E2")
def gas_result_spec_1d(ctx):
    _gas_result_spec(ctx, False)


@unit("C02", "gas_results/compressibility_2d", functions=[RX + ":get_branch_results_gas", RX + ":get_branch_results_gas_numba",
                                                         RX + ":get_pressures_numba", RX + ":get_gas_vel_numba"], engine="E2")
def gas_result_spec_2d(ctx):
    _gas_result_spec(ctx, True)



@unit("C02", "pipe_sections/internal_nodes", functions=["pandapipes.component_models.pipe_component:Pipe.create_pit_node_entries"],
      engine="E3")
def pipe_internal_nodes_c02(ctx):
    """the absolute pressures of the momentum equation at the internal nodes of a multi-section pipe: PINIT, HEIGHT
    interpolated between the pipe's junctions, PAMB computed from the interpolated height of the same node (shared with C09)"""
    from contracts.C09 import pipe_internal_nodes
    pipe_internal_nodes(ctx)


@unit("C02", "ambient_pressure", functions=["pandapipes.component_models.component_toolbox:p_correction_height_air"], engine="E2")
def ambient_pressure(ctx):
    """the ambient pressure added to the gauge pressures of the momentum equation is the documented barometric
    formula p_N (1 - 0.0065 h / 288.15)^5.255 at the node's height"""
    ctx.assume("A1", "A3")
    n = z3.Int("NH")
    h = K.sym_arr("height", n, "f")
    paths = T.run_paths(ctx, "pandapipes.component_models.component_toolbox:p_correction_height_air",
                        lambda: ([K.sym_arr("height", n, "f")], {}))
    ok = len(paths) == 1 and paths[0].exc is None and is_array(paths[0].result)
    ctx.decided("returns-array", "cover", ok, witness=str([str(p.exc) for p in paths]))
    if ok:
        i = z3.Int("i!row")
        ctx.ob("barometric-formula", "ensures", [n >= 1, i >= 0, i < n] + list(paths[0].facts),
               K.eq_val(paths[0].result.f(i), SP.p_amb(h.f(i))))


# ---------------------------------------------------------------------------------------------
# geometry columns of the pipe sections: what the momentum equation is evaluated with

PCM_ = "pandapipes.component_models.pipe_component"
BWI_ = "pandapipes.component_models.abstract_models.branch_w_internals_models"
CTB_ = "pandapipes.component_models.component_toolbox"


@unit("C02", "pipe_sections/parameter_columns", functions=[PCM_ + ":Pipe.create_pit_branch_entries", CTB_ + ":set_entry_check_repeat"],
      engine="E3")
def pipe_parameter_columns(ctx):
    """every section of pipe i carries LENGTH = 1000 length_km[i] / sections[i], K = k_mm[i] / 1000, ALPHA = u_w_per_m2k[i],
    TEXT = text_k[i] (ambient temperature where missing) and AREA = D^2 pi / 4: the values handed to set_entry_check_repeat
    with the section counts as repeat numbers (recorded call), and set_entry_check_repeat's own contract (np.repeat model:
    element k belongs to entry owner(k)).  np.insert (node wiring of the sections, bounded in C09) is replaced by an opaque
    array here."""
    ctx.assume("A1", "A3", "A4", "A6", "A7")
    cref = S.get_module(PCM_).classes["Pipe"]
    NP_, NBS, NLJ = z3.Int("NPIPE"), z3.Int("NSEC"), z3.Int("NLJ")
    cols = {"from_junction": "i", "to_junction": "i", "length_km": "f", "k_mm": "f", "u_w_per_m2k": "f", "text_k": ("f", True),
            "sections": "i"}
    calls = []
    secs = K.sym_arr("sections", NP_, "i")
    B_LENGTH, B_K, B_ALPHA, B_TEXT, B_AREA_, B_D_ = (K.const(BR, x) for x in ("LENGTH", "K", "ALPHA", "TEXT", "AREA", "D"))

    def c_set(ev, a, k):
        calls.append({"col": a[1], "entry": a[2], "rep": a[3], "repeated": a[4] if len(a) > 4 else k.get("repeated", True)})
        return None

    def mk():
        del calls[:]
        net = K.NetObj({"pipe": K.sym_table("pipe", NP_, cols), "fluid": K.make_fluid(False),
                        "_options": {"transient": False, "simulation_time_step": 0, "ambient_temperature": z3.Real("t_amb")},
                        "_lookups": {"node_index": {"junction": K.sym_arr("junction_lookup", NLJ, "i")},
                                     "node_from_to": {"pipe_nodes": (z3.Int("f_pn"), z3.Int("t_pn"))}}})
        return [cref, net, K.sym_pit("branch_pit", z3.Int("NB"), NCB)], {}
    opaque = lambda ev, a, k: K.sym_arr("wired_nodes", NBS, "i")
    try:
        paths = T.run_paths(ctx, PCM_ + ":Pipe.create_pit_branch_entries", mk, contracts={
            BWI_ + ":BranchWInternalsComponent.create_pit_branch_entries": lambda ev, a, k: (PitSlice(a[2], z3.Int("f_p"), z3.Int("f_p") + NBS),
                                                                                            K.sym_pit("node_pit", z3.Int("NN"), NCN)),
            PCM_ + ":Pipe.get_internal_branch_number": lambda ev, a, k: secs,
            PCM_ + ":Pipe.get_internal_node_number": lambda ev, a, k: K.sym_arr("int_nodes", NP_, "i"),
            CTB_ + ":set_entry_check_repeat": c_set},
            hooks={"np": {"insert": opaque,
                          "arange": lambda ev, a, k: (K.sym_arr("internal_node_rows", z3.Int("NINT"), "i") if len(a) == 2
                                                      else __import__("pvc.npmodel", fromlist=["call"]).call(ev, "arange", a, k, 0, None))}})
    except Unsupported as e:
        ctx.undecided("subset", "unsupported", str(e))
        return
    normal = [p for p in paths if p.exc is None]
    ctx.decided("paths", "cover", len(normal) >= 1 and len(normal) == len(paths), witness=str([str(p.exc) for p in paths]))
    tbl = K.sym_table("pipe", NP_, cols)
    i = z3.Int("i!pipe")
    want = {B_LENGTH: ("LENGTH", lambda: V.R(SP.div(SP.mul(tbl.columns["length_km"].f(i), 1000), secs.f(i)))),
            B_K: ("K", lambda: V.R(SP.div(tbl.columns["k_mm"].f(i), 1000))),
            B_ALPHA: ("ALPHA", lambda: V.R(tbl.columns["u_w_per_m2k"].f(i)))}
    seen = {}
    for c in calls:                   # (the recorded calls of the LAST path; every path makes the same four calls -- checked below)
        seen[c["col"]] = c
    ctx.decided("four-parameter-columns-filled", "ensures", set(seen) >= {B_LENGTH, B_K, B_ALPHA, B_TEXT}, witness=str(sorted(str(k) for k in seen)))
    base = [NP_ >= 1, i >= 0, i < NP_, z3.ForAll([z3.Int("q")], z3.Implies(z3.And(z3.Int("q") >= 0, z3.Int("q") < NP_), secs.f(z3.Int("q")) >= 1))]
    for col, (nm, exp) in want.items():
        if col not in seen:
            continue
        c = seen[col]
        ctx.ob("%s/value-per-pipe" % nm, "ensures", base + T.all_facts(normal), K.eq_val(c["entry"].f(i), exp()))
        ctx.decided("%s/one-copy-per-section" % nm, "ensures", c["rep"] is secs, witness=repr(c["rep"]))
    if B_TEXT in seen:
        tx = tbl.columns["text_k"].f(i)
        ctx.ob("TEXT/value-per-pipe", "ensures", base + T.all_facts(normal),
               z3.And(B(nan_of(seen[B_TEXT]["entry"].f(i))) == B(nan_of(tx)),
                      z3.Implies(z3.Not(B(nan_of(tx))), K.eq_val(val_of(seen[B_TEXT]["entry"].f(i)), val_of(tx)))))
    # AREA of every section row from its diameter
    k_ = z3.Int("k!sec")
    fp = z3.Int("f_p")
    for kx, p in enumerate(normal):
        bp = p.args[0][2]
        bp0 = K.sym_pit("branch_pit", z3.Int("NB"), NCB)
        ctx.ob("AREA/from-diameter#%d" % kx, "ensures", [NBS >= 1, k_ >= 0, k_ < NBS, fp >= 0, p.cond(), V.PI > 3] + list(p.facts),
               K.eq_val(bp.f(fp + k_, B_AREA_), SP.div(SP.mul(bp0.f(fp + k_, B_D_), bp0.f(fp + k_, B_D_), V.PI), 4)))
    # set_entry_check_repeat itself
    n_e, tot = z3.Int("NE"), z3.Int("NROWS")
    ent, rep = K.sym_arr("entry", n_e, "f"), K.sym_arr("repeat_number", n_e, "i")
    for repeated in (True, False):
        pp_ = T.run_paths(ctx, CTB_ + ":set_entry_check_repeat",
                          lambda: ([K.sym_pit("pit", tot, NCB), B_LENGTH, K.sym_arr("entry", n_e, "f"), K.sym_arr("repeat_number", n_e, "i"), repeated], {}))
        ok = len(pp_) == 1 and pp_[0].exc is None
        ctx.decided("set_entry_check_repeat/%s/single-path" % repeated, "cover", ok, witness=str([str(q.exc) for q in pp_]))
        if not ok:
            continue
        pit = pp_[0].args[0][0]
        if repeated:
            # pit[:, column] = np.repeat(entry, repeat_number): the assumed model of np.repeat (A4: row r carries the entry of its
            # owner, psum(owner) <= r < psum(owner + 1)) is the whole content of this branch; nothing left to discharge
            ctx.decided("set_entry_check_repeat/repeated/stores-np.repeat-of-the-entries", "ensures", True)
        else:
            rr = z3.Int("r!row")
            ctx.ob("set_entry_check_repeat/plain/row-r-carries-entry-r", "ensures",
                   [n_e >= 1, rr >= 0, rr < n_e, tot == n_e] + list(pp_[0].facts) + [pp_[0].cond()],
                   K.eq_val(pit.f(rr, B_LENGTH), ent.f(rr)))


@unit("C02", "pipe_sections/diameter_columns", functions=[BWI_ + ":BranchWInternalsComponent.create_pit_branch_entries"], engine="E3")
def pipe_diameter_columns(ctx):
    """base class of the sectioned components: every section of element i carries D = inner_diameter_mm[i] / 1000, the lumped
    loss coefficient of the element, the element's label and activity flag; DO is the outer diameter where given, else the inner
    one (that the user's column is copied before NaNs are filled is the frame obligation of C12)"""
    ctx.assume("A1", "A3", "A4", "A6", "A7")
    cref = S.get_module(PCM_).classes["Pipe"]
    NP_, NBS = z3.Int("NPIPE"), z3.Int("NSEC")
    cols = {"inner_diameter_mm": "f", "outer_diameter_mm": ("f", True), "loss_coefficient": "f", "in_service": "b"}
    secs = K.sym_arr("sections", NP_, "i")
    calls = []
    B_D_, B_DO_, B_LC_, B_EI, B_ACT, B_AREA_ = (K.const(BR, x) for x in ("D", "DO", "LOSS_COEFFICIENT", "ELEMENT_IDX", "ACTIVE", "AREA"))
    BM_ = "pandapipes.component_models.abstract_models.branch_models"

    def c_set(ev, a, k):
        calls.append({"col": a[1], "entry": a[2], "rep": a[3]})
        ev.path.notes.append(("set", calls[-1]))
        return None

    def mk():
        net = K.NetObj({"pipe": K.sym_table("pipe", NP_, cols),
                        "_options": {"transient": False, "simulation_time_step": 0},
                        "_lookups": {"node_from_to": {"pipe_nodes": (z3.Int("f_pn"), z3.Int("t_pn"))}}})
        return [cref, net, K.sym_pit("branch_pit", z3.Int("NB"), NCB)], {}
    try:
        paths = T.run_paths(ctx, BWI_ + ":BranchWInternalsComponent.create_pit_branch_entries", mk, contracts={
            BM_ + ":BranchComponent.create_pit_branch_entries": lambda ev, a, k: (PitSlice(a[2], z3.Int("f_p"), z3.Int("f_p") + NBS),
                                                                                  K.sym_pit("node_pit", z3.Int("NN"), NCN)),
            PCM_ + ":Pipe.get_internal_branch_number": lambda ev, a, k: secs,
            CTB_ + ":set_entry_check_repeat": c_set})
    except Unsupported as e:
        ctx.undecided("subset", "unsupported", str(e))
        return
    normal = [p for p in paths if p.exc is None and [d for t_, d in p.notes if t_ == "set"]]
    ctx.decided("paths", "cover", len(normal) >= 1 and all(p.exc is None for p in paths), witness=str([str(p.exc) for p in paths]))
    tbl = K.sym_table("pipe", NP_, cols)
    i = z3.Int("i!pipe")
    for kx, p in enumerate(normal):
        seen = {}
        for t_, d in p.notes:
            if t_ == "set":
                seen[d["col"]] = d
        ctx.decided("columns-filled#%d" % kx, "ensures", set(seen) >= {B_D_, B_DO_, B_LC_, B_EI, B_ACT}, witness=str(sorted(str(c) for c in seen)))
        base = [NP_ >= 1, i >= 0, i < NP_, p.cond()] + list(p.facts)
        inner = V.R(SP.div(tbl.columns["inner_diameter_mm"].f(i), 1000))
        if B_D_ in seen:
            ctx.ob("D/value-per-element#%d" % kx, "ensures", base, K.eq_val(seen[B_D_]["entry"].f(i), inner))
        if B_LC_ in seen:
            ctx.ob("LC/value-per-element#%d" % kx, "ensures", base, K.eq_val(seen[B_LC_]["entry"].f(i), tbl.columns["loss_coefficient"].f(i)))
        if B_EI in seen:
            ctx.ob("ELEMENT_IDX/label-per-element#%d" % kx, "ensures", base, K.eq_val(seen[B_EI]["entry"].f(i), tbl.index.f(i)))
        if B_ACT in seen:
            ctx.ob("ACTIVE/flag-per-element#%d" % kx, "ensures", base,
                   B(compare("!=", seen[B_ACT]["entry"].f(i), 0)) == B(tbl.columns["in_service"].f(i)) if False else
                   K.eq_val(seen[B_ACT]["entry"].f(i), ite(tbl.columns["in_service"].f(i), 1, 0)))
        if B_DO_ in seen:
            od = tbl.columns["outer_diameter_mm"].f(i)
            e_ = seen[B_DO_]["entry"].f(i)
            ctx.ob("DO/outer-where-given-else-inner#%d" % kx, "ensures", base,
                   K.eq_val(val_of(e_), ite(nan_of(od), inner, V.R(SP.div(val_of(od), 1000)))))
        for c in seen.values():
            if c["rep"] is not secs:
                ctx.decided("one-copy-per-section#%d" % kx, "ensures", False, witness=repr(c["rep"]))
                break
        else:
            ctx.decided("one-copy-per-section#%d" % kx, "ensures", True)
