"""C06 -- results do not depend on labels, row order or creation order.

The label-dependent code is the translation label -> internal position and back.  Contracts:

  Junction.create_node_lookups               idx_lookup[label(i)] == start + i for every row i, -1 elsewhere,
  BranchWInternals.create_branch_lookups     size max(label)+1; from_to range; returned counters
  BranchWOInternals.create_branch_lookups    from_to range, returned counters (every concrete class)
  Junction.create_pit_node_entries           row f+i of the node pit holds the columns of table row i
  BranchWOInternals.create_pit_branch_entries  FROM/TO = lookup[from/to junction label], ELEMENT_IDX = label,
                                             ACTIVE = the class's activity column (every concrete class)
  composition lemma                          with the lookup contract FROM_NODE(f+i) is the pit row of the junction
                                             whose LABEL equals the referenced label -- no other use of the
                                             label value, so any injective relabelling gives the same pit
  reduce_lookups                             active lookup: label -> rank of the position, -1 if unsupplied
  extract_branch_results_without_internals   table row i <- branch_results[f+i] (positional; supplied rows only)
  Junction.extract_results                   table row i <- node pit row f+i

Bounded stand-ins (run natively, listed as bounded): _sum_by_group (numpy and numba paths, incl.
labels >= 1e5) against the group-sum spec, and extract_branch_results_with_internals for
multi-section pipes under all labellings / row orders of small nets (known finding F2 fixed).
"""
import z3

from pvc.harness import unit, venv_run
from pvc import src as S, kern as K, twin as T, ev as E, classes as CL
from pvc.val import *  # noqa
from pvc import val as V

# property-level native oracle used as the replay of refuted obligations that carry no model-specific replay
FALLBACK_REPLAY = {"handler": "bounded_any", "input": {"what": "relabel_pipeline"}, "expected": "results are invariant under relabelling and row order"}

JC = "pandapipes.component_models.junction_component"
BWO = "pandapipes.component_models.abstract_models.branch_wo_internals_models"
BWI = "pandapipes.component_models.abstract_models.branch_w_internals_models"
BM = "pandapipes.component_models.abstract_models.branch_models"
PS = "pandapipes.pf.pipeflow_setup"
RX = "pandapipes.pf.result_extraction"
CT = "pandapipes.component_models.component_toolbox"
BR = "pandapipes.idx_branch"
ND = "pandapipes.idx_node"
NCB = K.const(BR, "branch_cols")
NCN = K.const(ND, "node_cols")
for _n in ("FROM_NODE", "TO_NODE", "ACTIVE", "ELEMENT_IDX", "TOUTINIT", "TABLE_IDX", "FLOW_RETURN_CONNECT", "MDOTINIT"):
    globals()["B_" + _n] = K.const(BR, _n)
for _n in ("ACTIVE", "PINIT", "TINIT", "ELEMENT_IDX", "HEIGHT", "TABLE_IDX", "NODE_TYPE", "L"):
    globals()["N_" + _n] = K.const(ND, _n)
INT_B = (B_FROM_NODE, B_TO_NODE, B_ACTIVE, B_ELEMENT_IDX, B_TABLE_IDX, B_FLOW_RETURN_CONNECT)
INT_N = (N_ACTIVE, N_ELEMENT_IDX, N_TABLE_IDX, N_NODE_TYPE)
NB, NN, NJ = z3.Int("NB"), z3.Int("NN"), z3.Int("NJ")


def labels_ok(lab, n):
    """precondition on a table index (established by the create functions, C16): non-negative, unique"""
    i, j = z3.Int("i!lab"), z3.Int("j!lab")
    return [n >= 0,
            z3.ForAll([i], z3.Implies(z3.And(i >= 0, i < n), V.I(lab(i)) >= 0)),
            z3.ForAll([i, j], z3.Implies(z3.And(i >= 0, i < n, j >= 0, j < n, i != j), V.I(lab(i)) != V.I(lab(j))))]


def lookup_post(ctx, name, a, L, lab, n, start):
    """the index lookup contract: L[label(i)] == start + i, every other entry -1, long enough"""
    i, x = z3.Int("i!q"), z3.Int("x!q")
    ok = isinstance(L, Arr)
    ctx.decided(name + "/is-array", "ensures", ok, witness=repr(L))
    if not ok:
        return
    ctx.ob(name + "/covers-every-label", "ensures", a + [i >= 0, i < n],
           z3.And(V.I(lab(i)) >= 0, B(compare("<", lab(i), L.n))))
    ctx.ob(name + "/label-to-position", "ensures", a + [i >= 0, i < n], K.eq_val(L.f(V.I(lab(i))), start + i))
    ctx.ob(name + "/other-entries-minus-one", "ensures",
           a + [x >= 0, B(compare("<", x, L.n)), z3.ForAll([i], z3.Implies(z3.And(i >= 0, i < n), V.I(lab(i)) != x))],
           K.eq_val(L.f(x), -1))


@unit("C06", "lookups/junction", functions=[JC + ":Junction.create_node_lookups", PS + ":add_table_lookup"], engine="E3")
def junction_lookup(ctx):
    ctx.assume("A1", "A4", "A6", "A7")
    s0 = z3.Int("s0")
    cls = S.get_module(JC).classes["Junction"]

    def mk():
        net = K.NetObj({"junction": K.sym_table("junction", NJ, {})})
        return [cls, net, {}, {"n2t": {}, "t2n": {}}, {}, s0, 3, {}], {}
    paths = T.run_paths(ctx, JC + ":Junction.create_node_lookups", mk)
    lab = K.sym_arr("junction_index", NJ, "i").f
    pre = labels_ok(lab, NJ) + [s0 >= 0]
    ctx.decided("returns", "cover", len(paths) == 2 and all(p.exc is None for p in paths), witness=str([str(p.exc) for p in paths]))
    for kx, p in enumerate(paths):
        if p.exc is not None:
            continue
        a = pre + list(p.facts) + [p.cond()]
        ft, tl, il = p.args[0][2], p.args[0][3], p.args[0][4]
        ok = isinstance(p.result, tuple) and len(p.result) == 2
        ctx.decided("returns-pair#%d" % kx, "ensures", ok)
        if not ok:
            continue
        ctx.ob("next-start#%d" % kx, "ensures", a, z3.And(B(compare("==", p.result[0], s0 + NJ)), B(compare("==", p.result[1], 4))))
        ok = isinstance(ft.get("junction"), tuple) and len(ft["junction"]) == 2
        ctx.decided("from-to-stored#%d" % kx, "ensures", ok)
        if ok:
            ctx.ob("from-to#%d" % kx, "ensures", a, z3.And(B(compare("==", ft["junction"][0], s0)),
                                                         B(compare("==", ft["junction"][1], s0 + NJ))))
        ctx.decided("table-lookup#%d" % kx, "ensures", tl == {"n2t": {3: "junction"}, "t2n": {"junction": 3}}, witness=repr(tl))
        lookup_post(ctx, "index-lookup#%d" % kx, a, il.get("junction"), lab, NJ, s0)
    ctx.check_safety(paths, pre, "fn", kinds=("index", "shape"))


def wo_classes():
    out = []
    for c in CL.all_component_classes():
        names = [m.name for m in CL.mro(c)]
        if "BranchWOInternalsComponent" in names and c.name not in ("BranchWOInternalsComponent", "CirculationPump"):
            out.append(c)
    return out


def class_str(ctx, cref, meth):
    """value of a constant classmethod (table_name, active_identifier, from_to_node_cols) from the real code"""
    m = CL.lookup_method(cref, meth)
    e = E.Evaluator()
    ps = e.run_all(m, lambda: ([cref], {}))
    return ps[0].result if len(ps) == 1 and ps[0].exc is None else None


@unit("C06", "lookups/branch_wo", functions=[BWO + ":BranchWOInternalsComponent.create_branch_lookups"], engine="E3")
def branch_wo_lookup(ctx):
    ctx.assume("A1", "A4", "A6", "A7")
    s0 = z3.Int("s0")
    n = z3.Int("NT")
    for cref in wo_classes():
        tn = class_str(ctx, cref, "table_name")
        ctx.decided("%s/table-name" % cref.name, "ensures", isinstance(tn, str), witness=repr(tn))
        if not isinstance(tn, str):
            continue

        def mk():
            net = K.NetObj({tn: K.sym_table(tn, n, {})})
            return [cref, net, {}, {"n2t": {}, "t2n": {}}, {}, s0, 5, {}], {}
        paths = T.run_paths(ctx, BWO + ":BranchWOInternalsComponent.create_branch_lookups", mk)
        ok = len(paths) == 1 and paths[0].exc is None and isinstance(paths[0].result, tuple)
        ctx.decided("%s/returns" % cref.name, "cover", ok, witness=str([str(p.exc) for p in paths]))
        if not ok:
            continue
        p = paths[0]
        a = [n >= 0, s0 >= 0] + list(p.facts) + [p.cond()]
        ft = p.args[0][2].get(tn)
        ctx.decided("%s/from-to-stored" % cref.name, "ensures", isinstance(ft, tuple) and len(ft) == 2)
        if isinstance(ft, tuple):
            ctx.ob("%s/from-to" % cref.name, "ensures", a, z3.And(
                B(compare("==", ft[0], s0)), B(compare("==", ft[1], s0 + n)),
                B(compare("==", p.result[0], s0 + n)), B(compare("==", p.result[1], 6))))
        ctx.decided("%s/table-lookup" % cref.name, "ensures", p.args[0][3] == {"n2t": {5: tn}, "t2n": {tn: 5}})


@unit("C06", "lookups/branch_w_internals", functions=[BWI + ":BranchWInternalsComponent.create_branch_lookups"], engine="E3")
def branch_w_lookup(ctx):
    ctx.assume("A1", "A4", "A6", "A7")
    s0, n, nsec = z3.Int("s0"), z3.Int("NP"), z3.Int("nsec")
    cref = S.get_module("pandapipes.component_models.pipe_component").classes["Pipe"]
    calls = []

    def c_struct(ev, args, kwargs):
        calls.append(args)
        return None

    def mk():
        del calls[:]
        net = K.NetObj({"pipe": K.sym_table("pipe", n, {})})
        return [cref, net, {}, {"n2t": {}, "t2n": {}}, {}, s0, 5, {}], {}
    sections = K.sym_arr("pipe_sections", n, "i")
    paths = T.run_paths(ctx, BWI + ":BranchWInternalsComponent.create_branch_lookups", mk, contracts={
        CT + ":get_internal_lookup_structure": c_struct,
        "pandapipes.component_models.pipe_component:Pipe.get_internal_branch_number": lambda ev, a, k: sections},
        hooks={"call": None} if False else None)
    lab = K.sym_arr("pipe_index", n, "i").f
    pre = labels_ok(lab, n) + [s0 >= 0]
    ctx.decided("returns", "cover", len(paths) == 2 and all(p.exc is None for p in paths), witness=str([str(p.exc) for p in paths]))
    for kx, p in enumerate(paths):
        if p.exc is not None:
            continue
        a = pre + list(p.facts) + [p.cond()]
        lookup_post(ctx, "index-lookup#%d" % kx, a, p.args[0][4].get("pipe"), lab, n, s0)
    ctx.check_safety(paths, pre, "fn", kinds=("index", "shape"))


def wo_world(cref, tn, fcol, tcol, act, n, f, t, NLJ):
    cols = {fcol: "i", tcol: "i", act: "b"}
    tbl = K.sym_table(tn, n, cols)
    net = K.NetObj({tn: tbl,
                    "_options": {"transient": False, "ambient_temperature": z3.Real("amb"), "simulation_time_step": 0},
                    "_pit": {"node": K.sym_pit("node_pit", NN, NCN, int_cols=INT_N)},
                    "_lookups": {"branch_from_to": {tn: (f, t)}, "branch_table": {"n2t": {5: tn}, "t2n": {tn: 5}},
                                 "node_index": {"junction": K.sym_arr("junction_lookup", NLJ, "i")}}})
    return net


@unit("C06", "translate/branch_wo", functions=[BWO + ":BranchWOInternalsComponent.create_pit_branch_entries",
                                              BM + ":BranchComponent.create_pit_branch_entries"], engine="E3")
def branch_wo_entries(ctx):
    ctx.assume("A1", "A4", "A6", "A7")
    f, t, NLJ = z3.Int("f_c"), z3.Int("t_c"), z3.Int("NLJ")
    n = t - f
    expected_activity = {"valve": "opened"}
    for cref in wo_classes():
        tn = class_str(ctx, cref, "table_name")
        ft_cols = class_str(ctx, cref, "from_to_node_cols")
        act = class_str(ctx, cref, "active_identifier")
        ok = isinstance(tn, str) and isinstance(ft_cols, tuple) and len(ft_cols) == 2 and isinstance(act, str)
        ctx.decided("%s/class-constants" % cref.name, "ensures", ok, witness=repr((tn, ft_cols, act)))
        if not ok:
            continue
        # the statement: an element is hydraulically present iff in service (a valve: iff open)
        ctx.decided("%s/activity-column" % cref.name, "ensures", act == expected_activity.get(tn, "in_service"), witness=act)
        fcol, tcol = ft_cols

        def mk():
            net = wo_world(cref, tn, fcol, tcol, act, n, f, t, NLJ)
            return [cref, net, K.sym_pit("branch_pit", NB, NCB, int_cols=INT_B)], {}
        paths = T.run_paths(ctx, BWO + ":BranchWOInternalsComponent.create_pit_branch_entries", mk)
        normal = [p for p in paths if p.exc is None]
        ctx.decided("%s/returns" % cref.name, "cover", len(normal) == len(paths) and len(paths) >= 1,
                    witness=str([str(p.exc) for p in paths]))
        tbl = K.sym_table(tn, n, {fcol: "i", tcol: "i", act: "b"})
        L = K.sym_arr("junction_lookup", NLJ, "i")
        bp0 = K.sym_pit("branch_pit", NB, NCB, int_cols=INT_B)
        i, q, c = z3.Int("i!row"), z3.Int("q!row"), z3.Int("c!col")
        ref_ok = z3.ForAll([i], z3.Implies(z3.And(i >= 0, i < n), z3.And(
            V.I(tbl.columns[fcol].f(i)) >= 0, V.I(tbl.columns[fcol].f(i)) < NLJ,
            V.I(tbl.columns[tcol].f(i)) >= 0, V.I(tbl.columns[tcol].f(i)) < NLJ,
            V.I(L.f(V.I(tbl.columns[fcol].f(i)))) >= 0, V.I(L.f(V.I(tbl.columns[fcol].f(i)))) < NN,
            V.I(L.f(V.I(tbl.columns[tcol].f(i)))) >= 0, V.I(L.f(V.I(tbl.columns[tcol].f(i)))) < NN)))
        pre = [f >= 0, f <= t, t <= NB, NN >= 1, NLJ >= 0, ref_ok]
        for kx, p in enumerate(normal):
            bp = p.args[0][2]
            a = pre + list(p.facts) + [p.cond()]
            row = [i >= 0, i < n]
            k = f + i
            ctx.ob("%s/FROM_NODE#%d" % (cref.name, kx), "ensures", a + row,
                   K.eq_val(bp.f(k, B_FROM_NODE), L.f(V.I(tbl.columns[fcol].f(i)))))
            ctx.ob("%s/TO_NODE#%d" % (cref.name, kx), "ensures", a + row,
                   K.eq_val(bp.f(k, B_TO_NODE), L.f(V.I(tbl.columns[tcol].f(i)))))
            ctx.ob("%s/ELEMENT_IDX#%d" % (cref.name, kx), "ensures", a + row,
                   K.eq_val(bp.f(k, B_ELEMENT_IDX), tbl.index.f(i)))
            ctx.ob("%s/ACTIVE#%d" % (cref.name, kx), "ensures", a + row,
                   K.eq_val(bp.f(k, B_ACTIVE), ite(tbl.columns[act].f(i), 1, 0)))
            ctx.ob("%s/TABLE_IDX#%d" % (cref.name, kx), "ensures", a + row, K.eq_val(bp.f(k, B_TABLE_IDX), 5))
            ctx.ob("%s/not-flow-return-connecting-by-default#%d" % (cref.name, kx), "ensures", a + row,
                   K.eq_val(bp.f(k, B_FLOW_RETURN_CONNECT), 0))
            ctx.ob("%s/frame-other-rows#%d" % (cref.name, kx), "frame",
                   a + [q >= 0, q < NB, z3.Or(q < f, q >= t), c >= 0, c < NCB], K.eq_val(bp.f(q, c), bp0.f(q, c)))
        ctx.check_safety(paths, pre, cref.name + "/fn", kinds=("index", "shape"))


@unit("C06", "translate/composition", functions=[], engine="E3")
def composition(ctx):
    """lemma over the two contracts above: the from node of element i is the pit row of the junction whose label
    equals the referenced label; under a relabelling pi (injective) of the junction labels and of the references the
    row is the same"""
    ctx.assume("A6")
    s0, NLJ, NLJ2 = z3.Int("s0"), z3.Int("NLJ"), z3.Int("NLJ2")
    lab = z3.Function("junction_index", z3.IntSort(), z3.IntSort())
    L = z3.Function("junction_lookup", z3.IntSort(), z3.IntSort())
    L2 = z3.Function("junction_lookup'", z3.IntSort(), z3.IntSort())
    pi = z3.Function("pi", z3.IntSort(), z3.IntSort())
    ref, r, i, j = z3.Int("ref"), z3.Int("r"), z3.Int("i!c"), z3.Int("j!c")
    contract = lambda Lf, labf: z3.ForAll([i], z3.Implies(z3.And(i >= 0, i < NJ), Lf(labf(i)) == s0 + i))
    ctx.ob("from-node-is-row-of-referenced-junction", "lemma",
           [contract(L, lab), r >= 0, r < NJ, lab(r) == ref], L(ref) == s0 + r)
    lab2 = lambda x: pi(lab(x))
    ctx.ob("relabelling-invariance", "lemma",
           [contract(L, lab), contract(L2, lab2), r >= 0, r < NJ, lab(r) == ref], L2(pi(ref)) == L(ref))
    # row order: a permutation sigma of the junction rows moves the pit rows accordingly
    sg = z3.Function("sigma", z3.IntSort(), z3.IntSort())
    lab3 = lambda x: lab(sg(x))
    L3 = z3.Function("junction_lookup''", z3.IntSort(), z3.IntSort())
    ctx.ob("row-permutation-equivariance", "lemma",
           [contract(L, lab), contract(L3, lab3), r >= 0, r < NJ, sg(r) >= 0, sg(r) < NJ, lab(sg(r)) == ref],
           z3.And(L3(ref) == s0 + r, L(ref) == s0 + sg(r)))


@unit("C06", "translate/junction_pit", functions=[JC + ":Junction.create_pit_node_entries"], engine="E3")
def junction_entries(ctx):
    ctx.assume("A1", "A3", "A4", "A6", "A7")
    f, t = z3.Int("f_j"), z3.Int("t_j")
    n = t - f
    cls = S.get_module(JC).classes["Junction"]
    cols = {"height_m": "f", "in_service": "b", "tfluid_k": "f", "pn_bar": "f"}

    def mk():
        net = K.NetObj({"junction": K.sym_table("junction", n, cols),
                        "_options": {"transient": False, "simulation_time_step": 0},
                        "_lookups": {"node_from_to": {"junction": (f, t)},
                                     "node_table": {"n2t": {0: "junction"}, "t2n": {"junction": 0}}}})
        return [cls, net, K.sym_pit("node_pit", NN, NCN, int_cols=INT_N)], {}
    pamb = z3.Function("p_correction_height_air", z3.RealSort(), z3.RealSort())

    def c_pamb(ev, args, kwargs):
        h = args[0]
        return Arr(h.n, lambda j, _h=h.f: pamb(_h(j)), "f")
    paths = T.run_paths(ctx, JC + ":Junction.create_pit_node_entries", mk, contracts={CT + ":p_correction_height_air": c_pamb})
    ok = len(paths) == 1 and paths[0].exc is None
    ctx.decided("single-path", "cover", ok, witness=str([str(p.exc) for p in paths]))
    if not ok:
        return
    p = paths[0]
    tbl = K.sym_table("junction", n, cols)
    np0 = K.sym_pit("node_pit", NN, NCN, int_cols=INT_N)
    npit = p.args[0][2]
    i, q, c = z3.Int("i!row"), z3.Int("q!row"), z3.Int("c!col")
    a = [f >= 0, f <= t, t <= NN] + list(p.facts) + [p.cond()]
    row = [i >= 0, i < n]
    k = f + i
    N_PAMB = K.const(ND, "PAMB")
    for nm, col, val in (("ELEMENT_IDX", N_ELEMENT_IDX, tbl.index.f(i)), ("HEIGHT", K.const(ND, "HEIGHT"), tbl.columns["height_m"].f(i)),
                         ("PAMB", N_PAMB, pamb(tbl.columns["height_m"].f(i))),
                         ("ACTIVE", N_ACTIVE, ite(tbl.columns["in_service"].f(i), 1, 0)),
                         ("TINIT", N_TINIT, tbl.columns["tfluid_k"].f(i)), ("PINIT", N_PINIT, tbl.columns["pn_bar"].f(i)),
                         ("TABLE_IDX", N_TABLE_IDX, 0), ("NODE_TYPE", N_NODE_TYPE, N_L)):
        ctx.ob("row/" + nm, "ensures", a + row, K.eq_val(npit.f(k, col), val))
    ctx.ob("frame-other-rows", "frame", a + [q >= 0, q < NN, z3.Or(q < f, q >= t), c >= 0, c < NCN],
           K.eq_val(npit.f(q, c), np0.f(q, c)))
    ctx.check_safety(paths, [f >= 0, f <= t, t <= NN], "fn", kinds=("index", "shape"))


@unit("C06", "lookups/reduce_lookups", functions=[PS + ":reduce_lookups", PS + ":reduce_pit"], engine="E3")
def reduce_lookups(ctx):
    """the active index lookup: label -> rank of the element's position among the supplied ones, -1 for
    unsupplied elements (single-row elements: ELEMENT_IDX unique over the table's rows)"""
    ctx.assume("A1", "A4", "A6", "A7")
    from contracts import C04
    NLJ, NLP = z3.Int("NLJ"), z3.Int("NLP")
    paths = T.run_paths(ctx, PS + ":reduce_pit", lambda: ([C04.reduce_world()], {"mode": "hydraulics"}))
    normal = [p for p in paths if p.exc is None]
    ctx.decided("returns", "cover", len(normal) >= 2 and len(normal) == len(paths), witness=str([str(p.exc) for p in paths]))
    bp, npit = C04.pits()
    q, i, j, x = z3.Int("q!pos"), z3.Int("i!u"), z3.Int("j!u"), z3.Int("x!lab")
    for kx, p in enumerate(normal):
        net = p.args[0][0]
        lk = net.items["_lookups"]
        for comp, tbl, pit, n, col, NL, mask_key in (("node", "junction", npit, NN, N_ELEMENT_IDX, NLJ, "node_active_hydraulics"),
                                                    ("branch", "pipe", bp, NB, B_ELEMENT_IDX, NLP, "branch_active_hydraulics")):
            mask = lk[mask_key]
            key = comp + "_index_active_hydraulics"
            lu = lk.get(key, {}).get(tbl) if isinstance(lk.get(key), dict) else None
            ok = isinstance(lu, Arr)
            ctx.decided("%s/active-index-lookup-stored#%d" % (comp, kx), "ensures", ok, witness=repr(lk.get(key)))
            if not ok:
                continue
            lab = lambda r: V.I(pit.f(r, col))
            L0 = K.sym_arr(tbl + "_lookup", NL, "i")
            pre = [n >= 1, NL >= 0,
                   z3.ForAll([i], z3.Implies(z3.And(i >= 0, i < n), z3.And(lab(i) >= 0, lab(i) < NL))),
                   z3.ForAll([i, j], z3.Implies(z3.And(i >= 0, i < n, j >= 0, j < n, i != j), lab(i) != lab(j))),
                   # the full lookup satisfies its contract (lookups/* above; the table starts at position 0 here)
                   z3.ForAll([i], z3.Implies(z3.And(i >= 0, i < n), V.I(L0.f(lab(i))) == i))]
            a = pre + list(p.facts) + V.sel_axioms(mask) + [p.cond()]
            rank = C04.rank_of(mask)
            ctx.ob("%s/label-to-active-position#%d" % (comp, kx), "ensures", a + [q >= 0, q < n],
                   K.eq_val(lu.f(lab(q)), ite(mask.f(q), rank(q), -1)))
            ctx.ob("%s/other-labels-unchanged#%d" % (comp, kx), "ensures",
                   a + [x >= 0, x < NL, z3.ForAll([i], z3.Implies(z3.And(i >= 0, i < n), lab(i) != x))],
                   K.eq_val(lu.f(x), L0.f(x)))
            full = lk[comp + "_index"][tbl]
            ctx.ob("%s/full-lookup-untouched#%d" % (comp, kx), "frame", a + [x >= 0, x < NL], K.eq_val(full.f(x), L0.f(x)))


@unit("C06", "results/branch_without_internals", functions=[RX + ":extract_branch_results_without_internals"], engine="E3")
def results_wo(ctx):
    ctx.assume("A1", "A4", "A6", "A7")
    f, t = z3.Int("f_c"), z3.Int("t_c")
    n = t - f
    for mode in ("hydraulics", "heat", "sequential", "bidirectional"):
        def mk():
            net = K.NetObj({"res_comp": K.sym_table("res_comp", n, {"a_hyd": ("f", True), "a_ht": ("f", True)}),
                            "_lookups": {"branch_from_to": {"comp": (f, t)},
                                         "branch_active_hydraulics": K.sym_arr("bc_hyd", NB, "b"),
                                         "branch_active_heat_transfer": K.sym_arr("bc_ht", NB, "b")}})
            br = {"e_hyd": K.sym_arr("e_hyd", NB, "f"), "e_ht": K.sym_arr("e_ht", NB, "f")}
            return [net, br, [("a_hyd", "e_hyd")], [("a_ht", "e_ht")], "comp", mode], {}
        paths = T.run_paths(ctx, RX + ":extract_branch_results_without_internals", mk)
        ok = len(paths) == 1 and paths[0].exc is None
        ctx.decided("%s/single-path" % mode, "cover", ok, witness=str([str(p.exc) for p in paths]))
        if not ok:
            continue
        p = paths[0]
        res = p.args[0][0].items["res_comp"]
        res0 = K.sym_table("res_comp", n, {"a_hyd": ("f", True), "a_ht": ("f", True)})
        i = z3.Int("i!row")
        a = [f >= 0, f <= t, t <= NB] + list(p.facts) + [p.cond(), i >= 0, i < n]
        hyd, ht = K.sym_arr("bc_hyd", NB, "b"), K.sym_arr("bc_ht", NB, "b")
        e_hyd, e_ht = K.sym_arr("e_hyd", NB, "f"), K.sym_arr("e_ht", NB, "f")
        # which connectivity decides which result group, per mode (documented in the function)
        hyd_src = hyd if mode != "heat" else None
        ht_src = hyd if mode == "hydraulics" else ht
        col = res.columns["a_hyd"]
        if hyd_src is None:
            ctx.ob("%s/hydraulic-results-untouched" % mode, "frame", a, K.eq_val(col.f(i), res0.columns["a_hyd"].f(i)))
        else:
            ctx.ob("%s/hydraulic-results-positional" % mode, "ensures", a,
                   K.eq_val(col.f(i), ite(hyd_src.f(f + i), e_hyd.f(f + i), res0.columns["a_hyd"].f(i))))
        ctx.ob("%s/heat-results-positional" % mode, "ensures", a,
               K.eq_val(res.columns["a_ht"].f(i), ite(ht_src.f(f + i), e_ht.f(f + i), res0.columns["a_ht"].f(i))))
        ctx.check_safety(paths, [f >= 0, f <= t, t <= NB], mode + "/fn", kinds=("index", "shape"))


@unit("C06", "results/junction", functions=[JC + ":Junction.extract_results"], engine="E3")
def results_junction(ctx):
    ctx.assume("A1", "A4", "A6", "A7")
    f, t = z3.Int("f_j"), z3.Int("t_j")
    n = t - f
    cls = S.get_module(JC).classes["Junction"]
    for mode in ("hydraulics", "heat", "sequential", "bidirectional"):
        def mk():
            net = K.NetObj({"res_junction": K.sym_table("res_junction", n, {"p_bar": ("f", True), "t_k": ("f", True)}),
                            "_options": {"transient": False},
                            "_pit": {"node": K.sym_pit("node_pit", NN, NCN, int_cols=INT_N, nan_cols=(N_PINIT, N_TINIT))},
                            "_lookups": {"node_from_to": {"junction": (f, t)},
                                         "node_active_hydraulics": K.sym_arr("nc_hyd", NN, "b")}})
            return [cls, net, {}, {}, mode], {}
        paths = T.run_paths(ctx, JC + ":Junction.extract_results", mk)
        normal = [p for p in paths if p.exc is None]
        ctx.decided("%s/returns" % mode, "cover", len(normal) == len(paths) and len(paths) >= 1, witness=str([str(p.exc) for p in paths]))
        npit = K.sym_pit("node_pit", NN, NCN, int_cols=INT_N, nan_cols=(N_PINIT, N_TINIT))
        i = z3.Int("i!row")
        for kx, p in enumerate(normal):
            res = p.args[0][1].items["res_junction"]
            a = [f >= 0, f <= t, t <= NN] + list(p.facts) + [p.cond(), i >= 0, i < n]
            ctx.ob("%s/p_bar-row-i-from-pit-row-f+i#%d" % (mode, kx), "ensures", a, K.eq_val(res.columns["p_bar"].f(i), npit.f(f + i, N_PINIT)))
            ctx.ob("%s/t_k-row-i-from-pit-row-f+i#%d" % (mode, kx), "ensures", a, K.eq_val(res.columns["t_k"].f(i), npit.f(f + i, N_TINIT)))
        ctx.check_safety(paths, [f >= 0, f <= t, t <= NN], mode + "/fn", kinds=("index", "shape"))


IT = "pandapipes.pf.internals_toolbox"


@unit("C06", "bounded/sum_by_group", functions=[IT + ":_sum_by_group", IT + ":_sum_by_group_np", IT + ":_sum_by_group_numba",
                                                IT + ":_sum_by_group_sorted", IT + ":_sum_values_by_index"], engine="bounded")
def sum_by_group_bounded(ctx):
    """bounded stand-in (cumsum/out=/argsort code is outside the subset): both implementations against the
    group-sum specification used as their contract in C01/C03/C09"""
    max_len = 6 if ctx.tier == "thorough" else 4
    res = venv_run("bounded.py", {"what": "sum_by_group", "max_len": max_len}, timeout=3000)
    ctx.bounded("numpy-and-numba-equal-group-sums", res["ok"],
                scope="index vectors of length 0..%d over labels {0,1,2,7,99999,100000,300000} (both sides of the 1e5 switch), "
                      "values 2^k and 1 (sums identify the summed subset exactly), use_numba False/True; output keys sorted "
                      "and unique, input not modified" % max_len,
                cases=res["cases"], witness=res.get("witness"),
                replay={"handler": "bounded", "input": {"what": "sum_by_group", "max_len": max_len}} if not res["ok"] else None)


@unit("C06", "bounded/relabel_pipeline", functions=[RX + ":extract_branch_results_with_internals",
                                                    "pandapipes.component_models.pipe_component:Pipe.create_pit_branch_entries",
                                                    "pandapipes.component_models.pipe_component:Pipe.create_pit_node_entries"],
      engine="bounded")
def relabel_pipeline(ctx):
    """bounded stand-in for the multi-section code (np.repeat / np.insert / argsort placement): whole calculation
    under relabelling and row permutation"""
    res = venv_run("bounded.py", {"what": "relabel_pipeline"}, timeout=1500)
    ctx.bounded("results-invariant-under-relabelling-and-row-order", res["ok"],
                scope="one water network (4 junctions with heights, pipes with 1/2/3 sections, a junction valve, a pipe-attached "
                      "valve, 2 sinks, sequential mode): 3 junction labellings x 3 pipe labellings (sorted, unsorted, > 1e5) x all 6 "
                      "pipe creation orders x 2 junction creation orders x use_numba False/True; every res_* table joined on identity",
                cases=res["cases"], witness=res.get("witness"),
                replay={"handler": "bounded", "input": {"what": "relabel_pipeline"}} if not res["ok"] else None)


VC = "pandapipes.component_models.valve_component"


@unit("C06", "bounded/valve_internal_nodes", functions=[VC + ":Valve.get_internal_node_number"], engine="bounded")
def valve_internal_nodes_bounded(ctx):
    """bounded stand-in (np.unique(axis=0) + argsort inverse permutation is outside the SMT fragment): the wiring of
    pipe-attached valves to their internal nodes must not depend on the order of the valve table"""
    big = ctx.tier == "thorough"
    inp = {"what": "valve_internal_nodes", "max_rows": 5 if big else 4}
    res = venv_run("bounded.py", inp, timeout=3000)
    ctx.bounded("each-pipe-valve-wired-to-the-internal-node-of-its-own-junction-pipe-pair", res["ok"],
                "ALL valve tables with <= %d rows over {junction valve, 5 distinct / repeated (junction, pipe) pairs of pipe-attached "
                "valves} in every order; int_nodes, group numbers and pi-row positions against the first-occurrence specification"
                % inp["max_rows"], res["cases"], witness=res["witness"],
                replay={"handler": "bounded", "input": inp} if not res["ok"] else None)


# ---------------------------------------------------------------------------------------------
# create_lookups: the running start positions are threaded through the components in order

@unit("C06", "lookups/threading", functions=[PS + ":create_lookups"], engine="E1")
def lookup_threading(ctx):
    """every component receives, as its start position, the end position returned by the component before it (branch and
    node positions threaded separately, both starting at 0), all components fill the SAME lookup dictionaries, and exactly
    these dictionaries and the final end positions are stored in net['_lookups'] -- so the per-component contracts
    (lookup[label of row r] = start + r) compose to lookups without overlap or gap, for any component list"""
    ctx.assume("A6")
    calls = []

    class _Meth:
        def __init__(self, comp, kind):
            self.comp, self.kind = comp, kind

        def call(self, ev, args, kwargs, lineno):
            end = z3.Int("%s_end_%s" % (self.kind, self.comp))
            nr = z3.Int("%s_nr_%s" % (self.kind, self.comp))
            calls.append((self.comp, self.kind, list(args), end, nr))
            return (end, nr)
    comps = []
    for nm in ("c0", "c1", "c2"):
        o = E.Obj(nm, {})
        o.attrs["create_branch_lookups"] = _Meth(nm, "branch")
        o.attrs["create_node_lookups"] = _Meth(nm, "node")
        comps.append(o)
    net = K.NetObj({"component_list": comps})
    paths = T.run_paths(ctx, PS + ":create_lookups", lambda: ([net], {}))
    ok = len(paths) == 1 and paths[0].exc is None and len(calls) == 6
    ctx.decided("single-path-two-calls-per-component", "cover", ok, witness=str(([str(p.exc) for p in paths], len(calls))))
    if not ok:
        return
    lk = paths[0].args[0][0].items.get("_lookups")
    ctx.decided("lookups-stored", "ensures", isinstance(lk, dict), witness=repr(type(lk)))
    for kind, keys in (("branch", ("branch_from_to", "branch_table", "branch_index", "branch_length", "internal_branches")),
                       ("node", ("node_from_to", "node_table", "node_index", "node_length", "internal_nodes"))):
        cs = [c for c in calls if c[1] == kind]
        ctx.decided("%s/called-in-component-order" % kind, "ensures", [c[0] for c in cs] == ["c0", "c1", "c2"], witness=str([c[0] for c in cs]))
        prev_end, prev_nr = 0, 0
        for comp, _, a, end, nr in cs:
            # signature: (net, ft_lookups, table_lookups, idx_lookups, current_start, current_table, internals)
            start, tab = a[4], a[5]
            same_start = (start == prev_end) if not is_z3(prev_end) else (is_z3(start) and start.eq(prev_end))
            same_tab = (tab == prev_nr) if not is_z3(prev_nr) else (is_z3(tab) and tab.eq(prev_nr))
            ctx.decided("%s/%s/starts-where-the-previous-component-ended" % (kind, comp), "ensures", bool(same_start),
                        witness="start %r, previous end %r" % (start, prev_end))
            ctx.decided("%s/%s/table-number-threaded" % (kind, comp), "ensures", bool(same_tab), witness="table nr %r, previous %r" % (tab, prev_nr))
            prev_end, prev_nr = end, nr
        first = cs[0][2]
        ctx.decided("%s/all-components-fill-the-same-dictionaries" % kind, "ensures",
                    all(c[2][1] is first[1] and c[2][2] is first[2] and c[2][3] is first[3] and c[2][6] is first[6] for c in cs),
                    witness="different dictionary objects handed to the components")
        if isinstance(lk, dict):
            ctx.decided("%s/the-filled-dictionaries-are-the-stored-lookups" % kind, "ensures",
                        lk.get(keys[0]) is first[1] and lk.get(keys[1]) is first[2] and lk.get(keys[2]) is first[3] and lk.get(keys[4]) is first[6],
                        witness=str(sorted(lk)))
            ln = lk.get(keys[3])
            ctx.decided("%s/stored-length-is-the-last-end" % kind, "ensures", is_z3(ln) and ln.eq(cs[-1][3]), witness=repr(ln))


@unit("C06", "pit/fill_threading", functions=[PS + ":initialize_pit"], engine="E1")
def pit_fill_threading(ctx):
    """initialize_pit (steady state): lookups are created first, then ONE pit; every component fills that pit's node part,
    branch part and component-array dictionary, in this order and in component order; the old-pit copy is taken after all
    of them -- so the per-component contracts (rows [start, end) of the component's block) compose to one pit"""
    ctx.assume("A6")
    log = []
    pit = {"node": K.sym_pit("node_pit", z3.Int("NN"), NCN), "branch": K.sym_pit("branch_pit", NB, NCB), "components": {}}

    class _Meth:
        def __init__(self, comp, kind):
            self.comp, self.kind = comp, kind

        def call(self, ev, args, kwargs, lineno):
            log.append((self.kind, self.comp, list(args)))
            return None
    comps = []
    for nm in ("c0", "c1"):
        o = E.Obj(nm, {})
        for kind in ("create_pit_node_entries", "create_pit_branch_entries", "create_component_array"):
            o.attrs[kind] = _Meth(nm, kind)
        comps.append(o)
    net = K.NetObj({"component_list": comps, "_options": {"transient": False, "simulation_time_step": 0}, "converged": False})

    def rec(tag, ret=None):
        def c(ev, a, k):
            log.append((tag, None, list(a)))
            return ret
        return c
    paths = T.run_paths(ctx, PS + ":initialize_pit", lambda: ([net], {}), contracts={
        PS + ":create_lookups": rec("create_lookups"), PS + ":create_empty_pit": rec("create_empty_pit", pit),
        PS + ":create_old_pit": rec("create_old_pit")})
    ok = len(paths) >= 1 and all(p.exc is None for p in paths)
    ctx.decided("returns", "cover", ok, witness=str([str(p.exc) for p in paths]))
    if not ok:
        return
    kinds = [(t, c) for t, c, _ in log]
    want = [("create_lookups", None), ("create_empty_pit", None)]
    for nm in ("c0", "c1"):
        want += [("create_pit_node_entries", nm), ("create_pit_branch_entries", nm), ("create_component_array", nm)]
    want += [("create_old_pit", None)]
    ctx.decided("order-of-the-fill", "order", kinds[:len(want)] == want, witness=str(kinds))
    part = {"create_pit_node_entries": "node", "create_pit_branch_entries": "branch", "create_component_array": "components"}
    ctx.decided("every-component-fills-the-one-pit", "ensures",
                all(a[0] is net and a[1] is pit[part[t]] for t, c, a in log if t in part), witness="a component received another array")


@unit("C06", "pit/empty_pit", functions=[PS + ":create_empty_pit"], engine="E1")
def empty_pit(ctx):
    """the pit allocated for a calculation has exactly as many node / branch rows as the lookups hand out positions
    (node_length / branch_length of create_lookups) and the column counts of idx_node / idx_branch; it is stored as net['_pit']"""
    ctx.assume("A4", "A6", "A7")
    nl, bl = z3.Int("node_length"), z3.Int("branch_length")
    net = K.NetObj({"_lookups": {"node_length": nl, "branch_length": bl}})
    paths = T.run_paths(ctx, PS + ":create_empty_pit", lambda: ([net], {}))
    ok = len(paths) == 1 and paths[0].exc is None and isinstance(paths[0].result, dict)
    ctx.decided("single-path", "cover", ok, witness=str([str(p.exc) for p in paths]))
    if not ok:
        return
    pit = paths[0].result
    ctx.decided("stored-as-the-net's-pit", "ensures", paths[0].args[0][0].items.get("_pit") is pit, witness="returned pit is not net['_pit']")
    ctx.decided("parts", "ensures", set(pit) == {"node", "branch", "components"} and pit["components"] == {}, witness=str(sorted(pit)))
    for part, n_, nc in (("node", nl, NCN), ("branch", bl, NCB)):
        a = pit.get(part)
        ctx.decided("%s/shape" % part, "ensures", isinstance(a, Pit) and same_term(a.n, n_) and a.ncols == nc,
                    witness="%r rows %r cols %r" % (a, getattr(a, "n", None), getattr(a, "ncols", None)))
