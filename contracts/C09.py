"""C09 -- physically equivalent descriptions of a network give identical results.

Relational lemmas over the contracts proved under C02 / C10 (the kernels ARE the spec functions,
so a lemma about the spec is a lemma about the code), plus code-level obligations for the pieces
the rewrites rely on: sign conventions of the result columns and of sinks/sources, the linear
load term, the flow-direction switch.  Equality of *results* from equality of *equation systems*
additionally needs uniqueness of the solution and holds up to the tolerances of C05 -- stated,
not proved."""
import z3

from pvc.harness import unit
from pvc import src as S, kern as K, twin as T, ev as E, classes
from pvc.val import *  # noqa
from pvc import val as V
from contracts import spec as SP
from contracts.C02 import forall_b, forall_n, forall_real, goal_over_paths, arr, density_spec, pit_requires

# property-level native oracle used as the replay of refuted obligations that carry no model-specific replay
FALLBACK_REPLAY = {"handler": "bounded_named", "input": {"what": "section_equivalence",
                                                         "check": "sectioned-pipe-equals-pipes-in-series-for-every-labelling-and-orientation"},
                   "expected": "a sectioned pipe equals its sections in series for every labelling order and orientation"}

BR = "pandapipes.idx_branch"
ND = "pandapipes.idx_node"
RX = "pandapipes.pf.result_extraction"
PF = "pandapipes.pipeflow"
CF = "pandapipes.component_models.abstract_models.const_flow_models"
IT = "pandapipes.pf.internals_toolbox"
NCB = K.const(BR, "branch_cols")
NCN = K.const(ND, "node_cols")
for _n in ("FROM_NODE", "TO_NODE", "MDOTINIT", "AREA", "TOUTINIT", "FROM_NODE_T_SWITCHED", "RE", "LAMBDA",
           "PL", "QEXT", "LOSS_COEFFICIENT", "DP_FRICT_LOSS"):
    globals()["B_" + _n] = K.const(BR, _n)
for _n in ("TINIT", "PINIT", "PAMB", "LOAD"):
    globals()["N_" + _n] = K.const(ND, _n)
INT_B = (B_FROM_NODE, B_TO_NODE, B_FROM_NODE_T_SWITCHED)


@unit("C09", "lemmas/reversal", engine="E2")
def reversal(ctx):
    ctx.assume("A1", "A3")
    m, pf, pt, pl, dh, rho, lam, L, d, z, A, tm, K_, rn = z3.Reals("m pf pt pl dh rho lam L d zeta A tm K rho_n")
    pre = [rho > 0, A > 0, d > 0, rn > 0, pf > 0, pt > 0]
    Rl = SP.residual_liquid(m, pf, pt, pl, dh, rho, lam, L, d, z, A)
    Rl_rev = SP.residual_liquid(-m, pt, pf, -pl, -dh, rho, lam, L, d, z, A)
    ctx.ob("liquid/odd-symmetry", "lemma", pre, R(Rl_rev) == -R(Rl))
    Rg = SP.residual_gas(m, pf, pt, pl, dh, rho, rn, lam, L, d, z, A, tm, K_)
    Rg_rev = SP.residual_gas(-m, pt, pf, -pl, -dh, rho, rn, lam, L, d, z, A, tm, K_)
    ctx.ob("gas/odd-symmetry", "lemma", pre, R(Rg_rev) == -R(Rg))
    eta = z3.Real("eta")
    ctx.ob("reynolds/even", "lemma", pre + [eta > 0],
           R(SP.reynolds(-m, d, eta, A)) == R(SP.reynolds(m, d, eta, A)))
    ctx.ob("mean-pressure/symmetric", "lemma", pre, R(SP.mean_pressure(pf, pt)) == R(SP.mean_pressure(pt, pf)))
    # liquid: raising both end pressures by a constant leaves the residual unchanged
    c = z3.Real("c")
    ctx.ob("liquid/pressure-shift", "lemma", pre,
           R(SP.residual_liquid(m, pf + c, pt + c, pl, dh, rho, lam, L, d, z, A)) == R(Rl))


@unit("C09", "lemmas/sections", engine="E2")
def sections(ctx):
    ctx.assume("A1")
    m, pf, pm, pt, dh1, dh2, rho, lam, L1, L2, d, A = z3.Reals("m pf pm pt dh1 dh2 rho lam L1 L2 d A")
    pre = [rho > 0, A > 0, d > 0, L1 >= 0, L2 >= 0]
    R1 = SP.residual_liquid(m, pf, pm, 0, dh1, rho, lam, L1, d, 0, A)
    R2 = SP.residual_liquid(m, pm, pt, 0, dh2, rho, lam, L2, d, 0, A)
    Rt = SP.residual_liquid(m, pf, pt, 0, dh1 + dh2, rho, lam, L1 + L2, d, 0, A)
    # two consecutive sections with the same flow, density and friction factor add up exactly
    ctx.ob("liquid/two-sections-telescope", "lemma", pre, R(R1) + R(R2) == R(Rt))
    ctx.ob("liquid/series-equals-one-pipe", "lemma", pre + [R(R1) == 0, R(R2) == 0], R(Rt) == 0)
    # induction step for n sections: (n-1 sections of total length Ls, height dhs) + one more
    Ls, dhs = z3.Reals("Ls dhs")
    Rs = SP.residual_liquid(m, pf, pm, 0, dhs, rho, lam, Ls, d, 0, A)
    Rn = SP.residual_liquid(m, pf, pt, 0, dhs + dh2, rho, lam, Ls + L2, d, 0, A)
    ctx.ob("liquid/induction-step", "lemma", pre + [Ls >= 0], R(Rs) + R(R2) == R(Rn))


def _basic_results(ctx, gas):
    ctx.assume("A1", "A4")
    fluid = K.make_fluid(gas)
    spec = T.ArgSpec([
        ("net", "obj", dict(make=lambda: K.NetObj({"fluid": fluid}))),
        ("branch_pit", "pit", dict(rows="b", ncols=NCB, int_cols=INT_B)),
        ("node_pit", "pit", dict(rows="n", ncols=NCN))])
    paths = T.run_paths(ctx, RX + ":get_basic_branch_results", spec.build)
    spec.build()
    bp, npit, r = spec.objs["branch_pit"], spec.objs["node_pit"], spec.r
    req = spec.base() + pit_requires(spec, fluid, gas) + [forall_b(spec, lambda i: bp.f(i, B_AREA) > 0)]
    m = bp.f(r, B_MDOTINIT)
    fn, tn = V.I(bp.f(r, B_FROM_NODE)), V.I(bp.f(r, B_TO_NODE))
    if gas:
        vf = SP.div(m, fluid.ufs["density"](z3.RealVal(SP.T_N)))
    else:
        vf = SP.div(m, density_spec(fluid, gas, bp, npit, r))
    exp = {"mf_from": m, "mf_to": neg(m), "vf": vf, "v_mps": SP.div(vf, bp.f(r, B_AREA)),
           "p_from": npit.f(fn, N_PINIT), "p_to": npit.f(tn, N_PINIT), "temp_from": npit.f(fn, N_TINIT),
           "temp_to": npit.f(tn, N_TINIT), "reynolds": bp.f(r, B_RE), "lambda": bp.f(r, B_LAMBDA),
           "pl": bp.f(r, B_PL), "t_outlet": bp.f(r, B_TOUTINIT), "qext": bp.f(r, B_QEXT),
           "loss_coeff": bp.f(r, B_LOSS_COEFFICIENT), "dp_frict_loss": bp.f(r, B_DP_FRICT_LOSS),
           "from_nodes": fn, "to_nodes": tn}
    ctx.decided("cover/path", "cover", len(paths) >= 1 and all(p.exc is None for p in paths), witness="paths")
    keys = set(paths[0].result.keys())
    ctx.decided("keys", "ensures", keys == set(exp.keys()),
                witness="result keys differ: %s" % sorted(keys ^ set(exp.keys())))
    for k, e in sorted(exp.items()):
        if k not in keys:
            continue
        ctx.ob("ensures/%s" % k, "ensures", req,
               goal_over_paths(paths, lambda p, _k=k: p.result[_k], e, r))
    ctx.check_safety(paths, req, "fn")


@unit("C09", "basic_results/liquid", functions=[RX + ":get_basic_branch_results"], engine="E2")
def basic_liquid(ctx):
    _basic_results(ctx, False)


@unit("C09", "basic_results/gas", functions=[RX + ":get_basic_branch_results"], engine="E2")
def basic_gas(ctx):
    _basic_results(ctx, True)


@unit("C09", "flow_direction_switch", functions=[PF + ":solve_temperature"], engine="E2")
def direction_switch(ctx):
    """the thermal stage takes the inflow end of a branch from the sign of its mass flow:
    FROM_NODE_T_SWITCHED := m < -2e-11, written before any thermal adaption / derivative"""
    import ast
    f = S.get_function(PF + ":solve_temperature")
    stores = [n for n in ast.walk(f.node) if isinstance(n, ast.Assign) and
              "FROM_NODE_T_SWITCHED" in ast.unparse(n.targets[0])]
    ctx.decided("single-store", "ensures", len(stores) == 1, witness="%d stores" % len(stores))
    if stores:
        st = stores[0]
        # the stored expression is EVALUATED (not compared as text): for an arbitrary row it must be  m < -2e-11
        try:
            ev = E.Evaluator()
            ev.path = E.Path()
            env = E.Env(f.module, ev)
            nb_ = z3.Int("NB")
            bp_ = K.sym_pit("branch_pit", nb_, K.const("pandapipes.idx_branch", "branch_cols"))
            env.set("branch_pit", bp_)
            val = ev.eval(st.value, env)
            r_ = z3.Int("r")
            m_ = V.R(bp_.f(r_, K.const("pandapipes.idx_branch", "MDOTINIT")))
            ctx.ob("switch-is-sign-of-flow", "ensures", [nb_ >= 1, r_ >= 0, r_ < nb_] + list(ev.path.facts),
                   B(val.f(r_)) == (m_ < z3.RealVal("-2e-11")))
        except Exception as e_:  # noqa
            ctx.undecided("switch-is-sign-of-flow", "ensures", "the stored expression could not be evaluated: %s" % e_)
        first_call = min([n.lineno for n in ast.walk(f.node) if isinstance(n, ast.Call) and
                          ("adaption" in ast.unparse(n.func) or "calculate_derivatives_thermal" in ast.unparse(n.func))]
                         or [10 ** 6])
        ctx.decided("store-precedes-use", "order", st.lineno < first_call,
                    witness="store at line %d, first use at line %d" % (st.lineno, first_call))


@unit("C09", "loads", functions=[CF + ":ConstFlow.create_pit_node_entries"], engine="E2")
def loads(ctx):
    """the per-row load term is linear in the scaled mass flow with the component's sign:
    several loads on one junction equal one with the summed scaled mass flow, a source equals a
    negative sink, an out-of-service load equals its absence"""
    ctx.assume("A1", "A4", "A6")
    n = z3.Int("NL")
    cols = {"in_service": "b", "scaling": "f", "mdot_kg_per_s": ("f", True), "junction": "i"}
    signs = {}
    for modname, cname in (("sink_component", "Sink"), ("source_component", "Source"),
                           ("mass_storage_component", "MassStorage")):
        cref = S.get_module("pandapipes.component_models." + modname).classes[cname]
        captured = {}

        def c_sum(ev, args, kwargs, _cap=captured):
            _cap["idx"], _cap["vals"] = args[1], args[2]
            raise E._Raise(E.ExcVal("StopHere"))
        tname = {"Sink": "sink", "Source": "source", "MassStorage": "mass_storage"}[cname]

        def mk(_t=tname, _c=cref):
            net = K.NetObj({_t: K.sym_table(_t, n, cols), "_options": {"use_numba": True}})
            return [_c, net, K.sym_pit("node_pit", z3.Int("NN"), NCN)], {}
        paths = T.run_paths(ctx, CF + ":ConstFlow.create_pit_node_entries", mk,
                            contracts={IT + ":_sum_by_group": c_sum})
        tbl = K.sym_table(tname, n, cols)
        r = z3.Int("r")
        sgn = {"Sink": 1, "Source": -1, "MassStorage": 1}[cname]
        ctx.decided("%s/reaches-group-sum" % cname, "cover", "vals" in captured, witness="not reached")
        if "vals" not in captured:
            continue
        mdot = tbl.columns["mdot_kg_per_s"].f(r)
        term = SP.mul(ite(nan_of(mdot), 0, val_of(mdot)), ite(tbl.columns["in_service"].f(r), 1, 0),
                      tbl.columns["scaling"].f(r), sgn)
        ctx.ob("%s/row-term" % cname, "ensures", [n >= 1, r >= 0, r < n],
               K.eq_val(captured["vals"].f(r), term))
        ctx.ob("%s/grouped-by-junction" % cname, "ensures", [n >= 1, r >= 0, r < n],
               K.eq_val(captured["idx"].f(r), tbl.columns["junction"].f(r)))
        signs[cname] = sgn
    # linearity of the row term (spec level): additivity and source = - sink
    a, b, s1, s2 = z3.Reals("mdot_a mdot_b scale_a scale_b")
    ctx.ob("lemma/additive", "lemma", [], a * s1 * 1 + b * s2 * 1 == (a * s1 + b * s2) * 1 * 1)
    ctx.ob("lemma/source-is-negative-sink", "lemma", [], a * s1 * (-1) == (-a) * s1 * 1)


# ---------------------------------------------------------------------------------------------
# internal nodes of a multi-section pipe: interpolated between the pipe's two junctions

PC = "pandapipes.component_models.pipe_component"
CTB = "pandapipes.component_models.component_toolbox"


@unit("C09", "pipe_sections/internal_nodes", functions=[PC + ":Pipe.create_pit_node_entries"], engine="E3")
def pipe_internal_nodes(ctx):
    """call-site contract: the temperature, pressure and HEIGHT of the internal nodes are vinterp(value at the from
    junction, value at the to junction, number of internal nodes) with the junctions found through the index lookup --
    so that the geodetic terms of the sections telescope to the height difference of the pipe (lemma telescoping)"""
    from pvc.harness import venv_run
    ctx.assume("A1", "A4", "A6", "A7")
    cls = S.get_module(PC).classes["Pipe"]
    NN, NP, NLJ = z3.Int("NN"), z3.Int("NP"), z3.Int("NLJ")
    fj, tj, fi, ti = z3.Int("f_j"), z3.Int("t_j"), z3.Int("f_i"), z3.Int("t_i")
    calls = []

    def c_vinterp(ev, a, k):
        calls.append(list(a))
        return K.sym_arr("vinterp%d" % len(calls), ti - fi, "f")
    pamb = []

    def c_pamb(ev, a, k):
        x = a[0]
        pamb.append(x.snapshot() if hasattr(x, "snapshot") else x)      # the heights AT THE TIME of the call
        return K.sym_arr("pamb", ti - fi, "f")
    cols = {"from_junction": "i", "to_junction": "i", "in_service": "b", "sections": "i"}

    def mk():
        del calls[:]
        del pamb[:]
        net = K.NetObj({"pipe": K.sym_table("pipe", NP, cols),
                        "_options": {"transient": False, "simulation_time_step": 0},
                        "_lookups": {"node_from_to": {"junction": (fj, tj), "pipe_nodes": (fi, ti)},
                                     "node_table": {"n2t": {0: "junction", 1: "pipe_nodes"}, "t2n": {"junction": 0, "pipe_nodes": 1}},
                                     "node_index": {"junction": K.sym_arr("junction_lookup", NLJ, "i")}}})
        return [cls, net, K.sym_pit("node_pit", NN, NCN)], {}
    intn = K.sym_arr("int_nodes", NP, "i")
    paths = T.run_paths(ctx, PC + ":Pipe.create_pit_node_entries", mk, contracts={
        CTB + ":vinterp": c_vinterp, CTB + ":p_correction_height_air": c_pamb,
        PC + ":Pipe.get_internal_node_number": lambda ev, a, k: intn})
    ok = len(paths) == 1 and paths[0].exc is None and len(calls) == 3
    ctx.decided("single-path-three-interpolations", "cover", ok, witness=str(([str(p.exc) for p in paths], len(calls))))
    if not ok:
        return
    p = paths[0]
    tbl = K.sym_table("pipe", NP, cols)
    L = K.sym_arr("junction_lookup", NLJ, "i")
    np0 = K.sym_pit("node_pit", NN, NCN)
    npit = p.args[0][2]
    i = z3.Int("i!pipe")
    N_TINIT, N_PINIT, N_HEIGHT = K.const(ND, "TINIT"), K.const(ND, "PINIT"), K.const(ND, "HEIGHT")
    fpos = lambda r: fj + V.I(L.f(V.I(tbl.columns["from_junction"].f(r))))
    tpos = lambda r: fj + V.I(L.f(V.I(tbl.columns["to_junction"].f(r))))
    a = [NP >= 0, fj >= 0, fj <= tj, tj <= NN, fi >= 0, fi <= ti, ti <= NN, i >= 0, i < NP] + list(p.facts) + [p.cond()]
    # the junction block precedes the internal nodes (create_lookups order): stores into rows f_i.. do not touch it
    a += [tj <= fi]
    # referential integrity (C16) + lookup contract (C06): the references resolve to rows of the junction block
    for c in ("from_junction", "to_junction"):
        ref = V.I(tbl.columns[c].f(i))
        a += [ref >= 0, ref < NLJ, V.I(L.f(ref)) >= 0, V.I(L.f(ref)) < tj - fj]
    order = {0: ("TINIT", N_TINIT), 1: ("PINIT", N_PINIT), 2: ("HEIGHT", N_HEIGHT)}
    for kx, (nm, col) in order.items():
        lo, hi, cnt = calls[kx]
        good = isinstance(lo, (Arr, Comp)) and isinstance(hi, (Arr, Comp)) and not isinstance(lo, Comp) and not isinstance(hi, Comp)
        ctx.decided("%s/arguments-are-arrays" % nm, "cover", good, witness=repr((lo, hi)))
        if not good:
            continue
        ctx.ob("%s/interpolated-from-the-from-junction" % nm, "ensures", a, K.eq_val(lo.f(i), np0.f(fpos(i), col)))
        ctx.ob("%s/interpolated-to-the-to-junction" % nm, "ensures", a, K.eq_val(hi.f(i), np0.f(tpos(i), col)))
        ctx.decided("%s/one-value-per-internal-node" % nm, "ensures", cnt is intn, witness=repr(cnt))
        q = z3.Int("q!node")
        ctx.ob("%s/written-to-the-internal-node-rows" % nm, "ensures", a + [q >= 0, q < ti - fi],
               K.eq_val(npit.f(fi + q, col), K.sym_arr("vinterp%d" % (kx + 1), ti - fi, "f").f(q)))
    ctx.decided("ambient-pressure-from-the-interpolated-height", "ensures", len(pamb) == 1, witness=str(len(pamb)))
    if len(pamb) == 1 and is_array(pamb[0]):
        q = z3.Int("q!node")
        N_PAMB = K.const(ND, "PAMB")
        ctx.ob("PAMB/computed-from-the-interpolated-height-of-the-same-node", "ensures", a + [q >= 0, q < ti - fi],
               K.eq_val(pamb[0].f(q), K.sym_arr("vinterp3", ti - fi, "f").f(q)))
        ctx.ob("PAMB/written-to-the-internal-node-rows", "ensures", a + [q >= 0, q < ti - fi],
               K.eq_val(npit.f(fi + q, N_PAMB), K.sym_arr("pamb", ti - fi, "f").f(q)))
    # vinterp itself (np.repeat / cumsum arithmetic): bounded stand-in
    res = venv_run("bounded.py", {"what": "vinterp"})
    ctx.bounded("vinterp-is-linear-interpolation", res["ok"],
                scope="1..3 elements with 0..3 internal nodes each, end values from {0, 1.5, -2}: element r of pipe i = lo + (hi-lo)(r+1)/(n_i+1)",
                cases=res["cases"], witness=res.get("witness"),
                replay={"handler": "bounded", "input": {"what": "vinterp"}} if not res["ok"] else None)
    ctx.ob("lemma/interpolated-heights-telescope", "lemma", [],
           z3.ForAll([z3.Real("h0"), z3.Real("h1")], (z3.Real("h0") + (z3.Real("h1") - z3.Real("h0")) / 3 - z3.Real("h0")) +
                     (z3.Real("h0") + 2 * (z3.Real("h1") - z3.Real("h0")) / 3 - (z3.Real("h0") + (z3.Real("h1") - z3.Real("h0")) / 3)) +
                     (z3.Real("h1") - (z3.Real("h0") + 2 * (z3.Real("h1") - z3.Real("h0")) / 3)) == z3.Real("h1") - z3.Real("h0")))


# ---------------------------------------------------------------------------------------------
# reversing the orientation of a branch: every temperature-dependent property (density, viscosity, heat capacity)
# is evaluated at the INFLOW end given by the flow direction, not at the declared from junction -- shared contracts

def _shared(ctx, modname, fn, *args):
    import importlib
    getattr(importlib.import_module(modname), fn)(ctx, *args)


for _g in (False, True):
    def _mk9(g=_g):
        nm = "gas" if g else "liquid"

        @unit("C09", "orientation/density/" + nm, functions=["pandapipes.properties.properties_toolbox:get_branch_real_density"], engine="E2")
        def _a(ctx):
            _shared(ctx, "contracts.C02", "_density_unit", g)

        @unit("C09", "orientation/viscosity/" + nm, functions=["pandapipes.properties.properties_toolbox:get_branch_real_eta"], engine="E2")
        def _b(ctx):
            _shared(ctx, "contracts.C02", "_eta_unit", g)
    _mk9()


@unit("C09", "orientation/heat_capacity", functions=["pandapipes.properties.properties_toolbox:get_branch_cp"], engine="E2")
def orientation_cp(ctx):
    _shared(ctx, "contracts.C10", "branch_cp")



@unit("C09", "bounded/section_equivalence", functions=["pandapipes.pf.result_extraction:extract_branch_results_with_internals",
                                                       "pandapipes.component_models.pipe_component:Pipe.create_pit_branch_entries"], engine="bounded")
def section_equivalence_bounded(ctx):
    """property-level bounded stand-in (np.repeat / argsort placement code of the multi-section pipes) and fallback replay"""
    from pvc.harness import venv_run
    inp = {"what": "section_equivalence"}
    res = venv_run("bounded.py", inp, timeout=3000)["checks"]
    scope = ("one water network (4 junctions at different heights, 3 pipes with 2 / 3 / 1 sections, heat losses, sequential mode, "
             "feed temperature = start temperature): all 6 assignments of the pipe labels x 3 sets of pipes drawn against the flow x "
             "use_numba False/True, each against the network with every pipe split into single-section pipes in series: outlet "
             "temperature, end pressure and mass flow of every pipe (rtol 1e-5); separately: forward vs reversed pipes in hydraulics "
             "mode with a feed temperature (360 K) different from the start temperature (320 K)")
    for k, v in res.items():
        ctx.bounded(k, v["ok"], scope, v["cases"], witness=v.get("witness"),
                    replay={"handler": "bounded_named", "input": {"what": "section_equivalence", "check": k}} if not v["ok"] else None)


@unit("C09", "thermal_kernel/numpy", functions=["pandapipes.pf.derivative_toolbox:derivatives_thermal_np"], engine="E2")
def thermal_kernel_np_c09(ctx):
    """reversing a branch leaves the heat terms unchanged: they depend on |mdot| and the flow-corrected inflow node (shared with C10)"""
    import contracts.C10 as C10
    C10._kernel(ctx, C10.TB + ":derivatives_thermal_np")


@unit("C09", "thermal_kernel/numba", functions=["pandapipes.pf.derivative_toolbox_numba:derivatives_thermal_numba"], engine="E2")
def thermal_kernel_nb_c09(ctx):
    import contracts.C10 as C10
    C10._kernel(ctx, C10.TBN + ":derivatives_thermal_numba")


# ---------------------------------------------------------------------------------------------
# start values taken from the node pit while the pit is being filled: the pit is filled component by component
# (initialize_pit: node entries, branch entries, component array of one component, then the next), so a value a component
# READS from a junction row is final only if no component that may come later in net.component_list WRITES that column

@unit("C09", "pit_fill_order", functions=["pandapipes.pf.pipeflow_setup:initialize_pit"], engine="E4")
def pit_fill_order(ctx):
    """read-before-final-write scan over the create_pit_* methods of all component classes (junctions are always first in
    component_list; every other order is the user's creation order).  Columns that are only START values of unknowns that the
    calculation of the mode determines (PINIT, MDOTINIT) are exempt; a temperature start value is an INPUT of the purely
    hydraulic calculation, so a read of TINIT that a later writer overrides makes hydraulic results depend on which end of
    a branch the fixed junction is (orientation) and on creation order -- finding F35."""
    ctx.assume("A6")
    import ast
    import os
    comps = classes.all_component_classes()
    ctx.structural("component-classes-found", "cover", len(comps) >= 12, witness=str(len(comps)))
    node_names = ("node_pit", "junction_pit")
    writers, readers = {}, {}
    for c in comps:
        for meth in ("create_pit_node_entries", "create_pit_branch_entries"):
            fr = classes.lookup_method(c, meth)
            if fr is None or fr.cls != c.name:          # inherited bodies are attributed to the class that defines them
                continue
            for n in ast.walk(fr.node):
                if isinstance(n, ast.Subscript) and isinstance(n.value, ast.Name) and n.value.id in node_names \
                        and isinstance(n.slice, ast.Tuple) and len(n.slice.elts) == 2:
                    col = ast.unparse(n.slice.elts[1])
                    if isinstance(n.ctx, ast.Store):
                        writers.setdefault(col, set()).add(c.name)
                    else:
                        readers.setdefault(col, set()).add((c.name, meth, n.lineno))
            # set_fixed_node_entries writes PINIT / TINIT (mode 'p' / 't') on behalf of its caller
            for n in ast.walk(fr.node):
                if isinstance(n, ast.Call) and ast.unparse(n.func) == "set_fixed_node_entries" and n.args:
                    mode = ast.unparse(n.args[-1]).strip("'\"")
                    writers.setdefault("PINIT" if mode == "p" else "TINIT_NODE", set()).add(c.name)
                    writers.setdefault("PINIT" if mode == "p" else "TINIT", set()).add(c.name)
    ctx.structural("readers-and-writers-found", "cover", len(readers) >= 3 and len(writers) >= 3, witness=str((sorted(readers), sorted(writers))))
    exempt = {"PINIT", "MDOTINIT"}
    for col in sorted(readers):
        base = col.replace("_NODE", "")
        if base in exempt:
            continue
        late = sorted(w for w in writers.get(col, set()) | writers.get(base, set()) if w != "Junction")
        for cname, meth, ln in sorted(readers[col]):
            others = [w for w in late if w != cname]
            ctx.decided("start-value-read-is-final/%s.%s/%s" % (cname, meth, col), "order", not others,
                        witness="%s.%s (line %d) reads %s of a junction row while the pit is being filled; %s write(s) that column in their "
                                "own create_pit_node_entries and may come later in component_list" % (cname, meth, ln, col, others))
