"""C03 -- prescribed pressures, flows, lifts and ratios are met exactly.

Row-generic obligations (engine E2/E3) on the real component classmethods: the pit rows a
controlling component writes are the *identity rows* / *lift rows* that, together with the matrix
families of C01 (pressure-controller rows (NN+b, n, 1) with right-hand side 0, slack rows (n, n, 1)
with right-hand side 0) and lemma L1, keep the prescribed quantity fixed through every Newton step:

  flow controller (active), mass circulation pump, heat consumer   df_dm = 1, df_dp = df_dp1 = 0, load = 0
        => x_b = 0  => the mass flow stays the prescribed MDOTINIT
  pressure circulation pump   df_dp = 1, df_dp1 = -1 and PL = plift_bar (residual of C02 with L = 0, zeta = 0)
  pressure controller         branch row zeroed, replaced by the PC matrix row => controlled pressure kept
  compressor                  PL = p_from_abs * (ratio - 1) for m >= 0, 0 for reverse flow
  pump                        PL = curve(volume flow); the volume flow it uses vs. the one reported
  sinks / sources / storages  report mdot * scaling where in service and supplied
"""
import ast
import z3

from pvc.harness import unit
from pvc import src as S, kern as K, twin as T, ev as E, classes
from pvc.val import *  # noqa
from pvc import val as V
from contracts import spec as SP
from contracts.C02 import forall_b, forall_n, forall_real, density_spec

# property-level native oracle used as the replay of refuted obligations that carry no model-specific replay
FALLBACK_REPLAY = {"handler": "bounded", "input": {"what": "prescribed_values"},
                   "expected": "every prescribed pressure / mass flow / lift is met by the reported results"}

BR = "pandapipes.idx_branch"
ND = "pandapipes.idx_node"
CM = "pandapipes.component_models."
CT = CM + "component_toolbox"
BWO = CM + "abstract_models.branch_wo_internals_models"
RX = "pandapipes.pf.result_extraction"
NCB = K.const(BR, "branch_cols")
NCN = K.const(ND, "node_cols")
for _n in ("FROM_NODE", "TO_NODE", "MDOTINIT", "JAC_DERIV_DP1", "JAC_DERIV_DM", "JAC_DERIV_DP", "LOAD_VEC_BRANCHES",
           "PL", "FLOW_RETURN_CONNECT", "BRANCH_TYPE", "PC", "LOSS_COEFFICIENT", "DIRECTED", "AREA", "D",
           "FROM_NODE_T_SWITCHED", "TOUTINIT", "JAC_DERIV_DT", "JAC_DERIV_DTOUT", "LOAD_VEC_BRANCHES_T"):
    globals()["B_" + _n] = K.const(BR, _n)
for _n in ("PINIT", "PAMB", "TINIT", "MDOTSLACKINIT", "VAR_MASS_SLACK", "ELEMENT_IDX"):
    globals()["N_" + _n] = K.const(ND, _n)
INT_B = (B_FROM_NODE, B_TO_NODE, B_BRANCH_TYPE, B_FROM_NODE_T_SWITCHED)


def comp_class(mod, name):
    return S.get_module(CM + mod).classes[name]


def class_const(cref, name):
    for c in classes.mro(cref):
        for st in c.node.body:
            if isinstance(st, ast.Assign) and isinstance(st.targets[0], ast.Name) and st.targets[0].id == name:
                return c.module._eval_const(st.value, 0)
    raise S.SourceError("%s.%s" % (cref.name, name))


class World:
    """arguments of an adaption_* classmethod for the pit block [f, t) of one component"""

    def __init__(self, cref, tname, ncomp_cols, table_cols=None, gas=False):
        self.cref, self.tname = cref, tname
        self.f, self.t = z3.Int("f_blk"), z3.Int("t_blk")
        self.fluid = K.make_fluid(gas)
        self.ncomp = ncomp_cols
        self.table_cols = table_cols or {}
        self.spec = T.ArgSpec([
            ("cls", "const", dict(value=cref)),
            ("net", "obj", dict(make=self.make_net)),
            ("branch_pit", "pit", dict(rows="b", ncols=NCB, int_cols=INT_B)),
            ("node_pit", "pit", dict(rows="n", ncols=NCN)),
            ("branch_pit_old", "const", dict(value=None)),
            ("node_pit_old", "const", dict(value=None)),
            ("idx_lookups", "const", dict(value={tname: (self.f, self.t)})),
            ("options", "const", dict(value={})),
        ])

    def make_net(self):
        items = {"fluid": self.fluid,
                 "_pit": {"components": {self.tname: K.sym_pit("comp_array", self.t - self.f, self.ncomp)}}}
        if self.table_cols:
            items[self.tname] = K.sym_table(self.tname, self.t - self.f, self.table_cols)
        return K.NetObj(items)

    def comp_array(self):
        return K.sym_pit("comp_array", self.t - self.f, self.ncomp)

    def table(self):
        return K.sym_table(self.tname, self.t - self.f, self.table_cols)

    stage = "hydraulics"

    def contracts(self):
        def c_component_array(ev, args, kwargs):
            # contract of get_component_array (unit component_array): rows aligned with the ACTIVE pit block of the table
            # only for only_active=True and the mode of the stage; any other request yields an array about which
            # nothing is known (its rows belong to other elements)
            ctype = kwargs.get("component_type", args[2] if len(args) > 2 else "branch")
            mode = kwargs.get("mode", args[3] if len(args) > 3 else "hydraulics")
            only_active = kwargs.get("only_active", args[4] if len(args) > 4 else True)
            if only_active is True and mode == self.stage and ctype == "branch" and args[1] == self.tname:
                return args[0].items["_pit"]["components"][args[1]]
            return K.sym_pit("component_array_not_aligned_with_the_active_block", z3.Int("n_unaligned"), self.ncomp)
        return {CT + ":get_component_array": c_component_array}

    def req(self):
        bp = self.spec.objs["branch_pit"]
        sp = self.spec
        return sp.base() + [self.f >= 0, self.f <= self.t, self.t <= sp.NB,
                            forall_b(sp, lambda i: z3.And(
                                z3.ToInt(bp.f(i, B_FROM_NODE)) >= 0, z3.ToInt(bp.f(i, B_FROM_NODE)) < sp.NN,
                                z3.ToInt(bp.f(i, B_TO_NODE)) >= 0, z3.ToInt(bp.f(i, B_TO_NODE)) < sp.NN))]

    def run(self, ctx, key, extra_contracts=None):
        cs = self.contracts()
        cs.update(extra_contracts or {})
        paths = T.run_paths(ctx, key, self.spec.build, contracts=cs)
        self.spec.build()
        return paths


def col_goal(paths, k, c, expect, pit_index=2, extra=()):
    gs = []
    for p in paths:
        if p.exc is not None:
            gs.append(z3.Not(p.cond()))
        else:
            gs.append(z3.Implies(z3.And(p.cond(), *extra), K.eq_val(p.args[0][pit_index].f(k, c), expect(p))))
    return z3.And(*gs)


def identity_row_obligations(ctx, w, paths, active_of_row, label, dp=0, dp1=0, dm=1, keep_when_inactive=True):
    bp0 = w.spec.objs["branch_pit"]
    k = z3.Int("k")
    i = k - w.f
    req = w.req() + [k >= w.f, k < w.t]
    act = active_of_row(i)
    for nm, c, v in (("JAC_DERIV_DP", B_JAC_DERIV_DP, dp), ("JAC_DERIV_DP1", B_JAC_DERIV_DP1, dp1),
                     ("JAC_DERIV_DM", B_JAC_DERIV_DM, dm), ("LOAD_VEC_BRANCHES", B_LOAD_VEC_BRANCHES, 0)):
        if v is None:
            continue
        ctx.ob("%s/%s" % (label, nm), "ensures", req,
               col_goal(paths, k, c, lambda p, _c=c, _v=v: ite(act, _v, bp0.f(k, _c))))
    ctx.ob("%s/frame/MDOTINIT" % label, "frame", req, col_goal(paths, k, B_MDOTINIT, lambda p: bp0.f(k, B_MDOTINIT)))
    o = z3.Int("o")
    reqo = w.req() + [o >= 0, o < w.spec.NB, z3.Or(o < w.f, o >= w.t)]
    for nm, c in (("JAC_DERIV_DM", B_JAC_DERIV_DM), ("LOAD_VEC_BRANCHES", B_LOAD_VEC_BRANCHES),
                  ("JAC_DERIV_DP", B_JAC_DERIV_DP)):
        ctx.ob("%s/frame/other-rows/%s" % (label, nm), "frame", reqo,
               col_goal(paths, o, c, lambda p, _c=c: bp0.f(o, _c)))


FC = CM + "flow_control_component"


@unit("C03", "flow_control/identity_row", functions=[FC + ":FlowControlComponent.adaption_after_derivatives_hydraulic"],
      engine="E2")
def flow_control_row(ctx):
    ctx.assume("A1", "A4", "A6")
    cref = comp_class("flow_control_component", "FlowControlComponent")
    w = World(cref, "flow_control", class_const(cref, "internal_cols"))
    paths = w.run(ctx, FC + ":FlowControlComponent.adaption_after_derivatives_hydraulic")
    ca = w.comp_array()
    CA = class_const(cref, "CONTROL_ACTIVE")
    identity_row_obligations(ctx, w, paths, lambda i: V.R(ca.f(i, CA)) != 0, "active-controller")


@unit("C03", "flow_control/entries", functions=[FC + ":FlowControlComponent.create_pit_branch_entries",
                                                FC + ":FlowControlComponent.create_component_array"], engine="E2")
def flow_control_entries(ctx):
    ctx.assume("A1", "A4", "A6")
    cref = comp_class("flow_control_component", "FlowControlComponent")
    f, t, NB = z3.Int("f_blk"), z3.Int("t_blk"), z3.Int("NB")
    cols = {"controlled_mdot_kg_per_s": "f", "control_active": "b"}

    def mk():
        net = K.NetObj({"flow_control": K.sym_table("flow_control", t - f, cols)})
        return [cref, net, K.sym_pit("branch_pit", NB, NCB, int_cols=INT_B)], {}
    paths = T.run_paths(ctx, FC + ":FlowControlComponent.create_pit_branch_entries", mk, contracts={
        BWO + ":BranchWOInternalsComponent.create_pit_branch_entries": lambda ev, a, k: PitSlice(a[2], f, t)})
    tbl = K.sym_table("flow_control", t - f, cols)
    bp0 = K.sym_pit("branch_pit", NB, NCB, int_cols=INT_B)
    k = z3.Int("k")
    req = [f >= 0, f <= t, t <= NB, k >= f, k < t]
    ctx.decided("cover/path", "cover", len(paths) == 1 and paths[0].exc is None, witness=str(len(paths)))
    bp = paths[0].args[0][2]
    ctx.ob("ensures/MDOTINIT-is-set-point", "ensures", req,
           K.eq_val(bp.f(k, B_MDOTINIT), tbl.columns["controlled_mdot_kg_per_s"].f(k - f)))
    ctx.ob("ensures/active-controller-does-not-connect", "ensures", req,
           K.eq_val(bp.f(k, B_FLOW_RETURN_CONNECT),
                    ite(tbl.columns["control_active"].f(k - f), 1, bp0.f(k, B_FLOW_RETURN_CONNECT))))
    # component array: CONTROL_ACTIVE column
    def mk2():
        net = K.NetObj({"flow_control": K.sym_table("flow_control", t - f, cols)})
        return [cref, net, {}], {}
    p2 = T.run_paths(ctx, FC + ":FlowControlComponent.create_component_array", mk2)
    arr = p2[0].args[0][2].get("flow_control")
    CA = class_const(cref, "CONTROL_ACTIVE")
    i = z3.Int("i")
    ctx.ob("ensures/component-array-active-flag", "ensures", [t - f >= 1, i >= 0, i < t - f],
           (V.R(arr.f(i, CA)) != 0) == B(tbl.columns["control_active"].f(i)))


CPM = CM + "circulation_pump_mass_component"
CPP = CM + "circulation_pump_pressure_component"
CPA = CM + "abstract_models.circulation_pump"


def c_circ_super_after(f, t):
    def c(ev, args, kwargs):
        # contract of CirculationPump.adaption_after_derivatives_hydraulic: returns the pump block
        # (it only resets the slack mass of non-slack flow nodes)
        return PitSlice(args[2], f, t)
    return c


@unit("C03", "circ_pump_mass/identity_row", functions=[CPM + ":CirculationPumpMass.adaption_after_derivatives_hydraulic"],
      engine="E2")
def circ_mass_row(ctx):
    ctx.assume("A1", "A4", "A6")
    cref = comp_class("circulation_pump_mass_component", "CirculationPumpMass")
    w = World(cref, "circ_pump_mass", 1)
    paths = w.run(ctx, CPM + ":CirculationPumpMass.adaption_after_derivatives_hydraulic", {
        CPA + ":CirculationPump.adaption_after_derivatives_hydraulic": c_circ_super_after(w.f, w.t)})
    identity_row_obligations(ctx, w, paths, lambda i: True, "mass-pump")


@unit("C03", "circ_pump_pressure/lift_row", functions=[CPP + ":CirculationPumpPressure.adaption_after_derivatives_hydraulic",
                                                       CPP + ":CirculationPumpPressure.create_pit_branch_entries"],
      engine="E2")
def circ_pressure_row(ctx):
    ctx.assume("A1", "A4", "A6")
    cref = comp_class("circulation_pump_pressure_component", "CirculationPumpPressure")
    w = World(cref, "circ_pump_pressure", 1)
    paths = w.run(ctx, CPP + ":CirculationPumpPressure.adaption_after_derivatives_hydraulic", {
        CPA + ":CirculationPump.adaption_after_derivatives_hydraulic": c_circ_super_after(w.f, w.t)})
    bp0 = w.spec.objs["branch_pit"]
    k = z3.Int("k")
    req = w.req() + [k >= w.f, k < w.t]
    ctx.ob("lift-row/JAC_DERIV_DP", "ensures", req, col_goal(paths, k, B_JAC_DERIV_DP, lambda p: 1))
    ctx.ob("lift-row/JAC_DERIV_DP1", "ensures", req, col_goal(paths, k, B_JAC_DERIV_DP1, lambda p: -1))
    for nm, c in (("LOAD_VEC_BRANCHES", B_LOAD_VEC_BRANCHES), ("JAC_DERIV_DM", B_JAC_DERIV_DM), ("PL", B_PL)):
        ctx.ob("lift-row/kept/%s" % nm, "frame", req, col_goal(paths, k, c, lambda p, _c=c: bp0.f(k, _c)))
    # PL column = plift_bar
    f, t, NB = w.f, w.t, z3.Int("NB")
    cols = {"plift_bar": "f"}

    def mk():
        net = K.NetObj({"circ_pump_pressure": K.sym_table("circ_pump_pressure", t - f, cols)})
        return [cref, net, K.sym_pit("branch_pit", NB, NCB, int_cols=INT_B)], {}
    p2 = T.run_paths(ctx, CPP + ":CirculationPumpPressure.create_pit_branch_entries", mk, contracts={
        CPA + ":CirculationPump.create_pit_branch_entries": lambda ev, a, kw: PitSlice(a[2], f, t)})
    tbl = K.sym_table("circ_pump_pressure", t - f, cols)
    ctx.decided("entries/path", "cover", len(p2) == 1 and p2[0].exc is None, witness=str(len(p2)))
    ctx.ob("entries/PL-is-plift_bar", "ensures", [f >= 0, f <= t, t <= NB, k >= f, k < t],
           K.eq_val(p2[0].args[0][2].f(k, B_PL), tbl.columns["plift_bar"].f(k - f)))
    # with LENGTH = 0 and zeta = 0 the liquid residual reduces to p_from - p_to + PL + rho g dh / 1e5
    m, pf, pt, pl, dh, rho, lam, d, A = z3.Reals("m pf pt pl dh rho lam d A")
    ctx.ob("lemma/lift-equation", "lemma", [rho > 0, A > 0, d > 0],
           V.R(SP.residual_liquid(m, pf, pt, pl, dh, rho, lam, 0, d, 0, A)) == pf - pt + pl + rho * SP.G * dh / 100000)


@unit("C03", "circ_pump_mass/entries", functions=[CPM + ":CirculationPumpMass.create_pit_branch_entries"], engine="E2")
def circ_mass_entries(ctx):
    ctx.assume("A1", "A4", "A6")
    cref = comp_class("circulation_pump_mass_component", "CirculationPumpMass")
    f, t, NB = z3.Int("f_blk"), z3.Int("t_blk"), z3.Int("NB")
    cols = {"mdot_flow_kg_per_s": "f"}

    def mk():
        net = K.NetObj({"circ_pump_mass": K.sym_table("circ_pump_mass", t - f, cols)})
        return [cref, net, K.sym_pit("branch_pit", NB, NCB, int_cols=INT_B)], {}
    p2 = T.run_paths(ctx, CPM + ":CirculationPumpMass.create_pit_branch_entries", mk, contracts={
        CPA + ":CirculationPump.create_pit_branch_entries": lambda ev, a, kw: PitSlice(a[2], f, t)})
    tbl = K.sym_table("circ_pump_mass", t - f, cols)
    k = z3.Int("k")
    ctx.decided("path", "cover", len(p2) == 1 and p2[0].exc is None, witness=str(len(p2)))
    ctx.ob("MDOTINIT-is-mdot_flow", "ensures", [f >= 0, f <= t, t <= NB, k >= f, k < t],
           K.eq_val(p2[0].args[0][2].f(k, B_MDOTINIT), tbl.columns["mdot_flow_kg_per_s"].f(k - f)))


@unit("C03", "circ_pump/base_entries", functions=[CPA + ":CirculationPump.create_pit_branch_entries",
                                                  CPA + ":CirculationPump.adaption_after_derivatives_thermal"],
      engine="E3")
def circ_base_entries(ctx):
    """the pump block has one row per table row (in or out of service): the arrays taken from the table
    must have that length -- the boolean-mask / shape obligations of the evaluator"""
    ctx.assume("A1", "A4", "A6")
    cref = comp_class("circulation_pump_mass_component", "CirculationPumpMass")
    f, t, NB, NN = z3.Int("f_blk"), z3.Int("t_blk"), z3.Int("NB"), z3.Int("NN")
    cols = {"in_service": "b", "type": "i", "flow_junction": "i", "t_flow_k": "f", "return_junction": "i"}
    NL = z3.Int("NLOOKUP")

    def mk():
        net = K.NetObj({"circ_pump_mass": K.sym_table("circ_pump_mass", t - f, cols),
                        "_pit": {"node": K.sym_pit("node_pit", NN, NCN)},
                        "_lookups": {"node_index": {"junction": K.sym_arr("junction_lookup", NL, "i")}}})
        return [cref, net, K.sym_pit("branch_pit", NB, NCB, int_cols=INT_B)], {}
    paths = T.run_paths(ctx, CPA + ":CirculationPump.create_pit_branch_entries", mk, contracts={
        BWO + ":BranchWOInternalsComponent.create_pit_branch_entries": lambda ev, a, kw: PitSlice(a[2], f, t)})
    ok = [p for p in paths if p.exc is None]
    ctx.decided("returns", "cover", len(ok) >= 1, witness=str([str(p.exc) for p in paths]))
    req = [f >= 0, f <= t, t <= NB, NN >= 1]
    ctx.check_safety(paths, req, "entries", kinds=("shape", "mask", "tiling"),
                     replay={"handler": "circ_pump_out_of_service", "input": {}})
    tbl = K.sym_table("circ_pump_mass", t - f, cols)
    k = z3.Int("k")
    for p in ok[:1]:
        bp = p.args[0][2]
        tcode_pt, tcode_t = V.str_code("pt"), V.str_code("t")
        is_t = z3.Or(tbl.columns["type"].f(k - f) == tcode_pt, tbl.columns["type"].f(k - f) == tcode_t)
        ctx.ob("TOUTINIT-is-flow-temperature", "ensures", req + [k >= f, k < t, is_t] + list(p.facts),
               K.eq_val(bp.f(k, B_TOUTINIT), tbl.columns["t_flow_k"].f(k - f)))
    # thermal: the outlet temperature row of a circulation pump is the identity T_out = T_out(init)
    w = World(cref, "circ_pump_mass", 1)
    pt_ = w.run(ctx, CPA + ":CirculationPump.adaption_after_derivatives_thermal")
    reqk = w.req() + [k >= w.f, k < w.t]
    for nm, c, v in (("LOAD_VEC_BRANCHES_T", B_LOAD_VEC_BRANCHES_T, 0), ("JAC_DERIV_DTOUT", B_JAC_DERIV_DTOUT, 1),
                     ("JAC_DERIV_DT", B_JAC_DERIV_DT, 0)):
        ctx.ob("thermal-identity-row/%s" % nm, "ensures", reqk, col_goal(pt_, k, c, lambda p, _v=v: _v))


PCM = CM + "pressure_control_component"


@unit("C03", "pressure_control/rows", functions=[PCM + ":PressureControlComponent.adaption_after_derivatives_hydraulic",
                                                 PCM + ":PressureControlComponent.create_pit_branch_entries"], engine="E2")
def pressure_control_rows(ctx):
    ctx.assume("A1", "A4", "A6")
    cref = comp_class("pressure_control_component", "PressureControlComponent")
    w = World(cref, "press_control", class_const(cref, "internal_cols"))
    paths = w.run(ctx, PCM + ":PressureControlComponent.adaption_after_derivatives_hydraulic")
    bp0 = w.spec.objs["branch_pit"]
    k = z3.Int("k")
    req = w.req() + [k >= w.f, k < w.t]
    ispc = V.I(bp0.f(k, B_BRANCH_TYPE)) == B_PC
    for nm, c in (("JAC_DERIV_DP", B_JAC_DERIV_DP), ("JAC_DERIV_DP1", B_JAC_DERIV_DP1), ("JAC_DERIV_DM", B_JAC_DERIV_DM)):
        ctx.ob("controller-row-zeroed/%s" % nm, "ensures", req,
               col_goal(paths, k, c, lambda p, _c=c: ite(ispc, 0, bp0.f(k, _c))))
    f, t, NB = w.f, w.t, z3.Int("NB")
    cols = {"control_active": "b", "loss_coefficient": "f"}

    def mk():
        net = K.NetObj({"press_control": K.sym_table("press_control", t - f, cols)})
        return [cref, net, K.sym_pit("branch_pit", NB, NCB, int_cols=INT_B)], {}
    p2 = T.run_paths(ctx, PCM + ":PressureControlComponent.create_pit_branch_entries", mk, contracts={
        BWO + ":BranchWOInternalsComponent.create_pit_branch_entries": lambda ev, a, kw: PitSlice(a[2], f, t)})
    tbl = K.sym_table("press_control", t - f, cols)
    bpi = K.sym_pit("branch_pit", NB, NCB, int_cols=INT_B)
    ctx.decided("entries/path", "cover", len(p2) == 1 and p2[0].exc is None, witness=str(len(p2)))
    r2 = [f >= 0, f <= t, t <= NB, k >= f, k < t]
    bp = p2[0].args[0][2]
    ctx.ob("entries/active-controller-is-PC-branch", "ensures", r2,
           K.eq_val(bp.f(k, B_BRANCH_TYPE), ite(tbl.columns["control_active"].f(k - f), B_PC, bpi.f(k, B_BRANCH_TYPE))))
    ctx.ob("entries/directed", "ensures", r2, V.R(bp.f(k, B_DIRECTED)) != 0)


@unit("C03", "pressure_control/node_entries", functions=[PCM + ":PressureControlComponent.create_pit_node_entries",
                                                         PCM + ":PressureControlComponent.adaption_before_derivatives_hydraulic"],
      engine="E3")
def pressure_control_nodes(ctx):
    """only in-service controllers with control_active fix the pressure of their controlled junction (and mark it
    as a controlled node); a switched-off controller leaves the node alone"""
    ctx.assume("A1", "A4", "A6", "A7")
    cref = comp_class("pressure_control_component", "PressureControlComponent")
    NPC, NLJ, NN_ = z3.Int("NPC"), z3.Int("NLJ"), z3.Int("NN")
    cols = {"control_active": "b", "in_service": "b", "controlled_junction": "i", "controlled_p_bar": "f"}

    def mk():
        net = K.NetObj({"press_control": K.sym_table("press_control", NPC, cols),
                        "_lookups": {"node_index": {"junction": K.sym_arr("junction_lookup", NLJ, "i")}}})
        return [cref, net, K.sym_pit("node_pit", NN_, NCN)], {}
    paths = T.run_paths(ctx, PCM + ":PressureControlComponent.create_pit_node_entries", mk)
    ok = len(paths) == 1 and paths[0].exc is None
    ctx.decided("entries/single-path", "cover", ok, witness=str([str(p.exc) for p in paths]))
    tbl = K.sym_table("press_control", NPC, cols)
    L = K.sym_arr("junction_lookup", NLJ, "i")
    np0 = K.sym_pit("node_pit", NN_, NCN)
    k, k2, n, c = z3.Int("k!pc"), z3.Int("k2!pc"), z3.Int("n!node"), z3.Int("c!col")
    on = lambda r: z3.And(B(tbl.columns["control_active"].f(r)), B(tbl.columns["in_service"].f(r)))
    node_of = lambda r: V.I(L.f(V.I(tbl.columns["controlled_junction"].f(r))))
    pre = [NPC >= 0, NN_ >= 1, NLJ >= 0,
           z3.ForAll([k], z3.Implies(z3.And(k >= 0, k < NPC), z3.And(
               V.I(tbl.columns["controlled_junction"].f(k)) >= 0, V.I(tbl.columns["controlled_junction"].f(k)) < NLJ,
               node_of(k) >= 0, node_of(k) < NN_))),
           # one working controller per controlled junction
           z3.ForAll([k, k2], z3.Implies(z3.And(k >= 0, k < NPC, k2 >= 0, k2 < NPC, k != k2, on(k), on(k2)),
                                         node_of(k) != node_of(k2)))]
    if ok:
        p = paths[0]
        npit = p.args[0][2]
        a = pre + list(p.facts) + [p.cond()]
        ctx.ob("entries/working-controller-fixes-its-junction", "ensures", a + [k >= 0, k < NPC, on(k)],
               K.eq_val(npit.f(node_of(k), N_PINIT), tbl.columns["controlled_p_bar"].f(k)))
        ctx.ob("entries/other-nodes-untouched", "frame",
               a + [n >= 0, n < NN_, z3.ForAll([k], z3.Implies(z3.And(k >= 0, k < NPC, on(k)), node_of(k) != n))],
               K.eq_val(npit.f(n, N_PINIT), np0.f(n, N_PINIT)))
        ctx.ob("entries/other-columns-untouched", "frame", a + [n >= 0, n < NN_, c >= 0, c < NCN, c != N_PINIT],
               K.eq_val(npit.f(n, c), np0.f(n, c)))
        ctx.check_safety(paths, pre, "entries/fn", kinds=("index", "shape", "mask"))
    # marking of the controlled nodes in the active pit
    ncol = class_const(cref, "internal_cols")
    JU, CO, IS = class_const(cref, "JUNCTS"), class_const(cref, "CONTROLLED"), class_const(cref, "IN_SERVICE")
    N_NODE_TYPE, N_PC = K.const(ND, "NODE_TYPE"), K.const(ND, "PC")

    def mk2():
        net = K.NetObj({"_lookups": {"node_index_active_hydraulics": {"junction": K.sym_arr("junction_lookup_active", NLJ, "i")}}})
        return [cref, net, K.sym_pit("branch_pit", z3.Int("NB"), NCB), K.sym_pit("node_pit", NN_, NCN, int_cols=(N_NODE_TYPE,)),
                None, None, {}, {}], {}
    ca = K.sym_pit("press_control_array", NPC, ncol, int_cols=(JU,))
    paths2 = T.run_paths(ctx, PCM + ":PressureControlComponent.adaption_before_derivatives_hydraulic", mk2,
                         contracts={"pandapipes.component_models.component_toolbox:get_component_array": lambda ev, a_, kw: ca})
    normal = [p for p in paths2 if p.exc is None]
    raised = [p for p in paths2 if p.exc is not None]
    ctx.decided("marking/paths", "cover", len(normal) == 1 and len(raised) == 1, witness=str([str(p.exc) for p in paths2]))
    La = K.sym_arr("junction_lookup_active", NLJ, "i")
    node_a = lambda r: V.I(La.f(V.I(ca.f(r, JU))))
    in_s = lambda r: V.R(ca.f(r, IS)) != 0
    ctrl = lambda r: V.R(ca.f(r, CO)) != 0
    pre2 = [NPC >= 0, NN_ >= 1, NLJ >= 0, z3.ForAll([k], z3.Implies(z3.And(k >= 0, k < NPC), z3.And(
        V.I(ca.f(k, JU)) >= 0, V.I(ca.f(k, JU)) < NLJ, node_a(k) >= -1, node_a(k) < NN_)))]
    np1 = K.sym_pit("node_pit", NN_, NCN, int_cols=(N_NODE_TYPE,))
    for p in normal:
        npit = p.args[0][3]
        a = pre2 + list(p.facts) + [p.cond()]
        ctx.ob("marking/working-controller-marks-PC-node", "ensures", a + [k >= 0, k < NPC, in_s(k), ctrl(k)],
               K.eq_val(npit.f(node_a(k), N_NODE_TYPE), N_PC))
        ctx.ob("marking/other-nodes-keep-their-type", "frame",
               a + [n >= 0, n < NN_, z3.ForAll([k], z3.Implies(z3.And(k >= 0, k < NPC, in_s(k), ctrl(k)), node_a(k) != n))],
               K.eq_val(npit.f(n, N_NODE_TYPE), np1.f(n, N_NODE_TYPE)))
        ctx.ob("marking/returns-only-if-every-in-service-controller-has-a-supplied-junction", "ensures",
               a + [k >= 0, k < NPC, in_s(k)], node_a(k) != -1)
    for p in raised:
        ctx.ob("marking/raises-only-for-a-disconnected-controlled-junction", "ensures", pre2 + list(p.facts) + [p.cond()],
               z3.Exists([k], z3.And(k >= 0, k < NPC, in_s(k), node_a(k) == -1)))


CMP = CM + "compressor_component"


@unit("C03", "compressor/lift", functions=[CMP + ":Compressor.adaption_before_derivatives_hydraulic"], engine="E2")
def compressor_lift(ctx):
    ctx.assume("A1", "A4", "A6")
    cref = comp_class("compressor_component", "Compressor")
    w = World(cref, "compressor", class_const(cref, "internal_cols"), gas=True)
    paths = w.run(ctx, CMP + ":Compressor.adaption_before_derivatives_hydraulic")
    bp0, np0 = w.spec.objs["branch_pit"], w.spec.objs["node_pit"]
    ca = w.comp_array()
    PR = class_const(cref, "PRESSURE_RATIO")
    k = z3.Int("k")
    i = k - w.f
    req = w.req() + [k >= w.f, k < w.t]
    fn = V.I(bp0.f(k, B_FROM_NODE))
    p_abs = np0.f(fn, N_PAMB) + np0.f(fn, N_PINIT)
    lift = ite(bp0.f(k, B_MDOTINIT) < 0, 0, p_abs * ca.f(i, PR) - p_abs)
    ctx.ob("PL-is-ratio-lift-forward-zero-reverse", "ensures", req, col_goal(paths, k, B_PL, lambda p: lift))
    # forward flow: the to-side absolute pressure implied by the lift is ratio * from-side
    ctx.ob("lemma/ratio", "lemma", [], p_abs + (p_abs * ca.f(i, PR) - p_abs) == ca.f(i, PR) * p_abs)


PMP = CM + "pump_component"


class _TypeAt:
    """the std-type object of the pump in row k (an element of itemgetter(*names)(net.std_types['pump']))"""

    def __init__(self, type_id, curve):
        self.type_id, self.curve = type_id, curve

    def getattr_(self, ev, attr, lineno):
        if attr != "get_pressure":
            raise Unsupported("pump std type attribute %s" % attr)
        tid, curve = self.type_id, self.curve

        class _M:
            def call(self, ev, args, kwargs, lineno):
                return curve(V.I(tid), V.R(val_of(args[0])))
        return _M()


class _Fcts:
    is_tuple = True

    def __init__(self, names, curve):
        self.names, self.curve, self.n = names, curve, names.n

    def elem(self, j):
        return _TypeAt(self.names.f(j), self.curve)


def _pump_world(ctx, gas):
    """symbolic run of Pump.adaption_before_derivatives_hydraulic; returns (paths, world, curve, names, comp)"""
    cref = comp_class("pump_component", "Pump")
    STD = class_const(cref, "STD_TYPE")
    w = World(cref, "pump", class_const(cref, "internal_cols"), gas=gas)
    curve = z3.Function("pump_curve", z3.IntSort(), z3.RealSort(), z3.RealSort())
    NT = z3.Int("NTYPES")
    names = K.sym_arr("std_type_names", NT, "i")

    class _IG:
        def call(self, ev, args, kwargs, lineno):
            if len(args) != 1 or not isinstance(args[0], E.StarArr):
                raise Unsupported("itemgetter with these arguments")
            arr_ = args[0].arr

            class _G:
                def call(self, ev, a2, k2, ln2):
                    return _Fcts(arr_, curve)
            return _G()
    cs = w.contracts()
    cs[CT + ":get_std_type_lookup"] = lambda ev, a, k: names
    spec_build = w.spec.build

    def build():
        args, kw = spec_build()
        net = args[1]
        net.items["std_types"] = {"pump": "pump-type-library"}
        return args, kw
    paths = T.run_paths(ctx, PMP + ":Pump.adaption_before_derivatives_hydraulic", build, contracts=cs,
                        hooks={"global": lambda m, n: _IG() if n == "itemgetter" else None})
    w.spec.build()
    return paths, w, curve, names, STD


def _pump_unit(ctx, gas):
    ctx.assume("A1", "A3", "A4", "A6")
    paths, w, curve, names, STD = _pump_world(ctx, gas)
    tag = "gas" if gas else "liquid"
    main = [p for p in paths if p.exc is None]
    ctx.decided("%s/returns" % tag, "cover", len(main) >= 1 and len(main) == len(paths), witness=str([str(p.exc) for p in paths]))
    if not main:
        return
    bp0, np0 = w.spec.objs["branch_pit"], w.spec.objs["node_pit"]
    comp = w.comp_array()
    fluid = w.fluid
    k = z3.Int("k")
    i = k - w.f
    N_PAMB, N_PINIT_, N_TIN = K.const(ND, "PAMB"), K.const(ND, "PINIT"), K.const(ND, "TINIT")
    fn = V.I(bp0.f(k, B_FROM_NODE))
    m, area = V.R(bp0.f(k, B_MDOTINIT)), V.R(bp0.f(k, B_AREA))
    rho_n = fluid.ufs["density"](z3.RealVal(str(SP.T_N)))
    v_mps = V.R(SP.div(SP.div(m, area), rho_n))
    if gas:
        p_from = V.R(SP.add(np0.f(fn, N_PAMB), np0.f(fn, N_PINIT_)))
        t_from = V.R(np0.f(fn, N_TIN))            # the INLET (from-node) temperature
        nf = V.R(SP.div(SP.mul(SP.mul(SP.P_N, t_from), fluid.ufs["compressibility"](p_from)), SP.mul(p_from, SP.T_N)))
        vol = V.R(SP.mul(SP.mul(v_mps, nf), area))
    else:
        vol = V.R(SP.mul(v_mps, area))
    tid = V.I(names.f(V.I(comp.f(i, STD))))
    NT = z3.Int("NTYPES")
    req = w.req() + [k >= w.f, k < w.t, V.I(comp.f(i, STD)) >= 0, V.I(comp.f(i, STD)) < NT, area > 0, rho_n > 0,
                     V.R(SP.add(np0.f(fn, N_PAMB), np0.f(fn, N_PINIT_))) > 0]
    written = [p for p in main if p.args[0][2].f is not bp0.f]
    ctx.decided("%s/lift-written-when-the-block-is-not-empty" % tag, "cover", len(written) >= 1, witness="%d paths" % len(main))
    g = []
    for p in main:
        bp = p.args[0][2]
        g.append(z3.Implies(z3.And(p.cond(), w.t - w.f >= 1), K.eq_val(bp.f(k, B_PL), curve(tid, vol))))
    ctx.ob("%s/lift-is-the-curve-of-the-row's-own-type-at-the-inlet-volume-flow" % tag, "ensures",
           req + T.all_facts(main), z3.And(*g))


@unit("C03", "pump/lift/liquid", functions=[PMP + ":Pump.adaption_before_derivatives_hydraulic"], engine="E2")
def pump_lift_liquid(ctx):
    _pump_unit(ctx, False)


@unit("C03", "pump/lift/gas", functions=[PMP + ":Pump.adaption_before_derivatives_hydraulic"], engine="E2")
def pump_lift_gas(ctx):
    _pump_unit(ctx, True)


@unit("C03", "pump/volume_flow", engine="E2")
def pump_volume_flow(ctx):
    """spec level: the pump evaluates its curve at  m / rho(T_N)  (proved above); the result tables report
    vdot = m / rho_mean(T) for liquids -- the two must be the same quantity (finding F24)"""
    ctx.assume("A1")
    m, A, T_in, T_out = z3.Reals("mdot area t_in t_out")
    rho = z3.Function("fluid_density", z3.RealSort(), z3.RealSort())
    vol_pump = m / A / rho(z3.RealVal(SP.T_N)) * A
    vol_reported = m / ((rho(T_in) + rho(T_out)) / 2)
    pos = z3.ForAll([z3.Real("x")], rho(z3.Real("x")) > 0)
    ctx.ob("liquid/curve-evaluated-at-reported-volume-flow", "ensures", [A > 0, pos], vol_pump == vol_reported,
           replay=lambda mdl: {"handler": "pump_volume_flow", "input": {},
                               "expected": "deltap_bar == pump curve at the reported vdot_m3_per_s"})
    ctx.ob("liquid/curve-evaluated-at-normal-density-volume-flow", "ensures", [A > 0, pos],
           vol_pump == m / rho(z3.RealVal(SP.T_N)))


CF = CM + "abstract_models.const_flow_models"


@unit("C03", "loads/results", functions=[CF + ":ConstFlow.extract_results"], engine="E2")
def load_results(ctx):
    ctx.assume("A1", "A4", "A6")
    cref = comp_class("sink_component", "Sink")
    n, NN, fj, tj = z3.Int("NL"), z3.Int("NN"), z3.Int("fj"), z3.Int("tj")
    cols = {"in_service": "b", "scaling": "f", "mdot_kg_per_s": "f", "junction": "i"}

    def mk():
        net = K.NetObj({"sink": K.sym_table("sink", n, cols),
                        "res_sink": K.sym_table("res_sink", n, {"mdot_kg_per_s": "f"}),
                        "_pit": {"node": K.sym_pit("node_pit", NN, NCN, int_cols=(N_ELEMENT_IDX,))},
                        "_lookups": {"node_from_to": {"junction": (fj, tj)},
                                     "node_active_hydraulics": K.sym_arr("nodes_connected", NN, "b")}})
        return [cref, net, {}, {}, "hydraulics"], {}
    paths = T.run_paths(ctx, CF + ":ConstFlow.extract_results", mk)
    ok = len(paths) >= 1 and all(p.exc is None for p in paths)
    ctx.decided("returns", "cover", ok, witness=str([str(p.exc) for p in paths]))
    if not ok:
        return
    tbl = K.sym_table("sink", n, cols)
    res0 = K.sym_table("res_sink", n, {"mdot_kg_per_s": "f"})
    npit = K.sym_pit("node_pit", NN, NCN, int_cols=(N_ELEMENT_IDX,))
    conn = K.sym_arr("nodes_connected", NN, "b")
    r = z3.Int("r")
    q = z3.Int("q!node")
    supplied = z3.Exists([q], z3.And(q >= fj, q < tj, conn.f(q), V.I(npit.f(q, N_ELEMENT_IDX)) == tbl.columns["junction"].f(r)))
    served = z3.And(tbl.columns["in_service"].f(r), supplied)
    req = [n >= 1, r >= 0, r < n, fj >= 0, fj <= tj, tj <= NN]
    g = []
    for p in paths:
        res = p.args[0][1].items["res_sink"].columns["mdot_kg_per_s"]
        g.append(z3.Implies(p.cond(), K.eq_val(res.f(r), ite(served, tbl.columns["mdot_kg_per_s"].f(r) * tbl.columns["scaling"].f(r),
                                                                res0.columns["mdot_kg_per_s"].f(r)))))
    ctx.ob("reports-mdot-times-scaling-where-served", "ensures", req + T.all_facts(paths), z3.And(*g))


# ---------------------------------------------------------------------------------------------
# fixed node values: running mean over all pressure / temperature fixings of a node

IT = "pandapipes.pf.internals_toolbox"


@unit("C03", "fixed_node_entries", functions=[CT + ":set_fixed_node_entries"], engine="E3")
def fixed_node_entries(ctx):
    ctx.assume("A1", "A4", "A6", "A7")
    from contracts.C01 import GroupSums
    NE, NN, NL = z3.Int("NE"), z3.Int("NN"), z3.Int("NLOOKUP")
    N_NODE_TYPE, N_P, N_EGO, N_NODE_TYPE_T, N_T, N_EGO_T = K.consts(
        ND, "NODE_TYPE", "P", "EXT_GRID_OCCURENCE", "NODE_TYPE_T", "T", "EXT_GRID_OCCURENCE_T")
    junction_cls = comp_class("junction_component", "Junction")
    for mode, val_col, type_col, cnt_col, typ, valid in (
            ("p", N_PINIT, N_NODE_TYPE, N_EGO, N_P, ("p", "pt")),
            ("t", N_TINIT, N_NODE_TYPE_T, N_EGO_T, N_T, ("t", "pt"))):
        gsum = GroupSums()

        def mk():
            del gsum.calls[:]
            net = K.NetObj({"_options": {"use_numba": True},
                            "_lookups": {"node_index": {"junction": K.sym_arr("junction_lookup", NL, "i")}}})
            return [net, K.sym_pit("node_pit", NN, NCN), K.sym_arr("junctions", NE, "i"),
                    K.sym_arr("types", NE, "i"), K.sym_arr("values", NE, "f"), junction_cls, mode], {}
        paths = T.run_paths(ctx, CT + ":set_fixed_node_entries", mk, contracts={IT + ":_sum_by_group": gsum})
        normal = [p for p in paths if p.exc is None]
        ctx.decided("%s/returns" % mode, "cover", len(normal) >= 1, witness=str([str(p.exc) for p in paths]))
        main = [p for p in normal if isinstance(p.result, Arr)]
        ctx.decided("%s/main-path" % mode, "cover", len(main) == 1, witness="%d" % len(main))
        if len(main) != 1:
            continue
        p = main[0]
        rec = gsum.calls[-1] if gsum.calls else None
        ctx.decided("%s/groups-by-junction" % mode, "cover", rec is not None and len(rec["gs"]) == 2, witness="no group sum")
        if rec is None:
            continue
        np0 = K.sym_pit("node_pit", NN, NCN)
        junc, types, vals = K.sym_arr("junctions", NE, "i"), K.sym_arr("types", NE, "i"), K.sym_arr("values", NE, "f")
        L = K.sym_arr("junction_lookup", NL, "i")
        e = z3.Int("e!elem")
        sel_ok = z3.Or(*[types.f(e) == V.str_code(s_) for s_ in valid])
        # arguments of the group sum: (junction, value, 1) of the elements with a fixing type
        idx, (v1, v2) = rec["idx"], rec["vals"]
        base = [NE >= 1, NN >= 1, e >= 0, e < NE, p.cond()] + list(p.facts)
        ctx.decided("%s/selection-is-compress" % mode, "ensures", isinstance(idx, Comp), witness=repr(idx))
        if isinstance(idx, Comp):
            ctx.ob("%s/selects-fixing-types" % mode, "ensures", base, B(idx.mask.f(e)) == sel_ok)
            ctx.ob("%s/groups/keys-values-counts" % mode, "ensures", base + [B(idx.mask.f(e))],
                   z3.And(K.eq_val(idx.f(e), junc.f(e)), K.eq_val(v1.f(e), vals.f(e)), K.eq_val(v2.f(e), 1)))
        # effect on the node pit at the node of an arbitrary key
        u, gV, gN = rec["u"], rec["gs"][0], rec["gs"][1]
        k, k2 = z3.Int("k!key"), z3.Int("k2!key")
        jk = u.f(k)
        q = L.f(jk)
        inj = z3.ForAll([k, k2], z3.Implies(z3.And(k >= 0, k < u.n, k2 >= 0, k2 < u.n, k != k2),
                                            L.f(u.f(k)) != L.f(u.f(k2))))
        rng = z3.ForAll([k], z3.Implies(z3.And(k >= 0, k < u.n), z3.And(L.f(u.f(k)) >= 0, L.f(u.f(k)) < NN)))
        kk = z3.Int("kk")
        qq = L.f(u.f(kk))
        req = [NE >= 1, NN >= 1, kk >= 0, kk < u.n, inj, rng, p.cond()] + list(p.facts)
        npf = p.args[0][1]
        old_v, old_c = np0.f(qq, val_col), np0.f(qq, cnt_col)
        ctx.ob("%s/value-is-running-mean" % mode, "ensures", req + [V.R(gN(u.f(kk))) + V.R(old_c) != 0],
               K.eq_val(npf.f(qq, val_col), (V.R(old_v) * V.R(old_c) + gV(u.f(kk))) / (gN(u.f(kk)) + V.R(old_c))))
        ctx.ob("%s/count-updated" % mode, "ensures", req, K.eq_val(npf.f(qq, cnt_col), V.R(old_c) + gN(u.f(kk))))
        ctx.ob("%s/node-type-fixed" % mode, "ensures", req, K.eq_val(npf.f(qq, type_col), typ))
        o = z3.Int("o!node")
        ctx.ob("%s/frame-other-nodes" % mode, "frame",
               [NE >= 1, NN >= 1, o >= 0, o < NN, inj, rng, p.cond(),
                z3.ForAll([k], z3.Implies(z3.And(k >= 0, k < u.n), L.f(u.f(k)) != o))] + list(p.facts),
               z3.And(K.eq_val(npf.f(o, val_col), np0.f(o, val_col)), K.eq_val(npf.f(o, type_col), np0.f(o, type_col))))
    # running-mean lemma: mean of c earlier values combined with n new ones of sum s
    S_, c, s, n = z3.Reals("S c s n")
    ctx.ob("lemma/running-mean", "lemma", [c > 0, n > 0], ((S_ / c) * c + s) / (n + c) == (S_ + s) / (c + n))
    ctx.ob("lemma/first-fixing-is-plain-mean", "lemma", [n > 0], (z3.Real("p0") * 0 + s) / (n + 0) == s / n)


@unit("C03", "lean_lemmas", engine="Lean")
def lean_lemmas(ctx):
    """spec-level lemmas (Lean 4 + Mathlib, lean/Lemmas.lean): identity / fixed-pressure rows are affine,
    so the prescribed value is exact after a full step (L1); the running-mean update of
    set_fixed_node_entries over successive calls is the mean of all fixed values at the node."""
    ctx.lean("L1/affine-row-exact-after-full-step", ["L1_affine_row_exact"])
    ctx.lean("mean/running-mean-over-successive-calls", ["running_mean", "running_mean_first"])


@unit("C03", "fixed_node_entries/counters_reset", functions=["pandapipes.component_models.junction_component:Junction.create_pit_node_entries"],
      engine="E3")
def counters_reset(ctx):
    """precondition of the running mean: the occurrence counters are 0 on every junction row after the junction
    writer, on every path (also when the pit is re-used between transient time steps)"""
    ctx.assume("A1", "A4", "A6", "A7")
    from contracts.C01 import junction_accumulators_reset
    junction_accumulators_reset(ctx, ["EXT_GRID_OCCURENCE", "EXT_GRID_OCCURENCE_T"])


# ---------------------------------------------------------------------------------------------
# which rows reach the fixed-value averaging: exactly the in-service rows of the pressure-fixing tables

EGM = CM + "ext_grid_component"


def _fixing_rows(ctx, label, key, cref, tname, cols, jcol, vcols):
    """the (junction, type, value) triples handed to set_fixed_node_entries are those of the rows whose
    active identifier (in_service) is True, and the slack-mass marking goes to the nodes returned for mode 'p'"""
    n = z3.Int("NFIX")
    calls = []

    def c_fixed(ev, args, kwargs):
        calls.append(args)
        cnt = fresh("nfixed", "int")
        uf = z3.Function("fixed_nodes!%d" % next(V._counter), z3.IntSort(), z3.IntSort())
        out = Arr(cnt, lambda j: uf(V.I(j)), "i")
        out.fixed_mode = args[6]
        return out

    def mk():
        del calls[:]
        net = K.NetObj({tname: K.sym_table(tname, n, cols)})
        return [cref, net, K.sym_pit("node_pit", z3.Int("NN"), NCN)], {}
    paths = T.run_paths(ctx, key, mk, contracts={CT + ":set_fixed_node_entries": c_fixed})
    ok = len(paths) == 1 and paths[0].exc is None and len(calls) >= 1
    ctx.decided("%s/single-path-reaches-the-averaging" % label, "cover", ok, witness=str([str(p.exc) for p in paths]))
    if not ok:
        return
    tbl = K.sym_table(tname, n, cols)
    r = z3.Int("r")
    modes = sorted(str(a[6]) for a in calls)
    ctx.decided("%s/modes" % label, "ensures", modes == sorted(vcols), witness="modes %s, expected %s" % (modes, sorted(vcols)))
    for a in calls:
        mode = str(a[6])
        junc, types, vals = a[2], a[3], a[4]
        comp = all(isinstance(x, Comp) for x in (junc, types, vals))
        ctx.decided("%s/%s/arguments-are-row-selections" % (label, mode), "ensures", comp,
                    witness="set_fixed_node_entries receives unfiltered columns: %r" % ([type(x).__name__ for x in (junc, types, vals)],))
        if not comp or mode not in vcols:
            continue
        base = [n >= 1, r >= 0, r < n] + list(paths[0].facts) + [paths[0].cond()]
        for nm, x in (("junctions", junc), ("types", types), ("values", vals)):
            ctx.ob("%s/%s/%s-selected-iff-in-service" % (label, mode, nm), "ensures", base,
                   B(x.mask.f(r)) == B(tbl.columns["in_service"].f(r)))
        ctx.ob("%s/%s/row-values" % (label, mode), "ensures", base + [B(tbl.columns["in_service"].f(r))],
               z3.And(K.eq_val(junc.f(r), tbl.columns[jcol].f(r)), K.eq_val(types.f(r), tbl.columns["type"].f(r)),
                      K.eq_val(vals.f(r), tbl.columns[vcols[mode]].f(r))))


@unit("C03", "fixing_rows/ext_grid", functions=[EGM + ":ExtGrid.create_pit_node_entries"], engine="E3")
def fixing_rows_ext_grid(ctx):
    ctx.assume("A1", "A4", "A6")
    cref = S.get_module(EGM).classes["ExtGrid"]
    _fixing_rows(ctx, "ext_grid", EGM + ":ExtGrid.create_pit_node_entries", cref, "ext_grid",
                 {"in_service": "b", "type": "i", "junction": "i", "p_bar": "f", "t_k": "f"}, "junction",
                 {"p": "p_bar", "t": "t_k"})


@unit("C03", "fixing_rows/circ_pump", functions=[CPA + ":CirculationPump.create_pit_node_entries"], engine="E3")
def fixing_rows_circ_pump(ctx):
    ctx.assume("A1", "A4", "A6")
    for mod, cname, tname in ((CPP, "CirculationPumpPressure", "circ_pump_pressure"), (CPM, "CirculationPumpMass", "circ_pump_mass")):
        cref = S.get_module(mod).classes[cname]
        _fixing_rows(ctx, cname, CPA + ":CirculationPump.create_pit_node_entries", cref, tname,
                     {"in_service": "b", "type": "i", "flow_junction": "i", "return_junction": "i", "p_flow_bar": "f",
                      "t_flow_k": "f"}, "flow_junction", {"p": "p_flow_bar"})


# ---------------------------------------------------------------------------------------------
# the component array handed to the adaption methods is the one aligned with the ACTIVE pit block

@unit("C03", "component_array", functions=[CT + ":get_component_array"], engine="E3")
def component_array(ctx):
    """get_component_array(net, name) returns the rows of the component array whose elements are in the active
    pit of the stage (order preserved) -- row k of the result belongs to row f + k of the active pit block; every
    call site in the component models asks for exactly that array (requires@callsite)."""
    ctx.assume("A4", "A6")
    NC, fa, ta, NA = z3.Int("NCOMP"), z3.Int("f_all"), z3.Int("t_all"), z3.Int("NACT")
    for mode in ("hydraulics", "heat_transfer"):
        def mk(_m=mode):
            net = K.NetObj({"_pit": {"components": {"pump": K.sym_pit("comp_array", NC, 8)}},
                            "_lookups": {"branch_from_to": {"pump": (fa, ta)},
                                         "branch_active_" + _m: K.sym_arr("active_" + _m, NA, "b")}})
            return [net, "pump"], {"mode": _m}
        paths = T.run_paths(ctx, CT + ":get_component_array", mk)
        ok = len(paths) == 1 and paths[0].exc is None and isinstance(paths[0].result, PitComp)
        ctx.decided("%s/returns-row-selection" % mode, "ensures", ok, witness=repr([getattr(p, "result", None) for p in paths]))
        if not ok:
            continue
        res = paths[0].result
        act = K.sym_arr("active_" + mode, NA, "b")
        k = z3.Int("k")
        ctx.ob("%s/selects-the-active-elements-of-the-block" % mode, "ensures",
               [fa >= 0, fa <= ta, ta <= NA, NC == ta - fa, k >= 0, k < NC] + list(paths[0].facts),
               B(res.mask.f(k)) == B(act.f(fa + k)))
    # call sites
    import os
    bad, sites = [], 0
    root = os.path.join(S.REPO, "src", "pandapipes", "component_models")
    for dp, _, files in os.walk(root):
        for fn_ in files:
            if not fn_.endswith(".py"):
                continue
            tree = ast.parse(open(os.path.join(dp, fn_)).read())
            for fdef in [x for x in ast.walk(tree) if isinstance(x, ast.FunctionDef)]:
                for c in [x for x in ast.walk(fdef) if isinstance(x, ast.Call) and isinstance(x.func, ast.Name)
                          and x.func.id == "get_component_array"]:
                    if fdef.name == "get_component_array":
                        continue
                    sites += 1
                    kw = {k_.arg: k_.value for k_ in c.keywords}
                    want_mode = "heat_transfer" if fdef.name.endswith("_thermal") else "hydraulics"
                    mode_ = kw["mode"].value if "mode" in kw and isinstance(kw["mode"], ast.Constant) else \
                        ("hydraulics" if "mode" not in kw else None)
                    # the table argument: anything but a string LITERAL is accepted here (how the name is computed is the
                    # caller's business; the alignment-aware callee contract used by the adaption units decides the rest)
                    name_ok = len(c.args) >= 2 and not isinstance(c.args[1], ast.Constant)
                    active_ok = "only_active" not in kw or (isinstance(kw["only_active"], ast.Constant) and kw["only_active"].value is True)
                    type_ok = "component_type" not in kw and len(c.args) <= 2
                    if not (name_ok and active_ok and type_ok and mode_ == want_mode):
                        bad.append("%s:%d %s(): %s" % (fn_, c.lineno, fdef.name, ast.unparse(c)))
    ctx.decided("callsites/found", "cover", sites >= 5, witness="%d call sites" % sites)
    ctx.decided("callsites/ask-for-the-active-array-of-their-own-table-and-stage", "requires@callsite", not bad,
                witness="; ".join(bad))


# ---------------------------------------------------------------------------------------------
# the set-points reach the internal arrays: component arrays and pit entries of the lift / control components

@unit("C03", "component_arrays", functions=[PCM + ":PressureControlComponent.create_component_array",
                                            PCM + ":PressureControlComponent.create_pit_branch_entries",
                                            CMP + ":Compressor.create_component_array", CMP + ":Compressor.create_pit_branch_entries",
                                            PMP + ":Pump.create_pit_branch_entries"], engine="E2")
def component_arrays(ctx):
    ctx.assume("A1", "A4", "A6")
    n = z3.Int("NCOMP")
    i = z3.Int("i!row")
    # component arrays: column <- table column, row by row
    for mod, cname, tname, cols, mapping in (
            (PCM, "PressureControlComponent", "press_control",
             {"controlled_junction": "i", "control_active": "b", "in_service": "b"},
             [("JUNCTS", "controlled_junction", "v"), ("CONTROLLED", "control_active", "b"), ("IN_SERVICE", "in_service", "b")]),
            (CMP, "Compressor", "compressor", {"pressure_ratio": "f"}, [("PRESSURE_RATIO", "pressure_ratio", "v")])):
        cref = S.get_module(mod).classes[cname]

        def mk(_c=cref, _t=tname, _cols=cols):
            return [_c, K.NetObj({_t: K.sym_table(_t, n, _cols)}), {}], {}
        paths = T.run_paths(ctx, mod + ":%s.create_component_array" % cname, mk)
        ok = len(paths) == 1 and paths[0].exc is None and tname in paths[0].args[0][2]
        ctx.decided("%s/array-created" % cname, "cover", ok, witness=str([str(p.exc) for p in paths]))
        if not ok:
            continue
        arr_ = paths[0].args[0][2].get(tname)
        tbl = K.sym_table(tname, n, cols)
        base = [n >= 1, i >= 0, i < n] + list(paths[0].facts)
        for cconst, col, kind in mapping:
            cc = class_const(cref, cconst)
            if kind == "b":
                ctx.ob("%s/array/%s-is-%s" % (cname, cconst, col), "ensures", base,
                       (V.R(arr_.f(i, cc)) != 0) == B(tbl.columns[col].f(i)))
            else:
                ctx.ob("%s/array/%s-is-%s" % (cname, cconst, col), "ensures", base, K.eq_val(arr_.f(i, cc), tbl.columns[col].f(i)))
    # pit entries
    f, t, NB_ = z3.Int("f_blk"), z3.Int("t_blk"), z3.Int("NB")
    k = z3.Int("k")
    req = [f >= 0, f <= t, t <= NB_, k >= f, k < t]
    B_LC_, B_BT, B_DIR = K.const(BR, "LOSS_COEFFICIENT"), K.const(BR, "BRANCH_TYPE"), K.const(BR, "DIRECTED")
    PCB = K.const(BR, "PC")
    for mod, cname, tname, cols in ((PCM, "PressureControlComponent", "press_control", {"control_active": "b", "loss_coefficient": "f"}),
                                    (CMP, "Compressor", "compressor", {}), (PMP, "Pump", "pump", {})):
        cref = S.get_module(mod).classes[cname]

        def mk(_c=cref, _t=tname, _cols=cols):
            return [_c, K.NetObj({_t: K.sym_table(_t, t - f, _cols)}), K.sym_pit("branch_pit", NB_, NCB, int_cols=INT_B)], {}
        paths = T.run_paths(ctx, mod + ":%s.create_pit_branch_entries" % cname, mk, contracts={
            BWO + ":BranchWOInternalsComponent.create_pit_branch_entries": lambda ev, a, kw: PitSlice(a[2], f, t)})
        ok = len(paths) == 1 and paths[0].exc is None
        ctx.decided("%s/entries/single-path" % cname, "cover", ok, witness=str([str(p.exc) for p in paths]))
        if not ok:
            continue
        bp = paths[0].args[0][2]
        bp0 = K.sym_pit("branch_pit", NB_, NCB, int_cols=INT_B)
        tbl = K.sym_table(tname, t - f, cols)
        a = req + list(paths[0].facts)
        if cname == "PressureControlComponent":
            ctx.ob("%s/entries/active-controller-row-is-a-pressure-control-row" % cname, "ensures", a,
                   K.eq_val(bp.f(k, B_BT), ite(tbl.columns["control_active"].f(k - f), PCB, bp0.f(k, B_BT))))
            ctx.ob("%s/entries/loss-coefficient" % cname, "ensures", a, K.eq_val(bp.f(k, B_LC_), tbl.columns["loss_coefficient"].f(k - f)))
            ctx.ob("%s/entries/directed" % cname, "ensures", a, K.eq_val(bp.f(k, B_DIR), 1))
        else:
            ctx.ob("%s/entries/no-lumped-loss" % cname, "ensures", a, K.eq_val(bp.f(k, B_LC_), 0))



@unit("C03", "bounded/prescribed_values", functions=["pandapipes.pipeflow:pipeflow"], engine="bounded")
def prescribed_values_bounded(ctx):
    """property-level bounded stand-in (and the fallback replay of this property's refuted obligations)"""
    from pvc.harness import venv_run
    inp = {"what": "prescribed_values"}
    res = venv_run("bounded.py", inp, timeout=3000)
    ctx.bounded("prescribed-values-are-met-by-the-reported-results", res["ok"],
                "8 calculations (use_numba False/True): water net with two ext grids on one junction + one out of service (mean), active "
                "and inactive flow controller, pressure controller, scaled / out-of-service loads, non-positional labels; circulation "
                "pump loops (pressure, mass) with an out-of-service pump of other set-points on the same flow junction, sequential mode; "
                "gas net with two pumps of different type (first out of service), compressor, different junction temperatures",
                res["cases"], witness=res["witness"], replay={"handler": "bounded", "input": inp} if not res["ok"] else None)
