#!/bin/sh
# offline setup: tool check, output directories, Lean lemmas (if present) compiled once
set -e
cd "$(dirname "$0")"
here=$(pwd)
mkdir -p out evidence out/numba_cache
python3-vt -c "import z3; assert z3.get_version_string().startswith('5.'), z3.get_version_string()"
/usr/bin/cvc5 --version | head -1
/venv/bin/python -c "import pandapipes, numpy; print('pandapipes', pandapipes.__version__)" 2>/dev/null | tail -1
if [ -f lean/Lemmas.lean ]; then
  h=$(sha256sum lean/Lemmas.lean | cut -d' ' -f1)
  if [ ! -f out/lean.stamp ] || [ "$(cat out/lean.stamp)" != "$h" ]; then
    (cd /opt/veriftools/mathlib4 && lake env lean "$here/lean/Lemmas.lean") && echo "$h" > out/lean.stamp
  fi
fi
/venv/bin/python -W ignore replay/validate_model.py
echo setup-ok
