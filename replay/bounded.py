"""Bounded stand-ins (run under the repository's interpreter).  JSON in (stdin) -> one JSON line out.
Every result states its scope; none of this is counted as proved."""
import itertools
import json
import os
import sys

import numpy as np

sys.path.insert(0, os.path.dirname(os.path.abspath(__file__)))


def pump_array(inp):
    import pandapipes
    from pandapipes.std_types.std_type_class import PumpStdType
    net = pandapipes.create_empty_network(fluid="water")
    pumps = [net.std_types["pump"][k] for k in ("P1", "P2", "P3")]
    pumps.append(PumpStdType.from_list("synthetic", np.array([0., 10., 20., 30.]), np.array([2., 1.5, 0.5, -1.0]), 2))
    grid = [-2e-3, -1e-9, 0.0, 1e-3, 5e-3, 5e-2]
    cases, witness = 0, None
    for pump in pumps:
        for n in range(0, 4):
            for vs in itertools.product(grid, repeat=n):
                cases += 1
                exp = [pump.get_pressure(float(v)) for v in vs]
                try:
                    got = pump.get_pressure(np.array(vs, dtype=float))
                    got = np.asarray(got, dtype=float)
                    ok = got.shape == (n,) and np.allclose(got, np.array(exp, dtype=float), rtol=1e-12, atol=0) \
                        and bool(np.all(got >= 0))
                    obs = got.tolist()
                except Exception as e:  # noqa
                    ok, obs = False, "%s: %s" % (type(e).__name__, str(e)[:120])
                if not ok and witness is None:
                    witness = {"pump": pump.name, "vdot": list(vs), "scalar": [float(x) for x in exp], "array": obs}
    return {"ok": witness is None, "cases": cases, "witness": witness}


def main():
    inp = json.load(sys.stdin)
    fn = globals()[inp["what"]]
    print(json.dumps(fn(inp), default=str))


if __name__ == "__main__":
    main()
