"""Bounded stand-ins (run under the repository's interpreter).  JSON in (stdin) -> one JSON line out.
Every result states its scope; none of this is counted as proved."""
import itertools
import json
import os
import sys

import numpy as np

sys.path.insert(0, os.path.dirname(os.path.abspath(__file__)))


def pump_array(inp):
    import pandapipes
    from pandapipes.std_types.std_type_class import PumpStdType
    net = pandapipes.create_empty_network(fluid="water")
    pumps = [net.std_types["pump"][k] for k in ("P1", "P2", "P3")]
    pumps.append(PumpStdType.from_list("synthetic", np.array([0., 10., 20., 30.]), np.array([2., 1.5, 0.5, -1.0]), 2))
    grid = [-2e-3, -1e-9, 0.0, 1e-3, 5e-3, 5e-2]
    cases, witness = 0, None
    for pump in pumps:
        for n in range(0, 4):
            for vs in itertools.product(grid, repeat=n):
                cases += 1
                exp = [pump.get_pressure(float(v)) for v in vs]
                try:
                    got = pump.get_pressure(np.array(vs, dtype=float))
                    got = np.asarray(got, dtype=float)
                    ok = got.shape == (n,) and np.allclose(got, np.array(exp, dtype=float), rtol=1e-12, atol=0) \
                        and bool(np.all(got >= 0))
                    obs = got.tolist()
                except Exception as e:  # noqa
                    ok, obs = False, "%s: %s" % (type(e).__name__, str(e)[:120])
                if not ok and witness is None:
                    witness = {"pump": pump.name, "vdot": list(vs), "scalar": [float(x) for x in exp], "array": obs}
    return {"ok": witness is None, "cases": cases, "witness": witness}


def sum_by_group(inp):
    """both implementations of _sum_by_group against the group-sum specification"""
    from pandapipes.pf.internals_toolbox import _sum_by_group
    labels = [0, 1, 2, 7, 99999, 100000, 300000]
    cases, witness = 0, None
    for n in range(0, int(inp.get("max_len", 5)) + 1):
        for idx in itertools.product(labels, repeat=n):
            spec = {}
            for k, l in enumerate(idx):
                a, b = spec.get(l, (0.0, 0.0))
                spec[l] = (a + 2.0 ** k, b + 1.0)
            keys = sorted(spec)
            for use_numba in (False, True):
                cases += 1
                ind = np.array(idx, dtype=np.int64)
                v1 = np.array([2.0 ** k for k in range(n)], dtype=np.float64)
                v2 = np.ones(n, dtype=np.float64)
                try:
                    res = _sum_by_group(use_numba, ind, v1, v2)
                    ok = (list(np.asarray(res[0]).tolist()) == keys
                          and np.asarray(res[1]).tolist() == [spec[k][0] for k in keys]
                          and np.asarray(res[2]).tolist() == [spec[k][1] for k in keys]
                          and ind.tolist() == list(idx))
                    obs = [np.asarray(r).tolist() for r in res]
                except Exception as e:  # noqa
                    ok, obs = False, "%s: %s" % (type(e).__name__, str(e)[:120])
                if not ok and witness is None:
                    witness = {"indices": list(idx), "use_numba": use_numba, "observed": obs,
                               "expected": [keys, [spec[k][0] for k in keys], [spec[k][1] for k in keys]]}
    return {"ok": witness is None, "cases": cases, "witness": witness}


def _relabel_net(jl, pl, porder, jorder, use_numba, mode="sequential"):
    import pandapipes as pp
    net = pp.create_empty_network(fluid="water")
    # physical system: junctions A,B,C,D; pipes A-B (1 section), B-C (2), C-D (3); valve B-D; sinks at C, D
    heights = {0: 0.0, 1: 2.0, 2: 5.0, 3: 1.0}
    for j in jorder:
        pp.create_junction(net, pn_bar=5, tfluid_k=350, height_m=heights[j], index=jl[j])
    pipes = {0: (0, 1, 0.4, 1, 100.), 1: (1, 2, 0.9, 2, 80.), 2: (2, 3, 1.3, 3, 65.)}
    for k in porder:
        a, b, le, sec, d = pipes[k]
        pp.create_pipe_from_parameters(net, jl[a], jl[b], le, d, sections=sec, u_w_per_m2k=15 + 5 * k, text_k=283,
                                       index=pl[k])
    pp.create_valve(net, jl[1], jl[3], "ju", 50., opened=True, loss_coefficient=1.0)
    pp.create_valve(net, jl[2], pl[2], "pi", 60., opened=True, loss_coefficient=0.5)
    pp.create_ext_grid(net, jl[0], p_bar=5, t_k=350)
    pp.create_sink(net, jl[2], 0.6)
    pp.create_sink(net, jl[3], 0.3)
    pp.pipeflow(net, mode=mode, use_numba=use_numba)
    return net


def relabel_pipeline(inp):
    """whole calculation under relabelling / row permutation of junctions and multi-section pipes"""
    jls = [[0, 1, 2, 3], [7, 3, 11, 5], [100001, 4, 250000, 17]]
    pls = [[0, 1, 2], [5, 2, 9], [200000, 3, 1]]
    jorders = [[0, 1, 2, 3], [2, 0, 3, 1]]
    ref = None
    cases, witness = 0, None
    for use_numba in (False, True):
        for jl in jls:
            for pl in pls:
                for porder in itertools.permutations(range(3)):
                    for jorder in jorders:
                        cases += 1
                        try:
                            net = _relabel_net(jl, pl, list(porder), jorder, use_numba)
                            got = {"junction": np.array([net.res_junction.loc[jl[j]].values for j in range(4)], dtype=float),
                                   "pipe": np.array([net.res_pipe.loc[pl[k]].values for k in range(3)], dtype=float),
                                   "valve": net.res_valve.values.astype(float), "sink": net.res_sink.values.astype(float),
                                   "ext_grid": net.res_ext_grid.values.astype(float)}
                        except Exception as e:  # noqa
                            got = "%s: %s" % (type(e).__name__, str(e)[:160])
                        if ref is None:
                            ref = got
                            if isinstance(ref, str):
                                return {"ok": False, "cases": cases, "witness": {"error": ref}}
                            continue
                        bad = None
                        if isinstance(got, str):
                            bad = got
                        else:
                            for tname in ref:
                                if got[tname].shape != ref[tname].shape or not np.allclose(
                                        got[tname], ref[tname], rtol=1e-7, atol=1e-9, equal_nan=True):
                                    bad = "res_%s differs: %s vs %s" % (tname, got[tname].tolist(), ref[tname].tolist())
                                    break
                        if bad and witness is None:
                            witness = {"junction_labels": jl, "pipe_labels": pl, "pipe_creation_order": list(porder),
                                       "junction_creation_order": jorder, "use_numba": use_numba, "what": bad[:600]}
    return {"ok": witness is None, "cases": cases, "witness": witness}




def _snapshot(net):
    import pandas as pd
    out = {}
    for k in sorted(net.keys()):
        v = net[k]
        if isinstance(v, pd.DataFrame):
            out[k] = (tuple(v.columns), tuple(str(d) for d in v.dtypes), v.index.tolist(), v.astype(object).where(v.notnull(), None).values.tolist())
    out["__std_types__"] = {t: sorted(net.std_types[t]) for t in net.std_types} if "std_types" in net else None
    out["__components__"] = [c.__name__ for c in net.component_list]
    return out


def _base_net(pp):
    net = pp.create_empty_network(fluid="water")
    pp.create_junctions(net, 4, 5., 300.)
    pp.create_pipe_from_parameters(net, 0, 1, 0.1, 100.)
    pp.create_pipe_from_parameters(net, 1, 2, 0.1, 100.)
    pp.create_sink(net, 1, 0.1)
    return net


def create_functions(inp):
    """every create function natively: (a) an invalid junction / pipe / std-type reference or a duplicate index at every
    such argument position raises and leaves the net unchanged; (b) bulk == one by one; (c) std type == its parameters"""
    import ast
    import copy
    import pandapipes as pp
    import pandapipes.create as cr
    from handlers import _valid_args
    fns = sorted(n.name for n in ast.parse(open(cr.__file__).read()).body if isinstance(n, ast.FunctionDef)
                 and n.name.startswith("create_") and n.name not in ("create_empty_network", "create_fluid_from_lib"))
    res = {k: {"ok": True, "cases": 0, "witness": None} for k in (
        "valid-call-accepted", "invalid-reference-rejected-net-unchanged", "duplicate-index-rejected-net-unchanged",
        "bulk-equals-one-by-one", "bulk-equals-one-by-one/omitted-name", "std-type-equals-its-parameters",
        "std-type-equals-its-parameters/heat-transfer-coefficient")}

    def note(k, w):
        res[k]["ok"] = False
        if res[k]["witness"] is None:
            res[k]["witness"] = w

    def extra(fn, args):
        if fn in ("create_ext_grid", "create_ext_grids"):
            args.update(p_bar=5., t_k=300.)
        if fn == "create_valve":
            args.update(element=2, et="ju")
        if fn == "create_valves":
            args.update(elements=[2, 3], et="ju")
        if fn in ("create_heat_consumer", "create_heat_consumers"):
            args.update(qext_w=100., controlled_mdot_kg_per_s=0.1)
        return args
    for fn in fns:
        base = _base_net(pp)
        args = extra(fn, _valid_args(pp, base, fn))
        net = copy.deepcopy(base)
        res["valid-call-accepted"]["cases"] += 1
        try:
            getattr(pp, fn)(net, **args)
        except Exception as e:  # noqa
            note("valid-call-accepted", {"function": fn, "what": "%s: %s" % (type(e).__name__, str(e)[:150]), "args": args})
            continue
        bad_variants = []
        for k, v in args.items():
            if "junction" in k and k != "nr_junctions":
                bad_variants.append((k, [98, 99] if isinstance(v, list) else 99))
            if k == "std_type":
                bad_variants.append((k, "no_such_type"))
        if fn in ("create_valve", "create_valves"):
            bad_variants.append(("pi", None))
        for k, badv in bad_variants:
            a2 = dict(args)
            if k == "pi":
                a2.update(et="pi", **({"element": 77} if fn == "create_valve" else {"elements": [77, 78]}))
            else:
                a2[k] = badv
            net = copy.deepcopy(base)
            before = _snapshot(net)
            res["invalid-reference-rejected-net-unchanged"]["cases"] += 1
            try:
                getattr(pp, fn)(net, **a2)
                note("invalid-reference-rejected-net-unchanged", {"function": fn, "what": "invalid %s accepted" % k, "args": a2})
            except Exception as e:  # noqa
                after = _snapshot(net)
                if after != before:
                    diff = [t for t in before if after.get(t) != before[t]] + [t for t in after if t not in before]
                    note("invalid-reference-rejected-net-unchanged",
                         {"function": fn, "what": "rejected call (%s, %s) changed the net: %s" % (k, type(e).__name__, diff), "args": a2})
        net = copy.deepcopy(base)
        idx = getattr(pp, fn)(net, **args)
        before = _snapshot(net)
        res["duplicate-index-rejected-net-unchanged"]["cases"] += 1
        try:
            getattr(pp, fn)(net, index=idx, **args)
            note("duplicate-index-rejected-net-unchanged", {"function": fn, "what": "duplicate index accepted", "args": args})
        except Exception as e:  # noqa
            if _snapshot(net) != before:
                note("duplicate-index-rejected-net-unchanged", {"function": fn, "what": "rejected duplicate index changed the net"})
    pairs = [(f, (f.replace("_from_parameters", "s_from_parameters") if f.endswith("_from_parameters") else f + "s")) for f in fns]
    pairs = [(a, b) for a, b in pairs if b in fns]
    for single, bulk in pairs:
        for populated in (False, True):
            base = _base_net(pp)
            sa, ba = extra(single, _valid_args(pp, base, single)), extra(bulk, _valid_args(pp, base, bulk))
            if populated:
                a0 = dict(sa)
                getattr(pp, single)(base, **a0)
            n1, n2 = copy.deepcopy(base), copy.deepcopy(base)
            res["bulk-equals-one-by-one"]["cases"] += 1
            try:
                if single == "create_junction":
                    for _ in range(2):
                        getattr(pp, single)(n1, **sa)
                else:
                    listy = [k for k, v in ba.items() if isinstance(v, list)]
                    for r in range(2):
                        a1 = dict(sa)
                        for k in listy:
                            ks = k[:-1] if k.endswith("s") and k[:-1] in a1 else k
                            a1[ks] = ba[k][r]
                        getattr(pp, single)(n1, **a1)
                getattr(pp, bulk)(n2, **ba)
                s1, s2 = _snapshot(n1), _snapshot(n2)
                for t in s1:
                    if s1[t] == s2.get(t):
                        continue
                    if t.startswith("__") or s1[t][:3] != s2[t][:3]:
                        note("bulk-equals-one-by-one", {"function": bulk, "table": t, "populated": populated,
                                                        "single": str(s1[t][:3])[:400], "bulk": str(s2.get(t, [None] * 3)[:3])[:400]})
                        continue
                    cols = s1[t][0]
                    for r1, r2 in zip(s1[t][3], s2[t][3]):
                        for c, x, y in zip(cols, r1, r2):
                            if x != y:
                                key = "bulk-equals-one-by-one/omitted-name" if c == "name" else "bulk-equals-one-by-one"
                                note(key, {"function": bulk, "table": t, "column": c, "single": repr(x), "bulk": repr(y),
                                           "table_populated_before": populated})
            except Exception as e:  # noqa
                note("bulk-equals-one-by-one", {"function": bulk, "what": "%s: %s" % (type(e).__name__, str(e)[:200])})
    res["bulk-equals-one-by-one/omitted-name"]["cases"] = res["bulk-equals-one-by-one"]["cases"]
    base = _base_net(pp)
    for st in sorted(base.std_types["pipe"]):
        prm = base.std_types["pipe"][st]
        n1, n2 = copy.deepcopy(base), copy.deepcopy(base)
        res["std-type-equals-its-parameters"]["cases"] += 1
        res["std-type-equals-its-parameters/heat-transfer-coefficient"]["cases"] += 1
        pp.create_pipe(n1, 2, 3, st, 0.3)
        kw = {}
        has_u = False
        if "u_w_per_m2k" in prm and prm["u_w_per_m2k"] == prm["u_w_per_m2k"]:
            kw["u_w_per_m2k"], has_u = prm["u_w_per_m2k"], True
        elif "u_w_per_mk" in prm and prm["u_w_per_mk"] == prm["u_w_per_mk"]:
            kw["u_w_per_m2k"], has_u = prm["u_w_per_mk"] / (prm["outer_diameter_mm"] * np.pi) * 1000., True
        pp.create_pipe_from_parameters(n2, 2, 3, 0.3, prm["inner_diameter_mm"], outer_diameter_mm=prm.get("outer_diameter_mm"),
                                       k_mm=prm["k_mm"], **kw)
        r1 = n1.pipe.drop(columns=["std_type"]).iloc[-1]
        r2 = n2.pipe.drop(columns=["std_type"]).iloc[-1]
        for c, a, b in zip(r1.index, r1.values, r2.values):
            same = (a == b) or (a != a and b != b) or (isinstance(a, float) and isinstance(b, float) and abs(a - b) < 1e-12)
            if same:
                continue
            key = "std-type-equals-its-parameters"
            if c == "u_w_per_m2k" and not has_u:
                key = "std-type-equals-its-parameters/heat-transfer-coefficient"
            note(key, {"std_type": st, "column": c, "from_std_type": repr(a), "from_parameters": repr(b)})
    # explicit values -- also 0 -- are values: they reach the row (single = bulk) and never change the std-type library
    key = "explicit-values-incl-zero-reach-the-row-and-leave-the-library-alone"
    res[key] = {"ok": True, "cases": 0, "witness": None}
    for st in sorted(base.std_types["pipe"])[:4]:
        for kname, kval in (("k_mm", 0.0), ("k_mm", 0.33), ("u_w_per_m2k", 0.0), ("u_w_per_m2k", 2.5)):
            res[key]["cases"] += 1
            n1, n2 = copy.deepcopy(base), copy.deepcopy(base)
            lib0 = copy.deepcopy(dict(n1.std_types["pipe"][st]))
            try:
                i1 = pp.create_pipe(n1, 2, 3, st, 0.3, **{kname: kval})
                i2 = pp.create_pipes(n2, [2], [3], st, 0.3, **{kname: kval})[0]
                i3 = pp.create_pipe(n1, 2, 3, st, 0.3)
                ref = copy.deepcopy(base)
                i4 = pp.create_pipe(ref, 2, 3, st, 0.3)
                bad = None
                if float(n1.pipe.at[i1, kname]) != kval:
                    bad = "create_pipe(%s=%r) stored %r" % (kname, kval, n1.pipe.at[i1, kname])
                elif float(n2.pipe.at[i2, kname]) != kval:
                    bad = "create_pipes(%s=%r) stored %r" % (kname, kval, n2.pipe.at[i2, kname])
                elif dict(n1.std_types["pipe"][st]) != lib0 and not all(
                        (a == b) or (a != a and b != b) for a, b in zip(dict(n1.std_types["pipe"][st]).values(), lib0.values())):
                    bad = "std-type library entry changed: %r -> %r" % (lib0, dict(n1.std_types["pipe"][st]))
                else:
                    for c in n1.pipe.columns:
                        a, b = n1.pipe.at[i3, c], ref.pipe.at[i4, c]
                        if not ((a == b) or (a != a and b != b)):
                            bad = "a second pipe of type %s after an override differs in %s: %r vs %r" % (st, c, a, b)
                            break
            except Exception as e:  # noqa
                bad = "%s: %s" % (type(e).__name__, str(e)[:160])
            if bad:
                note(key, {"std_type": st, "override": {kname: kval}, "observed": bad})
    # bulk geodata: one shared polyline (any number of points) or one polyline per pipe reaches the geodata table unchanged
    gkey = "bulk-geodata-reaches-the-table"
    res[gkey] = {"ok": True, "cases": 0, "witness": None}
    for fn_, kw_ in (("create_pipes_from_parameters", dict(length_km=0.3, inner_diameter_mm=100.)), ("create_pipes", dict(std_type=sorted(base.std_types["pipe"])[0], length_km=0.3))):
        for npts in (2, 3, 4):
            for shared in (True, False):
                res[gkey]["cases"] += 1
                n1 = copy.deepcopy(base)
                line = [(float(k_), float(2 * k_)) for k_ in range(npts)]
                geo = line if shared else [line, [(9., 9.)] + line[1:]]
                want_ = [line, line] if shared else geo
                before = copy.deepcopy(n1)
                try:
                    idx = getattr(pp, fn_)(n1, [2, 1], [3, 2], geodata=geo, **kw_)
                    got = [[tuple(map(float, c)) for c in n1.pipe_geodata.at[i_, "coords"]] for i_ in idx]
                    bad = None if got == [[tuple(c) for c in w_] for w_ in want_] else "stored coords %r, expected %r" % (got, want_)
                except Exception as e:  # noqa
                    bad = "%s: %s" % (type(e).__name__, str(e)[:120])
                    if len(n1.pipe) != len(before.pipe):
                        bad += " (raised after %d pipe rows were written)" % (len(n1.pipe) - len(before.pipe))
                if bad:
                    note(gkey, {"function": fn_, "points": npts, "one_shared_polyline": shared, "observed": bad})
    for p_bar, t_k, want in ((0.0, 300., "pt"), (0.0, None, "p"), (None, 0.0, "t"), (5., 300., "pt"), (float("nan"), 300., "t")):
        res[key]["cases"] += 1
        n1, n2 = copy.deepcopy(base), copy.deepcopy(base)
        try:
            i1 = pp.create_ext_grid(n1, 1, p_bar=p_bar, t_k=t_k)
            got = n1.ext_grid.at[i1, "type"]
            bad = None if got == want else "create_ext_grid(p_bar=%r, t_k=%r) stored type %r, expected %r" % (p_bar, t_k, got, want)
        except Exception as e:  # noqa
            bad = "create_ext_grid(p_bar=%r, t_k=%r): %s: %s" % (p_bar, t_k, type(e).__name__, str(e)[:120])
        if bad:
            note(key, {"observed": bad})
    return {"checks": res}


def _integrity(net):
    """references to missing junctions / pipes"""
    bad = []
    from pandapipes.toolbox import element_junction_tuples
    for t, c in element_junction_tuples(net=net):
        if t not in net or not len(net[t]):
            continue
        col = net[t][c]
        if t == "valve" and c == "element":
            pi = net[t]["et"] == "pi"
            miss = col[pi][~col[pi].isin(net.pipe.index)]
            if len(miss):
                bad.append((t, c, "pipe", miss.tolist()))
            col = col[~pi]
        miss = col[~col.isin(net.junction.index)]
        if len(miss):
            bad.append((t, c, "junction", miss.tolist()))
    return bad


def _rows(net, skip_cols=()):
    out = {}
    import pandas as pd
    for k in net.keys():
        v = net[k]
        if isinstance(v, pd.DataFrame) and not k.startswith("res_") and not k.startswith("_") and k != "controller":
            for idx, r in v.iterrows():
                out[(k, idx)] = tuple((c, None if x != x else x) for c, x in r.items())
    return out


def toolbox_ops(inp):
    import copy
    import pandapipes as pp
    from handlers import _full_net
    res = {k: {"ok": True, "cases": 0, "witness": None} for k in (
        "reindex-junctions-results-unchanged", "reindex-pipes-results-unchanged", "continuous-index-results-unchanged",
        "drop-keeps-integrity-and-other-elements", "fuse-keeps-integrity-and-other-elements", "subnet-integrity-and-results")}

    def note(k, w):
        res[k]["ok"] = False
        if res[k]["witness"] is None:
            res[k]["witness"] = w
    labelings = [([0, 1, 2, 3, 4, 5, 6, 7], [10, 11, 12, 13, 14]), ([0, 1, 2, 3, 4, 5, 6, 7], [0, 1, 2, 3, 4]),
                 ([5, 3, 9, 1, 12, 7, 2, 30], [3, 1, 7, 9, 2])]

    def results(net):
        # an exception of the code under test is an outcome to be compared, not a failure of this stand-in
        try:
            pp.pipeflow(net, mode="sequential")
        except Exception as e:  # noqa
            return {"error": "%s: %s" % (type(e).__name__, str(e)[:120])}
        return {t: net["res_" + t].sort_index().values.astype(float) for t in ("junction", "pipe", "valve", "sink", "press_control",
                                                                               "heat_exchanger", "ext_grid")}

    def same(a, b):
        if "error" in a or "error" in b:
            return False
        return all(a[t].shape == b[t].shape and np.allclose(a[t], b[t], rtol=1e-7, atol=1e-9, equal_nan=True) for t in a)
    for jl, pl in labelings:
        base = _full_net(pp, jl, pl)
        ref = results(copy.deepcopy(base))
        # relabelling: order-preserving maps so that sort_index() keeps corresponding rows aligned
        for name, lk in (("shift", {j: j + 100 for j in jl}), ("onto-pipe-labels", {j: 2 * j + 1 for j in jl}),
                         ("partial", {jl[2]: max(jl) + 1000})):
            net = copy.deepcopy(base)
            res["reindex-junctions-results-unchanged"]["cases"] += 1
            try:
                pp.reindex_junctions(net, dict(lk))
                bad = _integrity(net)
                order_preserving = name != "partial"
                if bad or (order_preserving and not same(ref, results(net))):
                    note("reindex-junctions-results-unchanged", {"labels": [jl, pl], "lookup": name, "dangling": bad})
                if not order_preserving:
                    results(net)
            except Exception as e:  # noqa
                note("reindex-junctions-results-unchanged", {"labels": [jl, pl], "lookup": name, "error": "%s: %s" % (type(e).__name__, str(e)[:120])})
        for name, lk in (("shift", {p: p + 50 for p in pl}), ("onto-junction-labels", {p: 2 * p + 1 for p in pl})):
            net = copy.deepcopy(base)
            res["reindex-pipes-results-unchanged"]["cases"] += 1
            try:
                pp.reindex_pipes(net, dict(lk))
                bad = _integrity(net)
                if bad or not same(ref, results(net)):
                    note("reindex-pipes-results-unchanged", {"labels": [jl, pl], "lookup": name, "dangling": bad})
            except Exception as e:  # noqa
                note("reindex-pipes-results-unchanged", {"labels": [jl, pl], "lookup": name, "error": "%s: %s" % (type(e).__name__, str(e)[:120])})
        net = copy.deepcopy(base)
        res["continuous-index-results-unchanged"]["cases"] += 1
        try:
            pp.create_continuous_elements_index(net)
            bad = _integrity(net)
            r = results(net)
            # sorted labels keep the relative order, so sort_index() alignment is preserved
            if bad or not same(ref, r):
                note("continuous-index-results-unchanged", {"labels": [jl, pl], "dangling": bad})
        except Exception as e:  # noqa
            note("continuous-index-results-unchanged", {"labels": [jl, pl], "error": "%s: %s" % (type(e).__name__, str(e)[:120])})
        # drops
        for kind, items in (("junction", jl), ("pipe", pl), ("at", jl)):
            for x in items:
                net = copy.deepcopy(base)
                before = _rows(net)
                res["drop-keeps-integrity-and-other-elements"]["cases"] += 1
                try:
                    if kind == "junction":
                        pp.drop_junctions(net, [x])
                    elif kind == "pipe":
                        pp.drop_pipes(net, [x])
                    else:
                        pp.drop_elements_at_junctions(net, [x])
                    bad = _integrity(net) if kind != "at" else []
                    after = _rows(net)
                    changed = [k for k in after if before.get(k) != after[k]]
                    # a surviving row is unchanged; a removed row referenced the dropped item (directly or through its pipe)
                    wrongly = []
                    for k in before:
                        if k in after:
                            continue
                        d = dict(before[k])
                        refs_j = [d[c] for c in d if "junction" in c] + ([d["element"]] if k[0] == "valve" and d.get("et") == "ju" else [])
                        refs_p = [d["element"]] if k[0] == "valve" and d.get("et") == "pi" else []
                        dropped_pipes = [q for (t, q) in before if t == "pipe" and ("pipe", q) not in after]
                        okrow = (kind in ("junction", "at") and (x in refs_j or (k[0] == "junction" and k[1] == x and kind == "junction")
                                                                 or any(q in refs_p for q in dropped_pipes)
                                                                 or (k[0] == "junction_geodata" and k[1] == x))) or \
                                (kind == "pipe" and ((k[0] in ("pipe", "pipe_geodata") and k[1] == x) or x in refs_p))
                        if not okrow:
                            wrongly.append(k)
                    if bad or changed or wrongly:
                        note("drop-keeps-integrity-and-other-elements", {"labels": [jl, pl], "drop": [kind, x], "dangling": bad,
                                                                         "changed_rows": str(changed)[:200], "wrongly_removed": str(wrongly)[:200]})
                except Exception as e:  # noqa
                    note("drop-keeps-integrity-and-other-elements", {"labels": [jl, pl], "drop": [kind, x],
                                                                     "error": "%s: %s" % (type(e).__name__, str(e)[:120])})
        # fuse
        for a, b in ((0, 1), (2, 3), (4, 1), (6, 7)):
            net = copy.deepcopy(base)
            before = _rows(net)
            res["fuse-keeps-integrity-and-other-elements"]["cases"] += 1
            try:
                pp.fuse_junctions(net, jl[a], [jl[b]])
                bad = _integrity(net)
                after = _rows(net)
                wrong = []
                for k in before:
                    if k[0] in ("junction", "junction_geodata") and k[1] == jl[b]:
                        continue
                    if k not in after:
                        wrong.append(("removed", k))
                        continue
                    d0, d1 = dict(before[k]), dict(after[k])
                    for c in d0:
                        isref = ("junction" in c) or (k[0] == "valve" and c == "element" and d0.get("et") == "ju")
                        exp = jl[a] if (isref and d0[c] == jl[b]) else d0[c]
                        if d1[c] != exp:
                            wrong.append((k, c, d0[c], d1[c]))
                if bad or wrong:
                    note("fuse-keeps-integrity-and-other-elements", {"labels": [jl, pl], "fuse": [jl[a], jl[b]], "dangling": bad,
                                                                     "wrong": str(wrong)[:300]})
            except Exception as e:  # noqa
                note("fuse-keeps-integrity-and-other-elements", {"labels": [jl, pl], "fuse": [jl[a], jl[b]],
                                                                 "error": "%s: %s" % (type(e).__name__, str(e)[:120])})
        # subnets
        for sel in (list(jl), [jl[k] for k in (0, 1, 2, 3)], [jl[k] for k in (0, 1, 4, 5, 6, 7)]):
            res["subnet-integrity-and-results"]["cases"] += 1
            try:
                sub = pp.select_subnet(copy.deepcopy(base), sel)
                bad = _integrity(sub)
                if bad:
                    note("subnet-integrity-and-results", {"labels": [jl, pl], "junctions": sel, "dangling": bad})
                if len(sel) == len(jl) and not same(ref, results(sub)):
                    note("subnet-integrity-and-results", {"labels": [jl, pl], "junctions": sel, "what": "complete subnet gives other results"})
            except Exception as e:  # noqa
                note("subnet-integrity-and-results", {"labels": [jl, pl], "junctions": sel, "error": "%s: %s" % (type(e).__name__, str(e)[:120])})
    return {"checks": res}


PIPE_LABELS = [4, 2, 7, 0]      # pipe labels differ from row positions and are not sorted


def _graph_net(pp):
    P = PIPE_LABELS
    net = pp.create_empty_network(fluid="lgas")
    j = pp.create_junctions(net, 6, 1.0, 293.15)
    pp.create_ext_grid(net, j[0], 1.0, 293.15)
    pp.create_ext_grid(net, j[5], 0.9, 293.15)
    pp.create_pipe_from_parameters(net, j[0], j[1], 0.4, 100., index=P[0])      # 0
    pp.create_pipe_from_parameters(net, j[1], j[2], 0.7, 100., index=P[1])      # 1  (valve attached at j1)
    pp.create_pipe_from_parameters(net, j[2], j[3], 0.2, 100., index=P[2])      # 2
    pp.create_pipe_from_parameters(net, j[1], j[3], 1.5, 100., index=P[3])      # 3  (long parallel way)
    pp.create_valve(net, j[1], P[1], "pi", 100., opened=True)                   # valve 0 on pipe 1
    pp.create_valve(net, j[3], j[4], "ju", 100., opened=True)       # valve 1
    pp.create_pump(net, j[4], j[5], "P1")                            # pump 0
    pp.create_sink(net, j[3], 0.01)
    pp.create_sink(net, j[4], 0.01)
    return net, j


def graph_vs_solver(inp):
    import copy
    import heapq
    import networkx as nx
    import pandapipes as pp
    import pandapipes.topology as top
    res = {k: {"ok": True, "cases": 0, "witness": None} for k in (
        "unsupplied-junctions-equal-nan-pattern", "components-equal-solver-islands", "one-edge-per-in-service-element",
        "distances-equal-shortest-pipe-paths")}

    def note(k, w):
        res[k]["ok"] = False
        if res[k]["witness"] is None:
            res[k]["witness"] = w
    base, j = _graph_net(pp)
    P = PIPE_LABELS
    flags = [("pipe", P[0], "in_service"), ("pipe", P[1], "in_service"), ("pipe", P[3], "in_service"), ("valve", 0, "opened"),
             ("valve", 1, "opened"), ("pump", 0, "in_service"), ("ext_grid", 0, "in_service"), ("ext_grid", 1, "in_service"),
             ("junction", 2, "in_service")]
    for pat in itertools.product([True, False], repeat=len(flags)):
        net = copy.deepcopy(base)
        for (t, i, c), v in zip(flags, pat):
            net[t].at[i, c] = v
        # consistent flags: elements at an out-of-service junction are out of service too
        if not net.junction.at[2, "in_service"]:
            net.pipe.loc[[P[1], P[2]], "in_service"] = False
        label = {"%s%d.%s" % f: v for f, v in zip(flags, pat) if not v}
        for multi in (True, False):
            res["one-edge-per-in-service-element"]["cases"] += 1
            g = top.create_nxgraph(net, multi=multi)
            exp = []
            closed_pipes = set(net.valve.element[(net.valve.et == "pi") & ~net.valve.opened])
            for idx, r in net.pipe.iterrows():
                if r.in_service and idx not in closed_pipes:
                    exp.append((r.from_junction, r.to_junction))
            for idx, r in net.valve.iterrows():
                if r.et == "ju" and r.opened:
                    exp.append((r.junction, r.element))
            for idx, r in net.pump.iterrows():
                if r.in_service:
                    exp.append((r.from_junction, r.to_junction))
            oos = set(net.junction.index[~net.junction.in_service])
            exp = sorted(tuple(sorted((int(a), int(b)))) for a, b in exp if a not in oos and b not in oos)
            got = sorted(tuple(sorted((int(a), int(b)))) for a, b in (g.edges() if not multi else [(a, b) for a, b, k in g.edges(keys=True)]))
            if not multi:
                exp = sorted(set(exp))
            if got != exp or set(int(n) for n in g.nodes()) != set(int(n) for n in net.junction.index) - set(int(x) for x in oos):
                note("one-edge-per-in-service-element", {"flags_off": label, "multi": multi, "graph": got, "expected": exp})
        res["unsupplied-junctions-equal-nan-pattern"]["cases"] += 1
        res["components-equal-solver-islands"]["cases"] += 1
        uns = set(int(x) for x in top.unsupplied_junctions(net)) | set(int(x) for x in net.junction.index[~net.junction.in_service])
        try:
            pp.pipeflow(net, iter=100)
            nan = set(int(x) for x in net.res_junction.index[net.res_junction.p_bar.isnull()])
        except Exception as e:  # noqa
            msg = str(e)
            if type(e).__name__ == "PipeflowNotConverged" and "connected" not in msg and "slack" not in msg.lower():
                continue        # a numerically unsolved pattern says nothing about connectivity
            nan = set(int(x) for x in net.junction.index)
        if uns != nan:
            note("unsupplied-junctions-equal-nan-pattern", {"flags_off": label, "unsupplied(+oos)": sorted(uns), "no pressure result": sorted(nan)})
        g = top.create_nxgraph(net)
        supplied = [set(int(x) for x in cc) for cc in nx.connected_components(g)
                    if set(cc) & set(net.ext_grid.junction[net.ext_grid.in_service])]
        calc = set(int(x) for x in net.junction.index) - nan
        if set().union(*supplied) if supplied else set() != calc:
            if (set().union(*supplied) if supplied else set()) != calc:
                note("components-equal-solver-islands", {"flags_off": label, "graph": [sorted(c) for c in supplied], "solver": sorted(calc)})
    # the status options act on their own component only
    key = "status-options-act-on-their-own-component"
    res[key] = {"ok": True, "cases": 0, "witness": None}
    net = copy.deepcopy(base)
    net.pipe.at[P[3], "in_service"] = False
    net.valve.at[0, "opened"] = False          # pipe-attached valve on pipe P[1]
    net.valve.at[1, "opened"] = False          # junction valve
    net.pump.at[0, "in_service"] = False
    for rs_pipes, rs_valves, rs_pumps in itertools.product([True, False], repeat=3):
        res[key]["cases"] += 1
        g = top.create_nxgraph(net, respect_status_pipes=rs_pipes, respect_status_valves=rs_valves, respect_status_pumps=rs_pumps)
        exp = []
        for idx, r in net.pipe.iterrows():
            if (r.in_service or not rs_pipes) and not (idx == P[1] and rs_valves):
                exp.append((r.from_junction, r.to_junction))
        for idx, r in net.valve.iterrows():
            if r.et == "ju" and (r.opened or not rs_valves):
                exp.append((r.junction, r.element))
        for idx, r in net.pump.iterrows():
            if r.in_service or not rs_pumps:
                exp.append((r.from_junction, r.to_junction))
        exp = sorted(tuple(sorted((int(a), int(b)))) for a, b in exp)
        got = sorted(tuple(sorted((int(a), int(b)))) for a, b, k in g.edges(keys=True))
        if got != exp:
            note(key, {"respect_status_pipes": rs_pipes, "respect_status_valves": rs_valves, "respect_status_pumps": rs_pumps,
                       "graph": got, "expected": exp})
    # distances
    net = copy.deepcopy(base)
    for variant in ({}, {("pipe", P[1]): False}, {("valve", 0): False}):
        n2 = copy.deepcopy(net)
        for (t, i), v in variant.items():
            n2[t].at[i, "in_service" if t == "pipe" else "opened"] = v
        adj = {int(x): [] for x in n2.junction.index}
        closed_pipes = set(n2.valve.element[(n2.valve.et == "pi") & ~n2.valve.opened])
        for idx, r in n2.pipe.iterrows():
            if r.in_service and idx not in closed_pipes:
                adj[int(r.from_junction)].append((int(r.to_junction), r.length_km))
                adj[int(r.to_junction)].append((int(r.from_junction), r.length_km))
        for idx, r in n2.valve.iterrows():
            if r.et == "ju" and r.opened:
                adj[int(r.junction)].append((int(r.element), 0.))
                adj[int(r.element)].append((int(r.junction), 0.))
        for idx, r in n2.pump.iterrows():
            if r.in_service:
                adj[int(r.from_junction)].append((int(r.to_junction), 0.))
                adj[int(r.to_junction)].append((int(r.from_junction), 0.))
        for src in n2.junction.index:
            res["distances-equal-shortest-pipe-paths"]["cases"] += 1
            dist = {int(src): 0.}
            pq = [(0., int(src))]
            while pq:
                d, u = heapq.heappop(pq)
                if d > dist.get(u, 1e99):
                    continue
                for v, w in adj[u]:
                    if d + w < dist.get(v, 1e99):
                        dist[v] = d + w
                        heapq.heappush(pq, (d + w, v))
            got = top.calc_distance_to_junction(n2, src)
            gd = {int(k): float(v) for k, v in got.items()}
            if set(gd) != set(dist) or any(abs(gd[k] - dist[k]) > 1e-12 for k in dist):
                note("distances-equal-shortest-pipe-paths", {"variant": str(variant), "source": int(src), "graph": gd, "expected": dist})
    return {"checks": res}


def vinterp(inp):
    from pandapipes.component_models.component_toolbox import vinterp as vi
    cases, witness = 0, None
    vals = [0., 1.5, -2.]
    for n in range(1, 4):
        for cnt in itertools.product(range(0, 4), repeat=n):
            for lo in itertools.product(vals, repeat=n):
                hi = tuple(vals[(vals.index(x) + 1) % 3] for x in lo)
                cases += 1
                got = vi(np.array(lo), np.array(hi), np.array(cnt, dtype=np.int32))
                exp = [lo[i] + (hi[i] - lo[i]) * (r + 1) / (cnt[i] + 1) for i in range(n) for r in range(cnt[i])]
                if len(got) != len(exp) or not np.allclose(got, exp, rtol=0, atol=1e-12):
                    if witness is None:
                        witness = {"lo": lo, "hi": hi, "counts": cnt, "got": np.asarray(got).tolist(), "expected": exp}
    return {"ok": witness is None, "cases": cases, "witness": witness}


def update_matrix(inp):
    """only_update_hydraulic_matrix: build_system_matrix on ALL small hydraulic pits (scope below), three ways:
    plain (option off), first call with the option on (empty cache), second call with the option on after the
    solver used the cached matrix (spsolve) and after every value column changed -- dense matrices and load
    vectors must agree.  Pits whose COO positions are not pairwise distinct (a pressure-control branch whose
    controlled node is one of its own ends) are reported separately (finding F16)."""
    from scipy.sparse.linalg import spsolve
    from pandapipes.pf.build_system_matrix import build_system_matrix
    from pandapipes import idx_branch as IB, idx_node as IN
    rng = np.random.default_rng(int(inp.get("seed", 0)) + 11)
    max_n, max_b = int(inp.get("max_nodes", 3)), int(inp.get("max_branches", 3))
    vcols_b = [IB.JAC_DERIV_DM, IB.JAC_DERIV_DP, IB.JAC_DERIV_DP1, IB.JAC_DERIV_DM_NODE, IB.LOAD_VEC_NODES_FROM,
               IB.LOAD_VEC_NODES_TO, IB.LOAD_VEC_BRANCHES]
    vcols_n = [IN.LOAD, IN.MDOTSLACKINIT]
    out = {"distinct": {"ok": True, "cases": 0, "witness": None}, "duplicate": {"ok": True, "cases": 0, "witness": None}}

    def fill(bp, npit):
        bp[:, vcols_b] = rng.uniform(0.5, 2.0, size=(len(bp), len(vcols_b))) * rng.choice([-1, 1], size=(len(bp), len(vcols_b)))
        npit[:, vcols_n] = rng.uniform(-2.0, 2.0, size=(len(npit), len(vcols_n)))

    def dense(res):
        A, b = res
        return np.asarray(A.todense(), dtype=float).copy(), np.asarray(b, dtype=float).copy()

    for nn in range(1, max_n + 1):
        for ntypes in itertools.product((0, IN.P, IN.PC), repeat=nn):
            if IN.P not in ntypes:
                continue
            npc = sum(1 for t in ntypes if t == IN.PC)
            for nb in range(0, max_b + 1):
                for ends in itertools.product([(a, b) for a in range(nn) for b in range(nn) if a != b], repeat=nb):
                    for pcb in itertools.combinations(range(nb), npc) if npc <= nb else ():
                        bp = np.zeros((nb, IB.branch_cols), dtype=np.float64)
                        npit = np.zeros((nn, IN.node_cols), dtype=np.float64)
                        npit[:, IN.NODE_TYPE] = ntypes
                        npit[np.array(ntypes) == IN.P, IN.JAC_DERIV_MSL] = -1.
                        for k, (a, b) in enumerate(ends):
                            bp[k, IB.FROM_NODE], bp[k, IB.TO_NODE] = a, b
                        bp[list(pcb), IB.BRANCH_TYPE] = IB.PC
                        pcn = [i for i, t in enumerate(ntypes) if t == IN.PC]
                        dup = any(pcn[j] in ends[b] for j, b in enumerate(pcb))
                        cls = out["duplicate" if dup else "distinct"]
                        cls["cases"] += 1
                        fill(bp, npit)
                        obs = None
                        try:
                            plain = {"_options": {"only_update_hydraulic_matrix": False, "use_numba": False}, "_internal_data": {}}
                            upd = {"_options": {"only_update_hydraulic_matrix": True, "use_numba": False}, "_internal_data": {}}
                            A0, b0 = dense(build_system_matrix(plain, bp, npit, False))
                            r1 = build_system_matrix(upd, bp, npit, False)
                            A1, b1 = dense(r1)
                            if not (np.array_equal(A0, A1) and np.array_equal(b0, b1)):
                                obs = "first call with the option differs from the plain matrix"
                            if obs is None:
                                try:
                                    spsolve(r1[0], r1[1])
                                except Exception:  # noqa  (singular random systems are irrelevant here)
                                    pass
                                fill(bp, npit)
                                plain["_internal_data"] = {}
                                A2, b2 = dense(build_system_matrix(plain, bp, npit, False))
                                A3, b3 = dense(build_system_matrix(upd, bp, npit, False))
                                if not (np.allclose(A2, A3, rtol=1e-13, atol=0) and np.array_equal(b2, b3)):
                                    obs = "second call (cached structure, new values) differs from the plain matrix"
                        except Exception as e:  # noqa
                            obs = "%s: %s" % (type(e).__name__, str(e)[:160])
                        if obs is not None and cls["witness"] is None:
                            cls["ok"] = False
                            cls["witness"] = {"node_types": list(ntypes), "branch_ends": [list(e) for e in ends],
                                              "pc_branches": list(pcb), "observed": obs}
    return out


def update_pipeline(inp):
    """whole calculation: a sequence of pipeflow calls with reuse_internal_data + only_update_hydraulic_matrix and
    loads changed between the calls gives, call by call, the results of a fresh calculation of the same net
    (both engines)."""
    import copy
    import pandapipes as pp
    cases, witness = 0, None

    def build(fluid):
        net = pp.create_empty_network(fluid=fluid)
        j = [pp.create_junction(net, pn_bar=5, tfluid_k=300, height_m=h) for h in (0, 2, 1, 3, 0)]
        pp.create_ext_grid(net, j[0], p_bar=5, t_k=300)
        pp.create_pipe_from_parameters(net, j[0], j[1], 0.4, 100., k_mm=0.1, sections=2)
        pp.create_pipe_from_parameters(net, j[1], j[2], 0.3, 80., k_mm=0.1)
        pp.create_pipe_from_parameters(net, j[2], j[3], 0.5, 80., k_mm=0.2, sections=3)
        pp.create_pipe_from_parameters(net, j[1], j[3], 0.7, 100., k_mm=0.1)
        pp.create_valve(net, j[3], j[4], "ju", 100., opened=True)
        pp.create_sink(net, j[2], 0.2)
        pp.create_sink(net, j[4], 0.3)
        pp.create_source(net, j[3], 0.05)
        return net

    def res(net):
        return {t: net[t].to_numpy(dtype=float, copy=True) for t in net.keys()
                if isinstance(t, str) and t.startswith("res_") and hasattr(net[t], "to_numpy") and len(net[t])}

    for fluid in ("water", "lgas"):
        for use_numba in (False, True):
            for friction in ("nikuradse", "swamee-jain"):
                net = build(fluid)
                seq = [(0.2, 0.3, 0.05), (0.5, 0.1, 0.0), (0.0, 0.0, 0.0), (0.05, 0.6, 0.3)]
                for step, (s0, s1, src) in enumerate(seq):
                    cases += 1
                    net.sink.loc[0, "mdot_kg_per_s"], net.sink.loc[1, "mdot_kg_per_s"] = s0, s1
                    net.source.loc[0, "mdot_kg_per_s"] = src
                    fresh = copy.deepcopy(net)
                    for k in [k for k in list(fresh.keys()) if isinstance(k, str) and k.startswith("_")]:
                        del fresh[k]
                    def run(n_, **kw):
                        try:
                            pp.pipeflow(n_, use_numba=use_numba, friction_model=friction, **kw)
                            return res(n_)
                        except Exception as e:  # noqa
                            return "%s: %s" % (type(e).__name__, str(e)[:120])
                    a = run(net, reuse_internal_data=True, only_update_hydraulic_matrix=True)
                    b = run(fresh)
                    if isinstance(a, str) or isinstance(b, str):
                        obs = None if (isinstance(a, str) and isinstance(b, str) and a.split(":")[0] == b.split(":")[0]) \
                            else "with the options: %s / fresh calculation: %s" % (a if isinstance(a, str) else "results",
                                                                                  b if isinstance(b, str) else "results")
                    else:
                        bad = [t for t in b if t not in a or a[t].shape != b[t].shape
                               or not np.allclose(a[t], b[t], rtol=1e-9, atol=1e-11, equal_nan=True)]
                        obs = ("tables differ: %s" % bad) if bad else None
                    if obs is not None and witness is None:
                        witness = {"fluid": fluid, "use_numba": use_numba, "friction_model": friction, "step": step,
                                   "loads": [s0, s1, src], "observed": obs}
    return {"ok": witness is None, "cases": cases, "witness": witness}


def _balance(net):
    """(max node imbalance over supplied junctions, global feed-in vs signed load mismatch) from the result tables"""
    import pandapipes as pp  # noqa
    bal = {jn: 0. for jn in net.junction.index}
    for comp in net.component_list:
        tbl = comp.table_name()
        if not hasattr(comp, "from_to_node_cols") or tbl not in net or len(net[tbl]) == 0:
            continue
        try:
            fc, tc = comp.from_to_node_cols()
        except Exception:  # noqa
            continue
        res = net["res_" + tbl]
        if "mdot_from_kg_per_s" not in res.columns:
            continue
        for i, row in net[tbl].iterrows():
            mf, mt = res.at[i, "mdot_from_kg_per_s"], res.at[i, "mdot_to_kg_per_s"]
            if np.isnan(mf):
                continue
            bal[row[fc]] -= mf
            bal[row[tc]] -= mt
    load = 0.
    for tbl, sgn in (("sink", 1.), ("mass_storage", 1.), ("source", -1.)):
        if tbl in net and len(net[tbl]):
            for i, row in net[tbl].iterrows():
                v = net["res_" + tbl].at[i, "mdot_kg_per_s"]
                if not np.isnan(v):
                    bal[row.junction] -= sgn * v
                    load += sgn * v
    feed = 0.
    if "ext_grid" in net and len(net.ext_grid):
        for i, row in net.ext_grid.iterrows():
            v = net.res_ext_grid.at[i, "mdot_kg_per_s"]       # negative = feeds into the net
            if not np.isnan(v):
                bal[row.junction] -= v
                feed -= v
    supplied = net.res_junction.index[~np.isnan(net.res_junction.p_bar.values)]
    return max([abs(bal[jn]) for jn in supplied] + [0.]), abs(feed - load)


def mass_balance(inp):
    """reported mass flows balance at every supplied junction and over the network (property C01), on a family of
    networks x options (scope in the evidence); tolerance 1e-7 kg/s (flows of order 1 kg/s)"""
    import pandapipes as pp
    cases, witness = 0, None
    skipped = []
    tol = 1e-7

    def mesh(fluid, labels):
        net = pp.create_empty_network(fluid=fluid)
        j = list(pp.create_junctions(net, 7, pn_bar=5, tfluid_k=330., height_m=[0, 3, 1, 4, 0, 2, 9], index=labels))
        pp.create_ext_grid(net, j[0], p_bar=5, t_k=350., type="pt")
        pp.create_ext_grid(net, j[0], p_bar=5, type="p")
        pp.create_ext_grid(net, j[5], p_bar=4.8, t_k=340., type="pt")
        pp.create_ext_grid(net, j[3], p_bar=3, type="p", in_service=False)
        pp.create_pipe_from_parameters(net, j[0], j[1], 0.4, 100., u_w_per_m2k=5., sections=3, index=7)
        pp.create_pipe_from_parameters(net, j[1], j[2], 0.3, 100., u_w_per_m2k=5., index=2)
        pp.create_pipe_from_parameters(net, j[1], j[3], 0.3, 80., u_w_per_m2k=5., sections=2, index=9)
        pp.create_pipe_from_parameters(net, j[2], j[3], 0.2, 100., u_w_per_m2k=5., index=4)
        pp.create_pipe_from_parameters(net, j[3], j[4], 0.2, 100., u_w_per_m2k=5., in_service=False, index=5)
        pp.create_pipe_from_parameters(net, j[3], j[5], 0.25, 100., u_w_per_m2k=5., index=1)
        pp.create_pipe_from_parameters(net, j[1], j[3], 0.35, 90., u_w_per_m2k=5., index=12)     # parallel branch
        pp.create_valve(net, j[3], j[4], "ju", 100., opened=True)
        pp.create_valve(net, j[5], j[6], "ju", 100., opened=False)
        pp.create_sink(net, j[2], 0.7)
        pp.create_sink(net, j[2], 0.2, scaling=0.5)
        pp.create_sink(net, j[4], 1.1)
        pp.create_sink(net, j[6], 0.3)                      # behind the closed valve: unsupplied
        pp.create_sink(net, j[3], 0.4, in_service=False)
        pp.create_source(net, j[3], 0.2)
        pp.create_mass_storage(net, j[1], 0.15)
        return net

    def loop(variant):
        net = pp.create_empty_network(fluid="water")
        jf, j1, j2, j3, jr = pp.create_junctions(net, 5, pn_bar=5, tfluid_k=350., index=[4, 11, 2, 8, 6])
        pp.create_circ_pump_const_pressure(net, jr, jf, p_flow_bar=5., plift_bar=2., t_flow_k=360.)
        pp.create_pipe_from_parameters(net, jf, j1, 0.3, 100.)
        pp.create_pipe_from_parameters(net, j1, j2, 0.2, 100.)
        pp.create_heat_exchanger(net, j2, j3, 20000., 100.)
        pp.create_pipe_from_parameters(net, j3, jr, 0.5, 100.)
        pp.create_flow_control(net, j1, j3, 0.4)
        if variant >= 1:
            pp.create_sink(net, j2, 0.35)
            pp.create_sink(net, j3, 0.10)
            pp.create_source(net, j1, 0.05)
            pp.create_ext_grid(net, jf, p_bar=5., type="p")
        if variant >= 2:
            pp.create_ext_grid(net, jf, p_bar=5., type="p")
        return net

    def run(tag, net, **kw):
        nonlocal cases, witness
        cases += 1
        try:
            pp.pipeflow(net, **kw)
        except Exception as e:  # noqa  (not converging is not a C01 matter)
            if type(e).__name__ == "PipeflowNotConverged":
                skipped.append(tag + "/" + str(kw.get("mode")))
                return
            if witness is None:
                witness = {"net": tag, "options": kw, "observed": "%s: %s" % (type(e).__name__, str(e)[:160])}
            return
        e = _balance(net)
        if max(e) > tol and witness is None:
            witness = {"net": tag, "options": kw, "observed": "node imbalance %.3e kg/s, network imbalance %.3e kg/s" % e}

    for use_numba in (False, True):
        for fluid in ("water", "lgas"):
            for labels in ([0, 1, 2, 3, 4, 5, 6], [30, 2, 17, 5, 100001, 4, 9]):
                for mode in ("hydraulics", "sequential") if fluid == "water" else ("hydraulics",):
                    run("mesh/%s/%s" % (fluid, labels), mesh(fluid, labels), mode=mode, use_numba=use_numba)
        for variant in (0, 1, 2):
            for mode in ("hydraulics", "sequential", "bidirectional"):
                run("circulation-loop/%d" % variant, loop(variant), mode=mode, use_numba=use_numba)
        net = mesh("water", [0, 1, 2, 3, 4, 5, 6])
        for step in range(3):
            run("mesh/transient-step-%d" % step, net, mode="sequential", transient=True, dt=60., simulation_time_step=step,
                use_numba=use_numba)
    if len(skipped) > cases // 4 and witness is None:
        witness = {"observed": "vacuous: %d of %d calculations did not converge" % (len(skipped), cases), "skipped": skipped[:6]}
    return {"ok": witness is None, "cases": cases, "witness": witness, "not_converged": skipped}


def valve_internal_nodes(inp):
    """Valve.get_internal_node_number (np.unique(axis=0) / argsort inverse-permutation code) against its specification:
    one internal node per distinct (junction, pipe) pair of the pipe-attached valves, created at the FIRST row of the pair
    in table order; every pipe-attached valve is wired to the internal node of its own pair, internal nodes being numbered
    in the order of the rows that create them"""
    import pandas as pd
    from pandapipes.component_models.valve_component import Valve
    max_rows = int(inp.get("max_rows", 4))
    cases, witness = 0, None
    rows_dom = [("ju", 1, 5), ("pi", 1, 2), ("pi", 1, 7), ("pi", 5, 2), ("pi", 9, 7), ("pi", 5, 7)]
    for n in range(0, max_rows + 1):
        for rows in itertools.product(rows_dom, repeat=n):
            cases += 1
            df = pd.DataFrame({"et": [r[0] for r in rows], "junction": [r[1] for r in rows], "element": [r[2] for r in rows]},
                              index=[10 + 3 * k for k in range(n)])
            df["junction"] = df["junction"].astype(np.int64)
            df["element"] = df["element"].astype(np.int64)
            net = {"valve": df}
            pi_rows = [k for k, r in enumerate(rows) if r[0] == "pi"]
            first = {}
            for k in pi_rows:
                first.setdefault((rows[k][1], rows[k][2]), k)
            creators = sorted(first.values())
            exp_int = [1 if k in creators else 0 for k in range(n)]
            exp_grp = [creators.index(first[(rows[k][1], rows[k][2])]) for k in pi_rows]
            try:
                int_nodes, grp, mask_p = Valve.get_internal_node_number(net, return_internal_only=False)
                only = Valve.get_internal_node_number(net)
                ok = (list(np.asarray(int_nodes)) == exp_int and list(np.asarray(only)) == exp_int
                      and list(np.asarray(mask_p)) == pi_rows and list(np.asarray(grp)) == exp_grp)
                obs = {"int_nodes": np.asarray(int_nodes).tolist(), "group_of_pi_rows": np.asarray(grp).tolist(),
                       "pi_rows": np.asarray(mask_p).tolist()}
            except Exception as e:  # noqa
                ok, obs = False, "%s: %s" % (type(e).__name__, str(e)[:160])
            if not ok and witness is None:
                witness = {"rows (et, junction, element)": [list(r) for r in rows], "observed": obs,
                           "expected": {"int_nodes": exp_int, "group_of_pi_rows": exp_grp, "pi_rows": pi_rows}}
    return {"ok": witness is None, "cases": cases, "witness": witness}


def prescribed_values(inp):
    """property C03 natively: after a converged calculation every prescribed value is met by the reported results
    (tolerances: 1e-6 bar / 1e-7 kg/s for values imposed by identity rows, 1e-4 relative for lifts at convergence)"""
    import pandapipes as pp
    cases, witness = 0, None

    def chk(tag, cond, what):
        nonlocal witness
        if not cond and witness is None:
            witness = {"net": tag, "observed": what}

    def run(tag, net, checks, **kw):
        nonlocal cases
        cases += 1
        try:
            pp.pipeflow(net, **kw)
        except Exception as e:  # noqa
            chk(tag, type(e).__name__ == "PipeflowNotConverged" and False, "%s: %s" % (type(e).__name__, str(e)[:160]))
            return
        for what, got, want, tol in checks(net):
            chk(tag + "/" + str(kw), abs(got - want) <= tol, "%s: reported %.9g, prescribed %.9g" % (what, got, want))

    # 1. water net: two ext grids at one junction (mean), one out of service, flow control, loads with scaling
    def water(use_numba):
        net = pp.create_empty_network(fluid="water")
        j = list(pp.create_junctions(net, 6, pn_bar=4., tfluid_k=300., index=[7, 3, 12, 5, 9, 1]))
        pp.create_ext_grid(net, j[0], p_bar=5.0, t_k=300., type="pt")
        pp.create_ext_grid(net, j[0], p_bar=5.4, type="p")
        pp.create_ext_grid(net, j[0], p_bar=9.0, type="p", in_service=False)
        pp.create_pipe_from_parameters(net, j[0], j[1], 0.3, 100., sections=2)
        pp.create_flow_control(net, j[1], j[2], 0.8)
        pp.create_flow_control(net, j[1], j[3], 0.5, control_active=False)
        pp.create_pipe_from_parameters(net, j[2], j[4], 0.2, 80.)
        pp.create_pipe_from_parameters(net, j[3], j[4], 0.2, 80.)
        pp.create_pressure_control(net, j[4], j[5], j[5], 2.5)
        pp.create_sink(net, j[5], 0.6, scaling=1.5)
        pp.create_sink(net, j[4], 0.3)
        pp.create_sink(net, j[4], 9.9, in_service=False)
        pp.create_source(net, j[2], 0.1, scaling=0.5)

        def checks(n):
            return [("pressure at the junction of two in-service ext grids (mean)", n.res_junction.at[j[0], "p_bar"], 5.2, 1e-9),
                    ("mass flow of the active flow controller", n.res_flow_control.at[0, "mdot_from_kg_per_s"], 0.8, 1e-7),
                    ("pressure at the controlled junction", n.res_junction.at[j[5], "p_bar"], 2.5, 1e-6),
                    ("sink result = mdot x scaling", n.res_sink.at[0, "mdot_kg_per_s"], 0.9, 1e-12),
                    ("source result = mdot x scaling", n.res_source.at[0, "mdot_kg_per_s"], 0.05, 1e-12)]
        run("water/ext-grids+flow-control+pressure-control", net, checks, use_numba=use_numba)

    # 2. circulation pumps (mass and pressure), one of the table out of service, sharing / not sharing a flow junction
    def loop(use_numba, kind):
        net = pp.create_empty_network(fluid="water")
        jf, j1, j2, jr, jx = pp.create_junctions(net, 5, pn_bar=5, tfluid_k=350., index=[4, 11, 2, 8, 6])
        if kind == "pressure":
            pp.create_circ_pump_const_pressure(net, jr, jf, p_flow_bar=5., plift_bar=1.5, t_flow_k=360.)
            pp.create_circ_pump_const_pressure(net, jr, jf, p_flow_bar=7., plift_bar=3.0, t_flow_k=360., in_service=False)
        else:
            pp.create_circ_pump_const_mass_flow(net, jr, jf, p_flow_bar=5., mdot_flow_kg_per_s=1.2, t_flow_k=360.)
            pp.create_circ_pump_const_mass_flow(net, jr, jf, p_flow_bar=7., mdot_flow_kg_per_s=9., t_flow_k=360., in_service=False)
        pp.create_pipe_from_parameters(net, jf, j1, 0.3, 100.)
        pp.create_heat_exchanger(net, j1, j2, 20000., 100.)
        pp.create_pipe_from_parameters(net, j2, jr, 0.3, 100.)
        pp.create_flow_control(net, j1, j2, 0.4)

        def checks(n):
            out = [("pressure at the flow junction", n.res_junction.at[jf, "p_bar"], 5.0, 1e-9)]
            if kind == "pressure":
                out.append(("lift between return and flow junction", n.res_junction.at[jf, "p_bar"] - n.res_junction.at[jr, "p_bar"], 1.5, 1e-5))
            else:
                out.append(("mass flow of the circulation pump", n.res_circ_pump_mass.at[0, "mdot_from_kg_per_s"], 1.2, 1e-7))
            return out
        run("loop/circ-pump-%s" % kind, net, checks, use_numba=use_numba, mode="sequential")

    # 3. gas net: two pumps of different type (the first out of service), compressor, different junction temperatures
    def gas(use_numba):
        net = pp.create_empty_network(fluid="lgas")
        j = list(pp.create_junctions(net, 6, pn_bar=1.0, tfluid_k=[290., 300., 310., 320., 330., 340.]))
        pp.create_ext_grid(net, j[0], p_bar=1.0, t_k=290.)
        pp.create_pump(net, j[0], j[1], "P1", in_service=False)
        pp.create_pump(net, j[0], j[1], "P2")
        pp.create_pipe_from_parameters(net, j[1], j[2], 0.5, 200.)
        pp.create_compressor(net, j[2], j[3], pressure_ratio=1.3)
        pp.create_pipe_from_parameters(net, j[3], j[4], 0.5, 200.)
        pp.create_sink(net, j[4], 0.02)

        def checks(n):
            pa = 1.01325
            pf, pt = n.res_junction.at[j[2], "p_bar"] + pa, n.res_junction.at[j[3], "p_bar"] + pa
            std = n.std_types["pump"]["P2"]
            fluid = n.fluid
            p_in = n.res_junction.at[j[0], "p_bar"] + pa
            t_in = n.res_junction.at[j[0], "t_k"]
            vdot_in = n.res_pump.at[1, "mdot_from_kg_per_s"] / fluid.get_density(273.15) *                 (1.01325 * t_in * fluid.get_compressibility(p_in) / (p_in * 273.15))
            return [("compressor pressure ratio (absolute pressures)", pt / pf, 1.3, 1e-4),
                    ("lift of the in-service pump = its own curve at the inlet volume flow", n.res_pump.at[1, "deltap_bar"],
                     float(std.get_pressure(float(vdot_in))), 1e-4)]
        run("gas/pumps+compressor", net, checks, use_numba=use_numba)

    for use_numba in (False, True):
        water(use_numba)
        loop(use_numba, "pressure")
        loop(use_numba, "mass")
        gas(use_numba)
    return {"ok": witness is None, "cases": cases, "witness": witness}


def supplied_part(inp):
    """property C04 natively: a junction gets a pressure result iff an independent search (written here, from the element
    tables only) reaches it from an in-service pressure-fixing element through in-service, open, hydraulically connecting
    branches; the results of the supplied part equal those of the network rebuilt WITHOUT everything else; a network
    without any supplied junction raises"""
    import pandapipes as pp
    cases, witness = 0, None
    J = [10, 4, 7, 1, 12, 3, 8, 15, 20]    # junction labels (unsorted); 15: behind a heat consumer, 20: inlet of a pressure controller

    def build(flags, keep=None):
        """keep: None = everything; else a predicate (table, key) -> bool deciding which elements are created"""
        k = keep or (lambda t, i: True)
        net = pp.create_empty_network(fluid="water")
        for q, lab in enumerate(J):
            if k("junction", lab):
                pp.create_junction(net, pn_bar=3., tfluid_k=300., index=lab, in_service=not (q == 6 and not flags["j6"]))
        def has(*labs):
            return all(k("junction", x) for x in labs)
        if has(J[0]) and k("ext_grid", 0):
            pp.create_ext_grid(net, J[0], p_bar=5., t_k=300., type="pt", index=0)
        if has(J[5]) and k("ext_grid", 1):
            pp.create_ext_grid(net, J[5], p_bar=4.5, t_k=300., type="pt", index=1, in_service=flags["eg1"])
        if has(J[3]) and k("ext_grid", 2):
            pp.create_ext_grid(net, J[3], t_k=300., type="t", index=2)            # fixes no pressure
        pipes = {5: (J[0], J[1], flags["pa"]), 2: (J[1], J[2], True), 9: (J[2], J[3], flags["pb"]), 0: (J[4], J[5], True),
                 6: (J[3], J[6], flags["j6"])}        # consistent flags: a branch at an out-of-service junction is out of service
        for idx, (a, b, ins) in pipes.items():
            if has(a, b) and k("pipe", idx):
                pp.create_pipe_from_parameters(net, a, b, 0.2, 100., index=idx, in_service=ins)
        if has(J[1]) and 2 in net.pipe.index and k("valve", 0):
            pp.create_valve(net, J[1], 2, "pi", 100., opened=flags["vpi"], index=0)
        if has(J[3], J[4]) and k("valve", 1):
            pp.create_valve(net, J[3], J[4], "ju", 100., opened=flags["vju"], index=1)
        if has(J[2], J[4]) and k("flow_control", 0):
            pp.create_flow_control(net, J[2], J[4], 0.1, control_active=flags["fca"], in_service=flags["fci"], index=0)
        if has(J[2], J[7]) and k("heat_consumer", 0):
            pp.create_heat_consumer(net, J[2], J[7], qext_w=1000., deltat_k=10., index=0)      # never connects hydraulically
        if has(J[8], J[4]) and k("press_control", 0):
            pp.create_pressure_control(net, J[8], J[4], J[4], 3.0, index=0)                    # directed: its inlet is never supplied
        for q, lab in enumerate(J):
            if has(lab) and k("sink", q):
                pp.create_sink(net, lab, 0.05 + 0.01 * q, index=q, in_service=not (q == 6 and not flags["j6"]))
        return net

    def search(net):
        oos = set(net.junction.index[~net.junction.in_service])
        adj = {int(x): set() for x in net.junction.index if x not in oos}
        def link(a, b, both=True):
            a, b = int(a), int(b)
            if a in adj and b in adj:
                adj[a].add(b)
                if both:
                    adj[b].add(a)
        closed = set(int(r.element) for _, r in net.valve.iterrows() if r.et == "pi" and not r.opened) if len(net.valve) else set()
        for idx, r in net.pipe.iterrows():
            if r.in_service and int(idx) not in closed:
                link(r.from_junction, r.to_junction)
        for idx, r in net.valve.iterrows():
            if r.et == "ju" and r.opened:
                link(r.junction, r.element)
        if "flow_control" in net:
            for idx, r in net.flow_control.iterrows():
                if r.in_service and not r.control_active:
                    link(r.from_junction, r.to_junction)
        roots = [int(r.junction) for _, r in net.ext_grid.iterrows() if r.in_service and r.type in ("p", "pt") and int(r.junction) in adj]
        seen, work = set(roots), list(roots)
        while work:
            u = work.pop()
            for v in adj[u]:
                if v not in seen:
                    seen.add(v)
                    work.append(v)
        return seen

    unsolved = []
    names = ["pa", "pb", "vpi", "vju", "fca", "fci", "eg1", "j6"]
    fixed_on = set(inp.get("fixed_on", []))
    for pat in itertools.product([True, False], repeat=len(names)):
        flags = dict(zip(names, pat))
        if any(not flags[f_] for f_ in fixed_on):
            continue
        cases += 1
        net = build(flags)
        want = search(net)
        off = {k_: v for k_, v in flags.items() if not v}
        try:
            pp.pipeflow(net)
            got = set(int(x) for x in net.res_junction.index[~net.res_junction.p_bar.isnull()])
            err = None
        except Exception as e:  # noqa
            got, err = set(), "%s: %s" % (type(e).__name__, str(e)[:100])
        if not want:
            ok = err is not None and err.startswith("PipeflowNotConverged")
            if not ok and witness is None:
                witness = {"flags_off": off, "observed": "no junction is supplied but the calculation %s" % (err or "returned")}
            continue
        if err is not None:
            if err.startswith("PipeflowNotConverged") and "connected" not in err and "service" not in err:
                unsolved.append(off)
                continue            # numerically unsolved pattern: says nothing about connectivity (counted, see below)
            if witness is None:
                witness = {"flags_off": off, "observed": err, "supplied (independent search)": sorted(want)}
            continue
        if got != want:
            if witness is None:
                witness = {"flags_off": off, "junctions with a pressure result": sorted(got), "supplied (independent search)": sorted(want)}
            continue
        # the supplied part alone gives the same results
        if cases % 4 == 0:
            sub = build(flags, keep=lambda t, i: (t != "junction" or i in want) and not (t == "ext_grid" and i == 1 and not flags["eg1"]))
            for idx in list(sub.pipe.index[~sub.pipe.in_service]):
                sub.pipe.drop(idx, inplace=True)
            try:
                pp.pipeflow(sub)
                a = net.res_junction.loc[sorted(want), "p_bar"].values
                b = sub.res_junction.loc[sorted(want), "p_bar"].values
                if not np.allclose(a, b, rtol=1e-9, atol=1e-10) and witness is None:
                    witness = {"flags_off": off, "observed": "pressures of the supplied part differ from the network without the rest",
                               "full": a.tolist(), "reduced": b.tolist()}
            except Exception as e:  # noqa
                if witness is None:
                    witness = {"flags_off": off, "observed": "network without the unsupplied part: %s: %s" % (type(e).__name__, str(e)[:100])}
    if len(unsolved) > int(inp.get("max_unsolved", 0)) and witness is None:
        witness = {"observed": "%d of %d flag patterns with a supplied part did not converge (every one of them converges on the "
                               "reference tree): the supplied part is not calculated" % (len(unsolved), cases), "first": unsolved[0]}
    return {"ok": witness is None, "cases": cases, "witness": witness, "unsolved": len(unsolved)}


def section_equivalence(inp):
    """property C09 natively: a pipe with n sections gives the results of n single-section pipes in series (outlet
    temperature, end pressures, mass flow), for every labelling order of the pipes; and a pipe drawn against the flow gives
    the results of the pipe drawn along it (orientation)"""
    import pandapipes as pp
    cases, witness = 0, None
    secs = [2, 3, 1]
    spec = [(0, 1, 0.4), (1, 2, 0.6), (1, 3, 0.5)]          # (from, to, length) of the three pipes

    def base(reverse=(), t_feed=320.):
        net = pp.create_empty_network(fluid="water")
        j = list(pp.create_junctions(net, 4, pn_bar=5., tfluid_k=320., height_m=[0., 4., 1., 6.]))
        # feed temperature = start temperature of the junctions: in sequential mode the hydraulic step runs on the start
        # temperatures, which are then the same physical field for every orientation
        pp.create_ext_grid(net, j[0], p_bar=5., t_k=t_feed, type="pt")
        pp.create_sink(net, j[2], 0.8)
        pp.create_sink(net, j[3], 0.5)
        return net, j

    def sectioned(labels, reverse=(), t_feed=320.):
        net, j = base(t_feed=t_feed)
        for k_, (a, b, ln) in enumerate(spec):
            fa, fb = (j[b], j[a]) if k_ in reverse else (j[a], j[b])
            pp.create_pipe_from_parameters(net, fa, fb, ln, 100., k_mm=0.2, u_w_per_m2k=20., sections=secs[k_], text_k=280., index=labels[k_])
        return net

    def series():
        net, j = base()
        last = {}
        h = [0., 4., 1., 6.]
        for k_, (a, b, ln) in enumerate(spec):
            n_ = secs[k_]
            prev = j[a]
            for q in range(n_):
                if q == n_ - 1:
                    nxt = j[b]
                else:
                    nxt = pp.create_junction(net, pn_bar=5., tfluid_k=320., height_m=h[a] + (h[b] - h[a]) * (q + 1) / n_)
                idx = pp.create_pipe_from_parameters(net, prev, nxt, ln / n_, 100., k_mm=0.2, u_w_per_m2k=20., sections=1, text_k=280.)
                prev = nxt
            last[k_] = idx
        return net, last

    ref, last = series()
    try:
        pp.pipeflow(ref, mode="sequential")
    except Exception as e:  # noqa
        return {"checks": {"sectioned-pipe-equals-pipes-in-series-for-every-labelling-and-orientation": {
            "ok": False, "cases": 1, "witness": {"observed": "the pipes-in-series reference network: %s: %s" % (type(e).__name__, str(e)[:160])}}}}
    for labels in itertools.permutations([0, 1, 2]):
        for use_numba in (False, True):
            for reverse in ((), (1,), (0, 2)):
                cases += 1
                net = sectioned(labels, reverse)
                try:
                    pp.pipeflow(net, mode="sequential", use_numba=use_numba)
                except Exception as e:  # noqa
                    if witness is None:
                        witness = {"labels": labels, "reverse": reverse, "observed": "%s: %s" % (type(e).__name__, str(e)[:120])}
                    continue
                for k_ in range(3):
                    rev = k_ in reverse
                    a = net.res_pipe.loc[labels[k_]]
                    b = ref.res_pipe.loc[last[k_]]
                    got = {"t_outlet_k": a.t_outlet_k, "p_end": a.p_from_bar if rev else a.p_to_bar,
                           "mdot": -a.mdot_from_kg_per_s if rev else a.mdot_from_kg_per_s}
                    want = {"t_outlet_k": b.t_outlet_k, "p_end": b.p_to_bar, "mdot": b.mdot_from_kg_per_s}
                    bad = [q for q in got if abs(got[q] - want[q]) > 1e-5 * max(1., abs(want[q]))]
                    if bad and witness is None:
                        witness = {"pipe_labels_in_creation_order": labels, "pipes_drawn_against_the_flow": reverse, "use_numba": use_numba,
                                   "pipe": k_, "sections": secs[k_], "differs": {q: (float(got[q]), float(want[q])) for q in bad}}
    # orientation in the purely hydraulic calculation when the feed temperature differs from the start temperature of the
    # junctions (judged separately: finding F35)
    o_cases, o_witness = 0, None
    for reverse in ((1,), (0, 2), (0, 1, 2)):
        o_cases += 1
        try:
            a = sectioned((0, 1, 2), (), t_feed=360.)
            b = sectioned((0, 1, 2), reverse, t_feed=360.)
            pp.pipeflow(a, mode="hydraulics")
            pp.pipeflow(b, mode="hydraulics")
            d = float(np.max(np.abs(a.res_junction.p_bar.values - b.res_junction.p_bar.values)))
            if d > 1e-7 and o_witness is None:
                o_witness = {"pipes_drawn_against_the_flow": reverse, "max pressure difference [bar]": d,
                             "forward": a.res_junction.p_bar.round(7).tolist(), "reversed": b.res_junction.p_bar.round(7).tolist()}
        except Exception as e:  # noqa
            if o_witness is None:
                o_witness = {"pipes_drawn_against_the_flow": reverse, "observed": "%s: %s" % (type(e).__name__, str(e)[:120])}
    return {"checks": {"sectioned-pipe-equals-pipes-in-series-for-every-labelling-and-orientation":
                       {"ok": witness is None, "cases": cases, "witness": witness},
                       "orientation/hydraulic-mode-with-feed-temperature-different-from-start-temperature":
                       {"ok": o_witness is None, "cases": o_cases, "witness": o_witness}}}


def engine_equivalence(inp):
    """property C07 natively: use_numba=True and use_numba=False give the same result tables (rtol 1e-9) on networks that
    reach the branch conditions of the kernels: reverse flow, temperature differences along gas branches, zero-flow
    branches, outer != inner diameter, heat exchanger against the flow, heat consumers, all friction models and modes"""
    import pandapipes as pp
    cases, witness = 0, None
    zf_cases, zf_witness = 0, None

    def gas():
        net = pp.create_empty_network(fluid="hgas")
        j = list(pp.create_junctions(net, 6, pn_bar=10., tfluid_k=[330., 320., 310., 300., 290., 285.], height_m=[0, 5, 2, 8, 1, 3]))
        pp.create_ext_grid(net, j[0], p_bar=10., t_k=340.)
        pp.create_pipe_from_parameters(net, j[0], j[1], 0.8, 150., k_mm=0.1, u_w_per_m2k=8., sections=3, text_k=280.)
        pp.create_pipe_from_parameters(net, j[2], j[1], 0.6, 120., k_mm=0.2, u_w_per_m2k=8., text_k=280.)      # against the flow
        pp.create_pipe_from_parameters(net, j[2], j[3], 0.5, 120., k_mm=0.2, u_w_per_m2k=8., sections=2, text_k=280.)
        pp.create_pipe_from_parameters(net, j[4], j[3], 0.4, 100., k_mm=0.2, u_w_per_m2k=8., text_k=280.)      # against the flow
        pp.create_pipe_from_parameters(net, j[4], j[5], 0.4, 100., k_mm=0.2, u_w_per_m2k=8., text_k=280.)      # dead end: zero flow
        pp.create_sink(net, j[3], 0.05)
        pp.create_sink(net, j[4], 0.08)
        return net

    def water():
        net = pp.create_empty_network(fluid="water")
        j = list(pp.create_junctions(net, 6, pn_bar=5., tfluid_k=330., height_m=[0, 3, 1, 0, 2, 0]))
        pp.create_circ_pump_const_pressure(net, j[5], j[0], p_flow_bar=6., plift_bar=2., t_flow_k=370.)
        pp.create_pipe_from_parameters(net, j[0], j[1], 0.5, 100., outer_diameter_mm=140., k_mm=0.1, u_w_per_m2k=15., sections=2, text_k=285.)
        pp.create_heat_exchanger(net, j[2], j[1], 15000., 100.)                                             # drawn against the flow
        pp.create_heat_consumer(net, j[2], j[3], qext_w=20000., deltat_k=15.)
        pp.create_pipe_from_parameters(net, j[1], j[4], 0.3, 80., outer_diameter_mm=100., k_mm=0.1, u_w_per_m2k=15., text_k=285.)
        pp.create_heat_consumer(net, j[4], j[3], qext_w=8000., controlled_mdot_kg_per_s=0.3)
        pp.create_pipe_from_parameters(net, j[5], j[3], 0.5, 100., outer_diameter_mm=140., k_mm=0.1, u_w_per_m2k=15., text_k=285.)  # against the flow
        return net

    def res(net):
        return {t: net[t].to_numpy(dtype=float, copy=True) for t in net.keys()
                if isinstance(t, str) and t.startswith("res_") and hasattr(net[t], "to_numpy") and len(net[t])}

    for tag, build, modes in (("gas", gas, ("hydraulics", "sequential", "bidirectional")), ("water", water, ("sequential", "bidirectional"))):
        for mode in modes:
            for friction in ("nikuradse", "swamee-jain", "colebrook"):
                cases += 1
                out = {}
                for use_numba in (False, True):
                    net = build()
                    try:
                        pp.pipeflow(net, mode=mode, friction_model=friction, use_numba=use_numba)
                        out[use_numba] = res(net)
                    except Exception as e:  # noqa
                        out[use_numba] = "%s: %s" % (type(e).__name__, str(e)[:100])
                a, b = out[False], out[True]
                if isinstance(a, str) or isinstance(b, str):
                    bad = None if (isinstance(a, str) and isinstance(b, str) and a.split(":")[0] == b.split(":")[0]) else \
                        "numpy: %s / numba: %s" % (a if isinstance(a, str) else "results", b if isinstance(b, str) else "results")
                else:
                    diff = []
                    for tn in a:
                        x, y = a[tn].copy(), b[tn].copy()
                        if x.shape == y.shape and tn in ("res_pipe", "res_valve"):
                            # friction factor / Reynolds number reported on ZERO-FLOW rows are judged separately (finding F33)
                            cols = list(net["res_" + tn[4:]].columns)
                            zero = np.abs(np.nan_to_num(x[:, cols.index("mdot_from_kg_per_s")])) < 1e-12
                            for cn in ("lambda", "reynolds"):
                                if cn in cols and zero.any():
                                    zf_cases += 1
                                    cx, cy = x[zero, cols.index(cn)], y[zero, cols.index(cn)]
                                    if not np.allclose(cx, cy, rtol=1e-9, atol=1e-11, equal_nan=True) and zf_witness is None:
                                        zf_witness = {"net": tag, "mode": mode, "friction_model": friction, "column": cn,
                                                      "numpy": cx.tolist(), "numba": cy.tolist()}
                                    x[zero, cols.index(cn)] = 0.
                                    y[zero, cols.index(cn)] = 0.
                        if x.shape != y.shape or not np.allclose(x, y, rtol=1e-9, atol=1e-11, equal_nan=True):
                            diff.append((tn, float(np.nanmax(np.abs(x - y))) if x.shape == y.shape else "shape"))
                    bad = ("tables differ between the engines: %s" % diff) if diff else None
                if bad and witness is None:
                    witness = {"net": tag, "mode": mode, "friction_model": friction, "observed": bad}
    return {"checks": {"engines-agree": {"ok": witness is None, "cases": cases, "witness": witness},
                       "engines-agree/friction-factor-on-zero-flow-branches": {"ok": zf_witness is None, "cases": zf_cases, "witness": zf_witness}}}


def main():
    inp = json.load(sys.stdin)
    fn = globals()[inp["what"]]
    print(json.dumps(fn(inp), default=str))


if __name__ == "__main__":
    main()
