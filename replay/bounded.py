"""Bounded stand-ins (run under the repository's interpreter).  JSON in (stdin) -> one JSON line out.
Every result states its scope; none of this is counted as proved."""
import itertools
import json
import os
import sys

import numpy as np

sys.path.insert(0, os.path.dirname(os.path.abspath(__file__)))


def pump_array(inp):
    import pandapipes
    from pandapipes.std_types.std_type_class import PumpStdType
    net = pandapipes.create_empty_network(fluid="water")
    pumps = [net.std_types["pump"][k] for k in ("P1", "P2", "P3")]
    pumps.append(PumpStdType.from_list("synthetic", np.array([0., 10., 20., 30.]), np.array([2., 1.5, 0.5, -1.0]), 2))
    grid = [-2e-3, -1e-9, 0.0, 1e-3, 5e-3, 5e-2]
    cases, witness = 0, None
    for pump in pumps:
        for n in range(0, 4):
            for vs in itertools.product(grid, repeat=n):
                cases += 1
                exp = [pump.get_pressure(float(v)) for v in vs]
                try:
                    got = pump.get_pressure(np.array(vs, dtype=float))
                    got = np.asarray(got, dtype=float)
                    ok = got.shape == (n,) and np.allclose(got, np.array(exp, dtype=float), rtol=1e-12, atol=0) \
                        and bool(np.all(got >= 0))
                    obs = got.tolist()
                except Exception as e:  # noqa
                    ok, obs = False, "%s: %s" % (type(e).__name__, str(e)[:120])
                if not ok and witness is None:
                    witness = {"pump": pump.name, "vdot": list(vs), "scalar": [float(x) for x in exp], "array": obs}
    return {"ok": witness is None, "cases": cases, "witness": witness}


def sum_by_group(inp):
    """both implementations of _sum_by_group against the group-sum specification"""
    from pandapipes.pf.internals_toolbox import _sum_by_group
    labels = [0, 1, 2, 7, 99999, 100000, 300000]
    cases, witness = 0, None
    for n in range(0, int(inp.get("max_len", 5)) + 1):
        for idx in itertools.product(labels, repeat=n):
            spec = {}
            for k, l in enumerate(idx):
                a, b = spec.get(l, (0.0, 0.0))
                spec[l] = (a + 2.0 ** k, b + 1.0)
            keys = sorted(spec)
            for use_numba in (False, True):
                cases += 1
                ind = np.array(idx, dtype=np.int64)
                v1 = np.array([2.0 ** k for k in range(n)], dtype=np.float64)
                v2 = np.ones(n, dtype=np.float64)
                try:
                    res = _sum_by_group(use_numba, ind, v1, v2)
                    ok = (list(np.asarray(res[0]).tolist()) == keys
                          and np.asarray(res[1]).tolist() == [spec[k][0] for k in keys]
                          and np.asarray(res[2]).tolist() == [spec[k][1] for k in keys]
                          and ind.tolist() == list(idx))
                    obs = [np.asarray(r).tolist() for r in res]
                except Exception as e:  # noqa
                    ok, obs = False, "%s: %s" % (type(e).__name__, str(e)[:120])
                if not ok and witness is None:
                    witness = {"indices": list(idx), "use_numba": use_numba, "observed": obs,
                               "expected": [keys, [spec[k][0] for k in keys], [spec[k][1] for k in keys]]}
    return {"ok": witness is None, "cases": cases, "witness": witness}


def _relabel_net(jl, pl, porder, jorder, use_numba, mode="sequential"):
    import pandapipes as pp
    net = pp.create_empty_network(fluid="water")
    # physical system: junctions A,B,C,D; pipes A-B (1 section), B-C (2), C-D (3); valve B-D; sinks at C, D
    heights = {0: 0.0, 1: 2.0, 2: 5.0, 3: 1.0}
    for j in jorder:
        pp.create_junction(net, pn_bar=5, tfluid_k=350, height_m=heights[j], index=jl[j])
    pipes = {0: (0, 1, 0.4, 1, 100.), 1: (1, 2, 0.9, 2, 80.), 2: (2, 3, 1.3, 3, 65.)}
    for k in porder:
        a, b, le, sec, d = pipes[k]
        pp.create_pipe_from_parameters(net, jl[a], jl[b], le, d, sections=sec, u_w_per_m2k=15 + 5 * k, text_k=283,
                                       index=pl[k])
    pp.create_valve(net, jl[1], jl[3], "ju", 50., opened=True, loss_coefficient=1.0)
    pp.create_valve(net, jl[2], pl[2], "pi", 60., opened=True, loss_coefficient=0.5)
    pp.create_ext_grid(net, jl[0], p_bar=5, t_k=350)
    pp.create_sink(net, jl[2], 0.6)
    pp.create_sink(net, jl[3], 0.3)
    pp.pipeflow(net, mode=mode, use_numba=use_numba)
    return net


def relabel_pipeline(inp):
    """whole calculation under relabelling / row permutation of junctions and multi-section pipes"""
    jls = [[0, 1, 2, 3], [7, 3, 11, 5], [100001, 4, 250000, 17]]
    pls = [[0, 1, 2], [5, 2, 9], [200000, 3, 1]]
    jorders = [[0, 1, 2, 3], [2, 0, 3, 1]]
    ref = None
    cases, witness = 0, None
    for use_numba in (False, True):
        for jl in jls:
            for pl in pls:
                for porder in itertools.permutations(range(3)):
                    for jorder in jorders:
                        cases += 1
                        try:
                            net = _relabel_net(jl, pl, list(porder), jorder, use_numba)
                            got = {"junction": np.array([net.res_junction.loc[jl[j]].values for j in range(4)], dtype=float),
                                   "pipe": np.array([net.res_pipe.loc[pl[k]].values for k in range(3)], dtype=float),
                                   "valve": net.res_valve.values.astype(float), "sink": net.res_sink.values.astype(float),
                                   "ext_grid": net.res_ext_grid.values.astype(float)}
                        except Exception as e:  # noqa
                            got = "%s: %s" % (type(e).__name__, str(e)[:160])
                        if ref is None:
                            ref = got
                            if isinstance(ref, str):
                                return {"ok": False, "cases": cases, "witness": {"error": ref}}
                            continue
                        bad = None
                        if isinstance(got, str):
                            bad = got
                        else:
                            for tname in ref:
                                if got[tname].shape != ref[tname].shape or not np.allclose(
                                        got[tname], ref[tname], rtol=1e-7, atol=1e-9, equal_nan=True):
                                    bad = "res_%s differs: %s vs %s" % (tname, got[tname].tolist(), ref[tname].tolist())
                                    break
                        if bad and witness is None:
                            witness = {"junction_labels": jl, "pipe_labels": pl, "pipe_creation_order": list(porder),
                                       "junction_creation_order": jorder, "use_numba": use_numba, "what": bad[:600]}
    return {"ok": witness is None, "cases": cases, "witness": witness}


def main():
    inp = json.load(sys.stdin)
    fn = globals()[inp["what"]]
    print(json.dumps(fn(inp), default=str))


if __name__ == "__main__":
    main()
