"""Replay driver, executed by /venv/bin/python with PYTHONPATH=<repo>/src: reads a replay file body
(JSON on stdin), dispatches to the handler, prints one JSON line {reproduced, observed}."""
import importlib
import json
import sys
import os
sys.path.insert(0, os.path.dirname(os.path.abspath(__file__)))


def main():
    body = json.load(sys.stdin)
    h = body.get("handler")
    mod = importlib.import_module("handlers")
    fn = getattr(mod, "h_" + h, None)
    if fn is None:
        print(json.dumps({"reproduced": False, "observed": "unknown handler %s" % h}))
        return
    try:
        out = fn(body.get("input") or {}, body)
    except Exception as e:  # noqa
        import traceback
        out = {"reproduced": False, "observed": "handler raised: %s" % traceback.format_exc()[-1500:]}
    print(json.dumps(out, default=str))


if __name__ == "__main__":
    main()
