"""Exercises the library facts (assumption A4) that pvc/npmodel.py and pvc/ev.py build into the verification
conditions against the INSTALLED numpy / scipy, on small exhaustive or randomised inputs.  This does not prove the
model; it guards against an encoder that states something the libraries do not do.  Run by ./setup.sh; exit 1 on
the first disagreement.  (Repository interpreter.)"""
import itertools
import sys

import numpy as np


def fail(what, *args):
    print("MODEL-MISMATCH", what, *args)
    sys.exit(1)


def masks(n):
    return [np.array(m, dtype=bool) for m in itertools.product([False, True], repeat=n)]


def main():
    rng = np.random.default_rng(0)
    n_checks = 0
    for n in range(0, 6):
        a = rng.normal(size=n)
        for m in masks(n):
            # compress: order preserving, sel/rank inverse, count = sum(mask)
            sel = np.arange(n)[m]
            if list(a[m]) != [a[k] for k in range(n) if m[k]]:
                fail("compress order", m)
            if len(sel) != m.sum():
                fail("count", m)
            cs = np.cumsum(m)
            for k in range(n):
                if m[k] and sel[cs[k] - 1] != k:
                    fail("cumsum-1 is the rank of a selected position", m, k)
            # masked store keeps the other positions; compressed value lands at its selected position
            b = a.copy()
            b[m] = a[m] * 2
            if not np.array_equal(b, np.where(m, a * 2, a)):
                fail("masked store", m)
            # store of a compressed array into a masked column of a 2-D array
            p = rng.normal(size=(n, 3))
            q = p.copy()
            q[m, 1] = p[m, 2]
            if not np.array_equal(q[:, 1], np.where(m, p[:, 2], p[:, 1])) or not np.array_equal(q[:, [0, 2]], p[:, [0, 2]]):
                fail("masked column store", m)
            # outer-index store (extract_results_active_pit)
            act = rng.normal(size=(int(m.sum()), 3))
            full = p.copy()
            rows = np.arange(n)[m]
            cols = np.array([0, 2])
            full[rows[:, None], cols[None, :]] = act[:, cols]
            for k in range(n):
                for c in range(3):
                    exp = act[cs[k] - 1, c] if (m[k] and c in (0, 2)) else p[k, c]
                    if full[k, c] != exp:
                        fail("outer-index store", m, k, c)
            # np.any / np.all of a compressed array = quantifier over the selected positions
            v = rng.normal(size=n) > 0
            if bool(np.any(v[m])) != any(v[k] for k in range(n) if m[k]) or bool(np.all(v[m])) != all(v[k] for k in range(n) if m[k]):
                fail("any/all of compressed", m)
            n_checks += 6
    # fancy store with unique indices, fancy -= with unique indices
    for n in range(1, 6):
        for idx in itertools.permutations(range(n), min(n, 3)):
            idx = np.array(idx)
            a = rng.normal(size=n)
            vals = rng.normal(size=len(idx))
            b = a.copy()
            b[idx] = vals
            c = a.copy()
            c[idx] -= vals
            for j in range(n):
                hit = np.where(idx == j)[0]
                if (b[j] != (vals[hit[0]] if len(hit) else a[j])) or (c[j] != (a[j] - vals[hit[0]] if len(hit) else a[j])):
                    fail("fancy store / augmented store", idx, j)
            n_checks += 2
    # np.max / np.min propagate NaN; nan_to_num; isnan; astype(bool) of a flag
    for n in range(1, 5):
        for pos in itertools.product([0., 1., np.nan], repeat=n):
            a = np.array(pos)
            if np.isnan(a).any() != np.isnan(np.max(a)) or np.isnan(a).any() != np.isnan(np.min(a)):
                fail("np.max/np.min NaN propagation", a)
            if not np.array_equal(np.nan_to_num(a), np.where(np.isnan(a), 0., a)):
                fail("nan_to_num", a)
            n_checks += 2
    # np.where(A == B[:, None]): all pairs, row-major
    for _ in range(50):
        A = rng.integers(0, 4, size=rng.integers(0, 5))
        B = rng.integers(0, 4, size=rng.integers(0, 4))
        s, b = np.where(A == B[:, None])
        exp = [(i, j) for i in range(len(B)) for j in range(len(A)) if A[j] == B[i]]
        if list(zip(s.tolist(), b.tolist())) != exp:
            fail("np.where pair enumeration", A, B)
        n_checks += 1
    # np.isin / setdiff1d / concatenate
    for _ in range(50):
        a = rng.integers(0, 6, size=rng.integers(0, 6))
        b = rng.integers(0, 6, size=rng.integers(0, 6))
        if np.isin(a, b).tolist() != [x in set(b.tolist()) for x in a.tolist()]:
            fail("np.isin", a, b)
        if sorted(np.setdiff1d(a, b).tolist()) != sorted(set(a.tolist()) - set(b.tolist())):
            fail("np.setdiff1d", a, b)
        if np.concatenate([a, b]).tolist() != a.tolist() + b.tolist():
            fail("np.concatenate", a, b)
        n_checks += 3
    # scipy: duplicate COO entries are summed; breadth_first_order returns the reachable set, each node once
    from scipy.sparse import coo_matrix, csr_matrix
    from scipy.sparse.csgraph import breadth_first_order
    for _ in range(50):
        k = rng.integers(1, 8)
        r, c = rng.integers(0, 3, size=k), rng.integers(0, 3, size=k)
        v = rng.normal(size=k)
        M = csr_matrix((v, (r, c)), shape=(3, 3)).toarray()
        E = np.zeros((3, 3))
        for a_, b_, w in zip(r, c, v):
            E[a_, b_] += w
        if not np.allclose(M, E):
            fail("csr_matrix sums duplicate positions")
        n_nodes = 5
        ke = rng.integers(0, 7)
        fr, to = rng.integers(0, n_nodes, size=ke), rng.integers(0, n_nodes, size=ke)
        adj = coo_matrix((np.ones(ke), (fr, to)), shape=(n_nodes, n_nodes))
        order = breadth_first_order(adj, 0, directed=True, return_predecessors=False)
        reach, todo = {0}, [0]
        while todo:
            u = todo.pop()
            for a_, b_ in zip(fr, to):
                if a_ == u and b_ not in reach:
                    reach.add(int(b_))
                    todo.append(int(b_))
        if sorted(order.tolist()) != sorted(reach) or len(set(order.tolist())) != len(order):
            fail("breadth_first_order = reachable set", fr, to)
        n_checks += 2
    print("model-validation-ok", n_checks, "checks")


if __name__ == "__main__":
    main()
