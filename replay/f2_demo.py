import numpy as np, pandapipes as pp
def build(idx):
    net = pp.create_empty_network(fluid="water")
    js = pp.create_junctions(net, 3, pn_bar=5, tfluid_k=350)
    pp.create_ext_grid(net, js[0], p_bar=5, t_k=350)
    pp.create_sink(net, js[1], 0.5); pp.create_sink(net, js[2], 0.4)
    pp.create_pipe_from_parameters(net, js[0], js[1], 0.5, 100, sections=2, u_w_per_m2k=20, text_k=280, index=idx[0])
    pp.create_pipe_from_parameters(net, js[1], js[2], 1.5, 80, sections=3, u_w_per_m2k=30, text_k=280, index=idx[1])
    pp.pipeflow(net, mode="sequential")
    return net
a = build([2, 5]); b = build([5, 2])
print(a.res_pipe[["t_to_k", "t_outlet_k"]]); print(b.res_pipe[["t_to_k","t_outlet_k"]])
ok = np.allclose(a.res_pipe.t_outlet_k.values, b.res_pipe.t_outlet_k.values, atol=1e-6, rtol=0) and np.allclose(b.res_pipe.t_outlet_k.values, b.res_pipe.t_to_k.values, atol=1e-6, rtol=0)
print("ok" if ok else "C06 VIOLATED: t_outlet_k depends on the pipe labels")
raise SystemExit(0 if ok else 1)
