"""Replay handlers: execute the REAL functions of the working tree on concrete inputs taken from
a solver counter-model (or found by a seeded random search when the model's inputs do not
exhibit the difference under true floating-point functions)."""
import importlib
import math
import os
import random

import numpy as np


def get_fn(key):
    mod, qn = key.split(":")
    m = importlib.import_module(mod)
    obj = m
    for p in qn.split("."):
        obj = getattr(obj, p)
    return obj


def build_args(args):
    out = []
    for a in args:
        if a["type"] == "pit":
            d = [[(np.nan if x is None else x) for x in row] for row in a["data"]]
            out.append(np.array(d, dtype=np.float64))
        elif a["type"] == "arr":
            k = a.get("kind", "f")
            d = [(np.nan if x is None else x) for x in a["data"]]
            if k == "i":
                out.append(np.array(d, dtype=np.int32))
            elif k == "b":
                out.append(np.array(d, dtype=bool))
            else:
                out.append(np.array(d, dtype=np.float64))
        elif a["type"] == "const":
            out.append(a["value"])
        elif a["type"] == "obj":
            out.append(make_obj(a["value"]))
        else:
            raise ValueError(a["type"])
    return out


def make_obj(desc):
    if desc is None:
        return None
    if desc.get("kind") == "net":
        import pandapipes
        return pandapipes.create_empty_network(fluid=desc.get("fluid", "hgas"))
    if desc.get("kind") == "fluid":
        import pandapipes
        net = pandapipes.create_empty_network(fluid=desc.get("name", "water"))
        return net.fluid
    raise ValueError(desc)


def differs(x, y, tol=1e-9):
    x = np.asarray(x, dtype=np.float64) if not isinstance(x, (bool, np.bool_)) else np.asarray(x)
    y = np.asarray(y, dtype=np.float64) if not isinstance(y, (bool, np.bool_)) else np.asarray(y)
    if x.shape != y.shape:
        return True
    if x.dtype == bool or y.dtype == bool:
        return bool(np.any(x.astype(bool) != y.astype(bool)))
    nx, ny = np.isnan(x), np.isnan(y)
    if np.any(nx != ny):
        return True
    ok = ~nx
    if not np.any(ok):
        return False
    with np.errstate(all="ignore"):
        d = np.abs(x[ok] - y[ok])
        s = np.maximum(np.abs(x[ok]), np.abs(y[ok]))
        infmis = np.isinf(x[ok]) != np.isinf(y[ok])
        fin = np.isfinite(d)
        return bool(np.any(infmis) or np.any(d[fin] > tol * np.maximum(1e-300, s[fin])))


def as_set(x, n):
    x = np.asarray(x)
    if x.dtype == bool:
        return set(np.where(x)[0].tolist())
    return set(int(v) for v in x.tolist())


def call_pair(keys, args, output, mode):
    f1, f2 = get_fn(keys[0]), get_fn(keys[1])
    import copy
    with np.errstate(all="ignore"):
        r1 = f1(*copy.deepcopy(args))
        r2 = f2(*copy.deepcopy(args))
    o1 = r1[output] if isinstance(r1, (tuple, list)) else r1
    o2 = r2[output] if isinstance(r2, (tuple, list)) else r2
    if mode == "set":
        s1, s2 = as_set(o1, None), as_set(o2, None)
        return s1 != s2, (sorted(s1), sorted(s2))
    return differs(o1, o2), (np.asarray(o1).tolist(), np.asarray(o2).tolist())


def randomise(args, search, rng):
    """perturb float entries of the model's args inside the declared ranges"""
    new = []
    rngs = (search or {}).get("ranges", {})
    for a in args:
        a = dict(a)
        if a["type"] == "pit":
            cols = rngs.get(a["name"], {})
            data = [list(r) for r in a["data"]]
            for row in data:
                for c, (lo, hi) in cols.items():
                    row[int(c)] = rng.choice([lo, hi, rng.uniform(lo, hi), 0.0 if lo <= 0 <= hi else lo])
            a["data"] = data
        elif a["type"] == "arr" and a.get("kind", "f") == "f":
            if a["name"] in rngs:
                lo, hi = rngs[a["name"]]
                a["data"] = [rng.choice([lo, hi, rng.uniform(lo, hi)]) for _ in a["data"]]
        new.append(a)
    return new


def h_twin_kernel(inp, body):
    keys = inp["functions"]
    if inp.get("args") is None:
        return {"reproduced": False, "observed": "no small-world counter-model available"}
    args = build_args(inp["args"])
    bad, obs = call_pair(keys, args, inp["output"], inp.get("mode"))
    if bad:
        return {"reproduced": True, "observed": {"outputs": obs, "args": inp["args"]}}
    rng = random.Random(int(os.environ.get("VERIF_SEED", "0") or 0))
    for _ in range(300):
        a2 = randomise(inp["args"], inp.get("search"), rng)
        try:
            bad, obs = call_pair(keys, build_args(a2), inp["output"], inp.get("mode"))
        except Exception:  # noqa
            continue
        if bad:
            return {"reproduced": True, "observed": {"outputs": obs, "args": a2,
                                                     "found_by": "random search around the model"}}
    return {"reproduced": False, "observed": {"outputs": obs}}


def h_nikuradse_gas_constant(inp, body):
    """the documented Nikuradse term 1/(-2 log10(k/(3.71 d)))^2 vs. the gas kernels' 1/(2 log10(d/k)+1.14)^2"""
    if inp.get("use_numba"):
        from pandapipes.pf.derivative_toolbox_numba import calc_lambda_nikuradse_comp_numba as f
    else:
        from pandapipes.pf.derivative_toolbox import calc_lambda_nikuradse_comp_np as f
    m = np.array([0.3]); d = np.array([0.1]); k = np.array([1e-4]); eta = np.array([1.1e-5]); a = np.array([0.00785])
    re, lam_lam, lam_t = f(m, d, k, eta, a)
    doc = 1.0 / (-2 * math.log10(k[0] / (3.71 * d[0]))) ** 2
    rel = abs(lam_t[0] - doc) / doc
    return {"reproduced": bool(rel > 1e-9),
            "observed": {"lambda_turbulent_code": float(lam_t[0]), "documented": doc, "relative_deviation": rel,
                         "input": {"d": 0.1, "k": 1e-4}}}


def _unjson(v):
    if isinstance(v, dict) and "__tuple__" in v:
        return tuple(v["__tuple__"])
    return v


def h_init_options(inp, body):
    """three concrete option layers -> real init_options on a minimal net; compares the value in
    force for one key with the value the documented precedence yields"""
    import pandapipes
    from pandapipes.pf.pipeflow_setup import init_options
    import copy
    net = pandapipes.create_empty_network(fluid="water")
    user = inp.get("user")
    if user is not None:
        net["user_pf_options"] = {k: _unjson(v) for k, v in user.items()}
    kwargs = {k: _unjson(v) for k, v in inp["kwargs"].items()}
    user_before = copy.deepcopy(net.get("user_pf_options"))
    init_options(net, **kwargs)
    key = inp["key"]
    opts = net["_options"]
    exp_p, exp_v = inp["expected_present"], _unjson(inp.get("expected_value"))
    got_p = key in opts
    got_v = opts.get(key)
    bad = (got_p != exp_p) or (exp_p and got_v != exp_v)
    mutated = user_before != net.get("user_pf_options")
    return {"reproduced": bool(bad or (inp.get("check_frame") and mutated)),
            "observed": {"key": key, "present": got_p, "value": repr(got_v), "expected_present": exp_p,
                         "expected_value": repr(exp_v), "user_options_mutated": mutated,
                         "user": user, "kwargs": inp["kwargs"]}}


def h_doc_default(inp, body):
    import re
    from pandapipes.pf import pipeflow_setup as ps
    doc = ps.init_options.__doc__
    m = re.search(r"\*\*%s\*\*\s+\((\w+)\):\s+([^\s]+)\s+-" % re.escape(inp["option"]), doc)
    actual = ps.default_options.get(inp["option"])
    documented = m.group(2).strip('"') if m else None
    try:
        same = float(documented) == float(actual)
    except (TypeError, ValueError):
        same = str(documented) == str(actual)
    return {"reproduced": not same, "observed": {"option": inp["option"], "documented": documented,
                                                 "default_options": repr(actual)}}


def h_driver_stage(inp, body):
    """Runs the REAL stage function (hydraulics / heat_transfer / bidirectional) and the real
    newton_raphson / finalize_iteration with the linear-solve function stubbed: the stub returns
    (new, old) arrays for every unknown of the stage.  The unknown named in the obligation changes
    by `delta` in every iteration, all others do not change, the residual is zero.  The property
    demands that the stage does not return normally (it must raise PipeflowNotConverged)."""
    import pandapipes
    import sys
    importlib.import_module("pandapipes.pipeflow")
    pf = sys.modules["pandapipes.pipeflow"]
    from pandapipes.pf.pipeflow_setup import init_options, PipeflowNotConverged
    stage, method, bad = inp["stage"], inp["method"], inp["unknown"]
    unknowns = inp["unknowns"]
    if "delta" not in inp:
        # try a large change and one between the mass-flow and temperature tolerances
        for d in (1.0, 1e-4):
            out = h_driver_stage(dict(inp, delta=d), body)
            if out["reproduced"]:
                return out
        return out
    delta = float(inp["delta"])
    net = pandapipes.create_empty_network(fluid="water")
    init_options(net, nonlinear_method=method, mode="bidirectional" if stage == "bidirectional" else "sequential",
                 max_iter_hyd=3, max_iter_therm=3, max_iter_bidirect=3)
    net["_active_pit"] = {"branch": np.zeros((1, 39)), "node": np.zeros((1, 18))}
    net["_pit"] = {"branch": np.zeros((1, 39)), "node": np.zeros((1, 18))}
    counter = {"n": 0}

    def stub(net_):
        counter["n"] += 1
        res, filt = [], []
        for u in unknowns:
            if u == bad:
                res += [np.array([delta * counter["n"]]), np.array([delta * (counter["n"] - 1)])]
            elif u == "residual":
                continue
            else:
                res += [np.array([0.0]), np.array([0.0])]
            filt.append(np.array([0]) if u == "mdotslack" else None)
        resid = np.array([delta if bad == "residual" else 0.0])
        return res, resid, filt
    names = {"hydraulics": "solve_hydraulics", "heat_transfer": "solve_temperature",
             "bidirectional": "solve_bidirectional"}
    saved = {}
    for nm in (names[stage], "reduce_pit", "extract_results_active_pit", "identify_active_nodes_branches",
               "rerun_hydraulics", "rerun_heat_transfer"):
        saved[nm] = getattr(pf, nm)
    try:
        setattr(pf, names[stage], stub)
        for nm in ("reduce_pit", "extract_results_active_pit", "identify_active_nodes_branches",
                   "rerun_hydraulics", "rerun_heat_transfer"):
            setattr(pf, nm, lambda *a, **k: None)
        fn = getattr(pf, stage if stage != "heat_transfer" else "heat_transfer")
        outcome = "returned"
        try:
            fn(net)
        except PipeflowNotConverged:
            outcome = "PipeflowNotConverged"
        except Exception as e:  # noqa
            outcome = "raised %s: %s" % (type(e).__name__, e)
    finally:
        for nm, f in saved.items():
            setattr(pf, nm, f)
    bad_accept = outcome == "returned"
    return {"reproduced": bool(bad_accept),
            "observed": {"stage": stage, "method": method, "unknown_changing_by": {bad: delta},
                         "tolerances": {k: net["_options"][k] for k in ("tol_m", "tol_p", "tol_T", "tol_res")},
                         "outcome": outcome, "net.converged": bool(net.converged),
                         "iterations": counter["n"],
                         "internal_results_keys": sorted(net.get("_internal_results", {}).keys())}}


def h_circ_pump_direction(inp, body):
    """a mass-flow circulation pump with a negative set flow: the hydraulic calculation converges,
    then CirculationPump.extract_results raises UserWarning -- after junction and pipe results have
    been written and with net.converged == True"""
    import pandapipes as pp
    net = pp.create_empty_network(fluid="water")
    j = pp.create_junctions(net, 2, pn_bar=5, tfluid_k=300)
    pp.create_circ_pump_const_mass_flow(net, j[0], j[1], p_flow_bar=5, mdot_flow_kg_per_s=-1.0, t_flow_k=350)
    pp.create_pipe_from_parameters(net, j[1], j[0], 1.0, 0.05, k_mm=0.1)
    outcome = "returned"
    try:
        pp.pipeflow(net, mode="hydraulics", max_iter_hyd=50)
    except Exception as e:  # noqa
        outcome = "%s" % type(e).__name__
    numbers = {t: int(np.isfinite(net[t].values.astype(float)).sum()) for t in net.keys()
               if isinstance(t, str) and t.startswith("res_") and hasattr(net[t], "values") and net[t].size}
    bad = outcome not in ("returned", "PipeflowNotConverged") or \
        (outcome != "returned" and (bool(net.converged) or any(v > 0 for v in numbers.values())))
    return {"reproduced": bool(bad), "observed": {"outcome": outcome, "net.converged": bool(net.converged),
                                                  "finite_result_entries": numbers}}


def h_thermal_mix_weight(inp, body):
    """two water streams of 370 K and 280 K mix in one junction (no heat losses): the junction
    temperature must satisfy  sum_i m_i * (cp(T_i) + cp(T_n))/2 * (T_i - T_n) = 0"""
    import pandapipes as pp
    from scipy.optimize import brentq
    net = pp.create_empty_network(fluid="water")
    j = pp.create_junctions(net, 4, pn_bar=5, tfluid_k=300)
    pp.create_ext_grid(net, j[0], p_bar=5, t_k=370.0)
    pp.create_ext_grid(net, j[1], p_bar=5, t_k=280.0)
    for a in (j[0], j[1]):
        pp.create_pipe_from_parameters(net, a, j[2], 0.05, 0.1, k_mm=0.1, u_w_per_m2k=0.0)
    pp.create_pipe_from_parameters(net, j[2], j[3], 0.05, 0.1, k_mm=0.1, u_w_per_m2k=0.0)
    pp.create_sink(net, j[3], mdot_kg_per_s=3.0)
    pp.pipeflow(net, mode="sequential", use_numba=bool(inp.get("use_numba")), tol_T=1e-9, max_iter_therm=100)
    cp = net.fluid.get_heat_capacity
    m = np.abs(net.res_pipe.mdot_from_kg_per_s.values[:2])
    tin = net.res_pipe.t_to_k.values * 0 + np.nan
    t_streams = np.array([370.0, 280.0])

    def balance(tn):
        return float(np.sum(m * (cp(t_streams) + cp(tn)) / 2 * (t_streams - tn)))
    expected = brentq(balance, 280.0, 370.0, xtol=1e-12)
    got = float(net.res_junction.t_k.values[2])
    return {"reproduced": bool(abs(got - expected) > 1e-4),
            "observed": {"t_mix_pandapipes": got, "t_mix_energy_balance": expected,
                         "difference_k": got - expected, "mass_flows": m.tolist()}}


def h_pipeflow_kwargs(inp, body):
    """an option passed explicitly to pipeflow() with the value None / 0 / '' must be the value in
    force (call > user > default)"""
    import pandapipes as pp
    key = inp["key"]
    bad = []
    for val in (None, 0, "", False):
        net = pp.create_empty_network(fluid="water")
        j = pp.create_junctions(net, 2, pn_bar=5, tfluid_k=300)
        pp.create_ext_grid(net, j[0], p_bar=5, t_k=300)
        pp.create_pipe_from_parameters(net, j[0], j[1], 0.1, 0.1)
        pp.create_sink(net, j[1], 0.1)
        pp.set_user_pf_options(net, **{key: "user_value"})
        try:
            pp.pipeflow(net, **{key: val})
        except Exception:  # noqa
            pass
        got = net.get("_options", {}).get(key, "<missing>")
        if got != val or (got is not val and val is None):
            bad.append({"passed": repr(val), "in_force": repr(got)})
    return {"reproduced": bool(bad), "observed": {"key": key, "mismatches": bad}}


def h_pump_array(inp, body):
    from pandapipes.std_types.std_type_class import PumpStdType
    import pandapipes
    if not inp:
        return {"reproduced": False, "observed": "no witness"}
    net = pandapipes.create_empty_network(fluid="water")
    if inp["pump"] in net.std_types["pump"]:
        pump = net.std_types["pump"][inp["pump"]]
    else:
        pump = PumpStdType.from_list("synthetic", np.array([0., 10., 20., 30.]), np.array([2., 1.5, 0.5, -1.0]), 2)
    vs = inp["vdot"]
    exp = [pump.get_pressure(float(v)) for v in vs]
    try:
        got = np.asarray(pump.get_pressure(np.array(vs, dtype=float)), dtype=float).tolist()
        bad = not np.allclose(got, exp, rtol=1e-12, atol=0) or any(g < 0 for g in got)
    except Exception as e:  # noqa
        got, bad = "%s: %s" % (type(e).__name__, e), True
    return {"reproduced": bool(bad), "observed": {"vdot": vs, "scalar_queries": [float(x) for x in exp], "array_query": got}}


def h_property_query(inp, body):
    """queries of the three kinds on the property class named in the obligation label"""
    import pandas as pd
    from pandapipes.properties import fluids as fl
    label = inp["label"]
    kind = label.split("/")[-1]
    meth = label.split("/")[0]
    cname = body["obligation"].split("/")[1]
    mk = {"FluidPropertyConstant": lambda: fl.FluidPropertyConstant(4.2),
          "FluidPropertyLinear": lambda: fl.FluidPropertyLinear(0.5, 2.0),
          "FluidPropertyInterExtra": lambda: fl.FluidPropertyInterExtra([0., 1., 2.], [1., 3., 4.]),
          "FluidPropertyPolynominal": lambda: fl.FluidPropertyPolynominal([0., 1., 2., 3.], [1., 2., 5., 10.], 2),
          "FluidPropertySutherland": lambda: fl.FluidPropertySutherland(1e-5, 273., 110.)}[cname]
    prop = mk()
    q = {"scalar": (3.0, 1.0), "ndarray": (np.array([3.0, 2.0]), np.array([1.0, 0.5])),
         "series": (pd.Series([3.0, 2.0]), pd.Series([1.0, 0.5]))}[kind]
    try:
        if meth == "value":
            out = prop.get_at_value(q[0])
        else:
            out = prop.get_at_integral_value(q[0], q[1])
        return {"reproduced": False, "observed": {"result": np.asarray(out).tolist()}}
    except Exception as e:  # noqa
        return {"reproduced": True, "observed": {"class": cname, "method": meth, "query_kind": kind,
                                                 "raised": "%s: %s" % (type(e).__name__, e)}}


def h_der_compressibility(inp, body):
    import pandapipes
    f = pandapipes.call_lib(inp["fluid"])
    slope = float(f.all_properties["compressibility"].slope)
    der = float(np.asarray(f.get_der_compressibility()).ravel()[0])
    return {"reproduced": slope != der, "observed": {"fluid": inp["fluid"], "compressibility_slope": slope,
                                                     "der_compressibility": der}}


def h_interextra_integral(inp, body):
    from pandapipes.properties import fluids as fl
    p = fl.FluidPropertyInterExtra([0., 1., 2.], [1., 3., 4.])
    a, b = float(p.get_at_integral_value(2.0, 1.0)), float(p.get_at_integral_value(1.0, 2.0))
    trap = (float(p.get_at_value(2.0)) + float(p.get_at_value(1.0))) / 2 * (2.0 - 1.0)
    bad = abs(a + b) > 1e-12 or abs(a - trap) > 1e-12
    return {"reproduced": bool(bad), "observed": {"I(2,1)": a, "I(1,2)": b, "trapezoid(2,1)": trap,
                                                  "table": {"x": [0, 1, 2], "y": [1, 3, 4]}}}


def _purity_net():
    import pandapipes as pp
    net = pp.create_empty_network(fluid="water")
    j = pp.create_junctions(net, 8, pn_bar=5, tfluid_k=320, height_m=[0, 1, 2, 3, 4, 5, 6, 7])
    pp.create_ext_grid(net, j[0], p_bar=6, t_k=350)
    pp.create_pipe_from_parameters(net, j[0], j[1], 0.3, 100., k_mm=0.1, sections=3, u_w_per_m2k=5.0, text_k=280)
    pp.create_pipe_from_parameters(net, j[1], j[2], 0.2, 80., k_mm=0.1, u_w_per_m2k=3.0)
    pp.create_valve(net, j[2], j[3], "ju", 100.0, opened=True, loss_coefficient=0.5)
    pp.create_heat_exchanger(net, j[3], j[4], qext_w=2000., inner_diameter_mm=100.0)
    pp.create_pump(net, j[4], j[5], "P1")
    # (an ACTIVE flow controller in series makes the thermal calculation of this net fail -- kept inactive here; active
    #  controllers are exercised by the oracles of C01 / C03 / C04)
    pp.create_flow_control(net, j[5], j[6], controlled_mdot_kg_per_s=0.5, control_active=False)
    pp.create_pipe_from_parameters(net, j[6], j[7], 0.2, 80., k_mm=0.1)
    pp.create_sink(net, j[7], 0.5)
    pp.create_sink(net, j[6], np.nan)            # a missing mass flow counts as 0 in the calculation and stays missing in the table
    pp.create_source(net, j[1], np.nan)
    pp.create_sink(net, j[2], 0.2, scaling=0.5)
    pp.create_source(net, j[3], 0.1)
    # optional column with missing entries (the column the pipe model post-processes)
    net.pipe["outer_diameter_mm"] = [np.nan, 120.0, np.nan]
    pp.set_user_pf_options(net, tol_m=1e-6)
    return net


def _snapshot(net):
    import copy
    snap = {}
    for k in list(net.keys()):
        if isinstance(k, str) and (k.startswith("_") or k.startswith("res_") or k == "converged"):
            continue
        v = net[k]
        try:
            snap[k] = copy.deepcopy(v)
        except Exception:  # noqa
            snap[k] = repr(v)
    return snap


def _diff(a, b):
    import pandas as pd
    out = []
    for k in sorted(set(a) | set(b)):
        x, y = a.get(k), b.get(k)
        if k in ("fluid", "std_types", "component_list"):
            continue
        if isinstance(x, pd.DataFrame) and isinstance(y, pd.DataFrame):
            same = x.shape == y.shape and list(x.columns) == list(y.columns) and x.index.equals(y.index)
            if same:
                for c in x.columns:
                    xv, yv = x[c].values, y[c].values
                    try:
                        eq = np.array_equal(xv, yv, equal_nan=True)
                    except TypeError:
                        eq = all((p == q) or (p != p and q != q) for p, q in zip(xv, yv))
                    if not eq:
                        out.append("%s.%s: %s -> %s" % (k, c, xv.tolist(), yv.tolist()))
            else:
                out.append("%s: shape/columns/index changed" % k)
        elif isinstance(x, dict) and isinstance(y, dict):
            if repr(sorted(x.items(), key=repr)) != repr(sorted(y.items(), key=repr)):
                out.append("%s: %r -> %r" % (k, x, y))
        elif k in ("fluid", "std_types", "component_list"):
            continue
        elif repr(x) != repr(y):
            out.append("%s: %r -> %r" % (k, x, y))
    return out


def h_purity_diff(inp, body):
    """pipeflow in several modes on a net with every kind of element: all non-underscore,
    non-result entries must be bit-identical afterwards (user_pf_options apart from hyd_flag)"""
    import pandapipes as pp
    changes = []
    for mode, kw in (("hydraulics", {}), ("sequential", {}), ("bidirectional", {}),
                     ("hydraulics", {"use_numba": False, "friction_model": "colebrook"})):
        net = _purity_net()
        before = _snapshot(net)
        try:
            pp.pipeflow(net, mode=mode, **kw)
        except Exception as e:  # noqa
            changes.append("%s: raised %s" % (mode, type(e).__name__))
        after = _snapshot(net)
        if isinstance(after.get("user_pf_options"), dict):
            after["user_pf_options"] = {k: v for k, v in after["user_pf_options"].items() if k != "hyd_flag"}
        d = _diff(before, after)
        changes += ["%s: %s" % (mode, x) for x in d]
    return {"reproduced": bool([c for c in changes if "raised" not in c]), "observed": {"changes": changes[:10]}}


def h_purity_history(inp, body):
    """a sequence of calculations with different modes / options on ONE net object vs. the same final
    call on a fresh net: results must be identical"""
    import pandapipes as pp
    hist = [dict(mode="sequential"), dict(mode="hydraulics", use_numba=False), dict(mode="bidirectional"),
            dict(mode="hydraulics", friction_model="swamee-jain")]
    net = _purity_net()
    for kw in hist:
        try:
            pp.pipeflow(net, **kw)
        except Exception:  # noqa
            pass
    fresh = _purity_net()
    pp.pipeflow(fresh, **hist[-1])
    diffs = []
    for t in [k for k in fresh.keys() if isinstance(k, str) and k.startswith("res_")]:
        a, b = net[t], fresh[t]
        if a.shape != b.shape or not np.array_equal(a.values.astype(float), b.values.astype(float), equal_nan=True):
            diffs.append(t)
    return {"reproduced": bool(diffs), "observed": {"result_tables_that_differ": diffs}}


def h_purity_any(inp, body):
    """property-level fallback replay of C12: reproduced iff the purity diff or the history comparison fails"""
    a = h_purity_diff(inp, body)
    b = h_purity_history(inp, body)
    return {"reproduced": bool(a["reproduced"] or b["reproduced"]), "observed": {"diff": a["observed"], "history": b["observed"]}}


def h_pump_volume_flow(inp, body):
    """a pump in a hot-water net: its reported lift must equal its curve at its reported volume flow"""
    import pandapipes as pp
    net = pp.create_empty_network(fluid="water")
    j = pp.create_junctions(net, 3, pn_bar=5, tfluid_k=360.0)
    pp.create_ext_grid(net, j[0], p_bar=3, t_k=360.0)
    pp.create_pump(net, j[0], j[1], "P1")
    pp.create_pipe_from_parameters(net, j[1], j[2], 0.5, 0.15, k_mm=0.1)
    pp.create_sink(net, j[2], 8.0)
    pp.pipeflow(net, mode="hydraulics")
    vdot = float(net.res_pump.vdot_m3_per_s.values[0])
    dp = float(net.res_pump.deltap_bar.values[0])
    curve = float(net.std_types["pump"]["P1"].get_pressure(vdot))
    return {"reproduced": bool(abs(dp - curve) > 1e-6 * max(1.0, abs(curve))),
            "observed": {"vdot_m3_per_s_reported": vdot, "deltap_bar_reported": dp, "curve_at_reported_vdot": curve,
                         "difference_bar": dp - curve, "fluid_temperature_k": 360.0}}


def h_circ_pump_out_of_service(inp, body):
    """one of two circulation pumps out of service"""
    import pandapipes as pp
    net = pp.create_empty_network(fluid="water")
    j = pp.create_junctions(net, 4, pn_bar=5, tfluid_k=330.0)
    pp.create_circ_pump_const_pressure(net, j[0], j[1], p_flow_bar=5, plift_bar=1.0, t_flow_k=350.0)
    pp.create_circ_pump_const_pressure(net, j[2], j[3], p_flow_bar=5, plift_bar=1.0, t_flow_k=350.0, in_service=False)
    pp.create_pipe_from_parameters(net, j[1], j[0], 0.2, 0.1)
    pp.create_pipe_from_parameters(net, j[3], j[2], 0.2, 0.1, in_service=False)
    try:
        pp.pipeflow(net, mode="hydraulics")
        return {"reproduced": False, "observed": {"converged": bool(net.converged)}}
    except Exception as e:  # noqa
        bad = type(e).__name__ != "PipeflowNotConverged"
        return {"reproduced": bool(bad), "observed": {"raised": "%s: %s" % (type(e).__name__, str(e)[:200])}}


def h_bounded(inp, body):
    """re-run a bounded stand-in; the violation is reproduced iff it fails again"""
    import bounded
    res = getattr(bounded, inp["what"])(inp)
    return {"reproduced": not res["ok"], "observed": res.get("witness")}


def _valid_args(pp, net, fn):
    """valid positional arguments for a create function on a small net (junctions 0..2, pipe 0)"""
    import ast
    import pandapipes.create as cr
    required = []
    for node in ast.parse(open(cr.__file__).read()).body:
        if isinstance(node, ast.FunctionDef) and node.name == fn:
            names = [a.arg for a in node.args.args]
            required = names[1:len(names) - len(node.args.defaults)]
    vals = {"junction": 0, "from_junction": 0, "to_junction": 1, "return_junction": 0, "flow_junction": 1,
            "controlled_junction": 1, "junctions": [0, 1], "from_junctions": [0, 1], "to_junctions": [1, 2],
            "controlled_junctions": [1, 2], "mdot_kg_per_s": 0.1, "pn_bar": 5., "tfluid_k": 300., "p_bar": 5., "t_k": 300.,
            "qext_w": 100., "inner_diameter_mm": 100., "std_type": None, "length_km": 0.1, "element": 1, "elements": [1, 2],
            "et": "ju", "new_std_type_name": "P1", "p_flow_bar": 5., "plift_bar": 1., "mdot_flow_kg_per_s": 0.1,
            "pressure_ratio": 1.2, "controlled_p_bar": 4., "controlled_mdot_kg_per_s": 0.1, "nr_junctions": 2}
    out = {name: vals[name] for name in required}
    if "std_type" in out:
        out["std_type"] = "P1" if "pump" in fn else "80_GGG"
    return out


def h_create_registers_before_check(inp, body):
    """a call rejected by a reference check on a net without the component's table leaves the new table behind"""
    import pandapipes as pp
    from pandapipes.pandapipes_net import Sector
    fn = inp["function"]
    net = pp.create_empty_network(fluid="water", sector=Sector.NONE)
    pp.create_junctions(net, 3, 5., 300.)
    if "pipe" not in net or not len(net.pipe):
        pp.create_pipe_from_parameters(net, 0, 1, 0.1, 100.)
    args = _valid_args(pp, net, fn)
    bad = [k for k in args if "junction" in k and k != "nr_junctions"]
    if not bad:
        return {"reproduced": False, "observed": "no junction reference to invalidate"}
    k = bad[0]
    args[k] = [98, 99] if isinstance(args[k], list) else 99
    before = set(net.keys())
    ncomp = len(net.component_list)
    try:
        getattr(pp, fn)(net, **args)
        return {"reproduced": False, "observed": "call was not rejected"}
    except Exception as e:  # noqa
        new = sorted(set(net.keys()) - before)
        return {"reproduced": bool(new) or len(net.component_list) != ncomp,
                "observed": {"raised": "%s: %s" % (type(e).__name__, str(e)[:100]), "new_net_entries": new,
                             "component_list_grew_by": len(net.component_list) - ncomp}}


def h_create_doc_default(inp, body):
    import ast
    import pandapipes.create as cr
    tree = ast.parse(open(cr.__file__).read())
    d = None
    for node in tree.body:
        if isinstance(node, ast.FunctionDef) and node.name == inp["function"]:
            names = [a.arg for a in node.args.args]
            defs = dict(zip(names[len(names) - len(node.args.defaults):], node.args.defaults))
            d = ast.unparse(defs[inp["param"]])
    return {"reproduced": True, "observed": {"signature_default": d, "documented": inp["documented"]}}


def h_create_pump_unknown_type(inp, body):
    import pandapipes as pp
    net = pp.create_empty_network(fluid="water")
    j = pp.create_junctions(net, 2, 5., 300.)
    try:
        pp.create_pump_from_parameters(net, j[0], j[1], "no_such_type")
    except Exception as e:  # noqa
        return {"reproduced": False, "observed": "rejected: %s" % e}
    return {"reproduced": "no_such_type" not in net.std_types["pump"],
            "observed": {"pump.std_type": net.pump.std_type.tolist(), "known pump types": sorted(net.std_types["pump"])}}


def h_bounded_named(inp, body):
    import bounded
    res = getattr(bounded, inp["what"])(inp)["checks"][inp["check"]]
    return {"reproduced": not res["ok"], "observed": res.get("witness")}


def h_bounded_any(inp, body):
    """property-level fallback replay: re-run a multi-check native stand-in; reproduced iff any of its checks fails"""
    import bounded
    res = getattr(bounded, inp["what"])(inp)
    checks = res.get("checks") or {"": res}
    bad = {k: v.get("witness") for k, v in checks.items() if not v.get("ok", True)}
    return {"reproduced": bool(bad), "observed": bad or "every check of the native stand-in %s passes" % inp["what"]}


def h_element_junction_tuples(inp, body):
    from pandapipes.toolbox import element_junction_tuples
    return {"reproduced": True, "observed": sorted(list(x) for x in element_junction_tuples())}


def _full_net(pp, jl, pl):
    """a heat network with every component type; jl / pl: junction and pipe labels"""
    net = pp.create_empty_network(fluid="water")
    for k in range(8):
        pp.create_junction(net, 5., 330., index=jl[k])
    pp.create_ext_grid(net, jl[0], 5., 330.)
    pp.create_pipe_from_parameters(net, jl[0], jl[1], 0.2, 100., index=pl[0], u_w_per_m2k=5.)
    pp.create_pipe_from_parameters(net, jl[1], jl[2], 0.3, 100., index=pl[1], sections=2, u_w_per_m2k=5.)
    pp.create_pipe_from_parameters(net, jl[2], jl[3], 0.2, 80., index=pl[2], u_w_per_m2k=5.)
    pp.create_valve(net, jl[1], pl[1], "pi", 100., opened=True)
    pp.create_valve(net, jl[1], jl[4], "ju", 80., opened=True)
    pp.create_pipe_from_parameters(net, jl[4], jl[5], 0.1, 80., index=pl[3], u_w_per_m2k=5.)
    pp.create_pressure_control(net, jl[5], jl[6], jl[6], 3.5)
    pp.create_pipe_from_parameters(net, jl[6], jl[7], 0.1, 80., index=pl[4], u_w_per_m2k=5.)
    pp.create_sink(net, jl[3], 0.4)
    pp.create_sink(net, jl[7], 0.2)
    pp.create_heat_exchanger(net, jl[2], jl[3], 5000., 80.)
    return net


def h_toolbox_pipe_valve(inp, body):
    """relabelling junctions of a net with a pipe-attached valve whose pipe label is not a junction label"""
    import pandapipes as pp
    net = _full_net(pp, [0, 1, 2, 3, 4, 5, 6, 7], [10, 11, 12, 13, 14])
    lookup = {j: j + 100 for j in net.junction.index}
    try:
        pp.reindex_junctions(net, lookup)
    except Exception as e:  # noqa
        return {"reproduced": True, "observed": "reindex_junctions raised %s: %s" % (type(e).__name__, str(e)[:120])}
    return {"reproduced": net.valve.element.tolist()[0] != 11, "observed": {"valve.element": net.valve.element.tolist()}}


def h_toolbox_drop_pipe_valve(inp, body):
    import pandapipes as pp
    net = _full_net(pp, [0, 1, 2, 3, 4, 5, 6, 7], [10, 11, 12, 13, 14])
    pp.drop_pipes(net, [11])
    dangling = net.valve[(net.valve.et == "pi") & ~net.valve.element.isin(net.pipe.index)]
    return {"reproduced": len(dangling) > 0, "observed": {"valves referencing a missing pipe": dangling.element.tolist()}}


def h_graph_pipe_valve(inp, body):
    import pandapipes as pp
    import pandapipes.topology as top
    net = _full_net(pp, [0, 1, 2, 3, 4, 5, 6, 7], [10, 11, 12, 13, 14])
    g = top.create_nxgraph(net)
    phantom = sorted(int(n) for n in g.nodes() if n not in net.junction.index)
    ve = [(int(a), int(b)) for a, b, k in g.edges(keys=True) if k[0] == "valve"]
    return {"reproduced": bool(phantom) or len(ve) != 1, "observed": {"nodes that are no junctions": phantom, "valve edges": ve}}


def h_graph_flow_return(inp, body):
    """an island fed only through a heat consumer / active flow controller: supplied in the graph, not calculated by the solver"""
    import pandapipes as pp
    import pandapipes.topology as top
    net = pp.create_empty_network(fluid="water")
    j = pp.create_junctions(net, 4, 5., 330.)
    pp.create_ext_grid(net, j[0], 5., 330.)
    pp.create_pipe_from_parameters(net, j[0], j[1], 0.1, 100.)
    if inp.get("table") == "flow_control":
        pp.create_flow_control(net, j[1], j[2], 0.1, control_active=True)
    else:
        pp.create_heat_consumer(net, j[1], j[2], qext_w=1000., controlled_mdot_kg_per_s=0.1)
    pp.create_pipe_from_parameters(net, j[2], j[3], 0.1, 100.)
    pp.create_sink(net, j[3], 0.05)
    uns = sorted(int(x) for x in top.unsupplied_junctions(net))
    try:
        pp.pipeflow(net)
        nan = net.res_junction.index[net.res_junction.p_bar.isnull()].tolist()
    except Exception as e:  # noqa
        nan = "pipeflow raised %s" % type(e).__name__
    return {"reproduced": uns != nan, "observed": {"unsupplied_junctions": uns, "junctions without pressure result": nan}}


def h_graph_slacks(inp, body):
    import pandapipes as pp
    import pandapipes.topology as top
    out = {}
    # (a) an external grid of type 't' fixes no pressure
    net = pp.create_empty_network(fluid="water")
    j = pp.create_junctions(net, 4, 5., 330.)
    pp.create_ext_grid(net, j[0], 5., 330., type="pt")
    pp.create_pipe_from_parameters(net, j[0], j[1], 0.1, 100.)
    pp.create_ext_grid(net, j[2], None, 330., type="t")
    pp.create_pipe_from_parameters(net, j[2], j[3], 0.1, 100.)
    uns = sorted(int(x) for x in top.unsupplied_junctions(net))
    pp.pipeflow(net)
    nan = net.res_junction.index[net.res_junction.p_bar.isnull()].tolist()
    out["t-type ext_grid"] = {"unsupplied_junctions": uns, "junctions without pressure result": nan}
    # (b) a circulation pump is the only pressure-fixing element
    net = pp.create_empty_network(fluid="water")
    j = pp.create_junctions(net, 3, 5., 330.)
    pp.create_circ_pump_const_pressure(net, j[0], j[1], 5., 1., t_flow_k=330.)
    pp.create_pipe_from_parameters(net, j[1], j[2], 0.1, 100.)
    pp.create_pipe_from_parameters(net, j[2], j[0], 0.1, 100.)
    uns2 = sorted(int(x) for x in top.unsupplied_junctions(net))
    pp.pipeflow(net)
    nan2 = net.res_junction.index[net.res_junction.p_bar.isnull()].tolist()
    out["circulation pump only"] = {"unsupplied_junctions": uns2, "junctions without pressure result": nan2}
    return {"reproduced": uns != nan or uns2 != nan2, "observed": out}
