"""Replay handlers: execute the REAL functions of the working tree on concrete inputs taken from
a solver counter-model (or found by a seeded random search when the model's inputs do not
exhibit the difference under true floating-point functions)."""
import importlib
import math
import os
import random

import numpy as np


def get_fn(key):
    mod, qn = key.split(":")
    m = importlib.import_module(mod)
    obj = m
    for p in qn.split("."):
        obj = getattr(obj, p)
    return obj


def build_args(args):
    out = []
    for a in args:
        if a["type"] == "pit":
            d = [[(np.nan if x is None else x) for x in row] for row in a["data"]]
            out.append(np.array(d, dtype=np.float64))
        elif a["type"] == "arr":
            k = a.get("kind", "f")
            d = [(np.nan if x is None else x) for x in a["data"]]
            if k == "i":
                out.append(np.array(d, dtype=np.int32))
            elif k == "b":
                out.append(np.array(d, dtype=bool))
            else:
                out.append(np.array(d, dtype=np.float64))
        elif a["type"] == "const":
            out.append(a["value"])
        elif a["type"] == "obj":
            out.append(make_obj(a["value"]))
        else:
            raise ValueError(a["type"])
    return out


def make_obj(desc):
    if desc is None:
        return None
    if desc.get("kind") == "fluid":
        import pandapipes
        net = pandapipes.create_empty_network(fluid=desc.get("name", "water"))
        return net.fluid
    raise ValueError(desc)


def differs(x, y, tol=1e-9):
    x = np.asarray(x, dtype=np.float64) if not isinstance(x, (bool, np.bool_)) else np.asarray(x)
    y = np.asarray(y, dtype=np.float64) if not isinstance(y, (bool, np.bool_)) else np.asarray(y)
    if x.shape != y.shape:
        return True
    if x.dtype == bool or y.dtype == bool:
        return bool(np.any(x.astype(bool) != y.astype(bool)))
    nx, ny = np.isnan(x), np.isnan(y)
    if np.any(nx != ny):
        return True
    ok = ~nx
    if not np.any(ok):
        return False
    with np.errstate(all="ignore"):
        d = np.abs(x[ok] - y[ok])
        s = np.maximum(np.abs(x[ok]), np.abs(y[ok]))
        infmis = np.isinf(x[ok]) != np.isinf(y[ok])
        fin = np.isfinite(d)
        return bool(np.any(infmis) or np.any(d[fin] > tol * np.maximum(1e-300, s[fin])))


def as_set(x, n):
    x = np.asarray(x)
    if x.dtype == bool:
        return set(np.where(x)[0].tolist())
    return set(int(v) for v in x.tolist())


def call_pair(keys, args, output, mode):
    f1, f2 = get_fn(keys[0]), get_fn(keys[1])
    import copy
    with np.errstate(all="ignore"):
        r1 = f1(*copy.deepcopy(args))
        r2 = f2(*copy.deepcopy(args))
    o1 = r1[output] if isinstance(r1, (tuple, list)) else r1
    o2 = r2[output] if isinstance(r2, (tuple, list)) else r2
    if mode == "set":
        s1, s2 = as_set(o1, None), as_set(o2, None)
        return s1 != s2, (sorted(s1), sorted(s2))
    return differs(o1, o2), (np.asarray(o1).tolist(), np.asarray(o2).tolist())


def randomise(args, search, rng):
    """perturb float entries of the model's args inside the declared ranges"""
    new = []
    rngs = (search or {}).get("ranges", {})
    for a in args:
        a = dict(a)
        if a["type"] == "pit":
            cols = rngs.get(a["name"], {})
            data = [list(r) for r in a["data"]]
            for row in data:
                for c, (lo, hi) in cols.items():
                    row[int(c)] = rng.choice([lo, hi, rng.uniform(lo, hi), 0.0 if lo <= 0 <= hi else lo])
            a["data"] = data
        elif a["type"] == "arr" and a.get("kind", "f") == "f":
            if a["name"] in rngs:
                lo, hi = rngs[a["name"]]
                a["data"] = [rng.choice([lo, hi, rng.uniform(lo, hi)]) for _ in a["data"]]
        new.append(a)
    return new


def h_twin_kernel(inp, body):
    keys = inp["functions"]
    if inp.get("args") is None:
        return {"reproduced": False, "observed": "no small-world counter-model available"}
    args = build_args(inp["args"])
    bad, obs = call_pair(keys, args, inp["output"], inp.get("mode"))
    if bad:
        return {"reproduced": True, "observed": {"outputs": obs, "args": inp["args"]}}
    rng = random.Random(int(os.environ.get("VERIF_SEED", "0") or 0))
    for _ in range(300):
        a2 = randomise(inp["args"], inp.get("search"), rng)
        try:
            bad, obs = call_pair(keys, build_args(a2), inp["output"], inp.get("mode"))
        except Exception:  # noqa
            continue
        if bad:
            return {"reproduced": True, "observed": {"outputs": obs, "args": a2,
                                                     "found_by": "random search around the model"}}
    return {"reproduced": False, "observed": {"outputs": obs}}


def h_nikuradse_gas_constant(inp, body):
    """the documented Nikuradse term 1/(-2 log10(k/(3.71 d)))^2 vs. the gas kernels' 1/(2 log10(d/k)+1.14)^2"""
    if inp.get("use_numba"):
        from pandapipes.pf.derivative_toolbox_numba import calc_lambda_nikuradse_comp_numba as f
    else:
        from pandapipes.pf.derivative_toolbox import calc_lambda_nikuradse_comp_np as f
    m = np.array([0.3]); d = np.array([0.1]); k = np.array([1e-4]); eta = np.array([1.1e-5]); a = np.array([0.00785])
    re, lam_lam, lam_t = f(m, d, k, eta, a)
    doc = 1.0 / (-2 * math.log10(k[0] / (3.71 * d[0]))) ** 2
    rel = abs(lam_t[0] - doc) / doc
    return {"reproduced": bool(rel > 1e-9),
            "observed": {"lambda_turbulent_code": float(lam_t[0]), "documented": doc, "relative_deviation": rel,
                         "input": {"d": 0.1, "k": 1e-4}}}


def _unjson(v):
    if isinstance(v, dict) and "__tuple__" in v:
        return tuple(v["__tuple__"])
    return v


def h_init_options(inp, body):
    """three concrete option layers -> real init_options on a minimal net; compares the value in
    force for one key with the value the documented precedence yields"""
    import pandapipes
    from pandapipes.pf.pipeflow_setup import init_options
    import copy
    net = pandapipes.create_empty_network(fluid="water")
    user = inp.get("user")
    if user is not None:
        net["user_pf_options"] = {k: _unjson(v) for k, v in user.items()}
    kwargs = {k: _unjson(v) for k, v in inp["kwargs"].items()}
    user_before = copy.deepcopy(net.get("user_pf_options"))
    init_options(net, **kwargs)
    key = inp["key"]
    opts = net["_options"]
    exp_p, exp_v = inp["expected_present"], _unjson(inp.get("expected_value"))
    got_p = key in opts
    got_v = opts.get(key)
    bad = (got_p != exp_p) or (exp_p and got_v != exp_v)
    mutated = user_before != net.get("user_pf_options")
    return {"reproduced": bool(bad or (inp.get("check_frame") and mutated)),
            "observed": {"key": key, "present": got_p, "value": repr(got_v), "expected_present": exp_p,
                         "expected_value": repr(exp_v), "user_options_mutated": mutated,
                         "user": user, "kwargs": inp["kwargs"]}}


def h_doc_default(inp, body):
    import re
    from pandapipes.pf import pipeflow_setup as ps
    doc = ps.init_options.__doc__
    m = re.search(r"\*\*%s\*\*\s+\((\w+)\):\s+([^\s]+)\s+-" % re.escape(inp["option"]), doc)
    actual = ps.default_options.get(inp["option"])
    documented = m.group(2).strip('"') if m else None
    try:
        same = float(documented) == float(actual)
    except (TypeError, ValueError):
        same = str(documented) == str(actual)
    return {"reproduced": not same, "observed": {"option": inp["option"], "documented": documented,
                                                 "default_options": repr(actual)}}
