/-
Spec-level lemmas used by the C01 / C03 / C10 arguments (DESIGN.md section 1, "Spec-level mathematics").
They talk about the specification only (no code), for every finite index set -- the Σ-reasoning
an SMT solver does not do.  Checked by Lean 4 + Mathlib in setup.sh; re-checked in the thorough tier.
-/
import Mathlib

open Finset BigOperators

namespace PandapipesVerif

/-- L1 (general): a row that is affine in the unknowns has zero residual after a full Newton step.
Row of the Jacobian: coefficients `a`, residual at `x` is `∑ a i * x i - c`; the solver returns `dx`
with `J dx = residual`; the new iterate `x - dx` has residual 0. -/
theorem L1_affine_row_exact {ι : Type*} (s : Finset ι) (a x dx : ι → ℝ) (c : ℝ)
    (h : ∑ i ∈ s, a i * dx i = ∑ i ∈ s, a i * x i - c) :
    ∑ i ∈ s, a i * (x i - dx i) - c = 0 := by
  have : ∑ i ∈ s, a i * (x i - dx i) = ∑ i ∈ s, a i * x i - ∑ i ∈ s, a i * dx i := by
    rw [← Finset.sum_sub_distrib]
    apply Finset.sum_congr rfl
    intro i _
    ring
  rw [this, h]
  ring

/-- L1 (damped): with a damping factor `α` the residual shrinks by `(1 - α)` per step. -/
theorem L1_affine_row_damped {ι : Type*} (s : Finset ι) (a x dx : ι → ℝ) (c α : ℝ)
    (h : ∑ i ∈ s, a i * dx i = ∑ i ∈ s, a i * x i - c) :
    ∑ i ∈ s, a i * (x i - α * dx i) - c = (1 - α) * (∑ i ∈ s, a i * x i - c) := by
  have : ∑ i ∈ s, a i * (x i - α * dx i) = ∑ i ∈ s, a i * x i - α * ∑ i ∈ s, a i * dx i := by
    rw [Finset.mul_sum, ← Finset.sum_sub_distrib]
    apply Finset.sum_congr rfl
    intro i _
    ring
  rw [this, h]
  ring

/-- L1 instantiated for a node row of the hydraulic system as `build_system_matrix` assembles it
(contract of C01): branches leaving the node (`F`) carry the entry `-1`, branches entering it (`T`)
the entry `+1`, the right-hand side is `-load - ∑_F m + ∑_T m`.  After `m' = m - x` the node balance
`∑_T m' - ∑_F m' - load` is exactly zero, for any number of branches at the node. -/
theorem node_row_balance {β : Type*} (F T : Finset β) (m x : β → ℝ) (load : ℝ)
    (row : (∑ b ∈ F, (-1 : ℝ) * x b) + (∑ b ∈ T, x b) = -load - (∑ b ∈ F, m b) + ∑ b ∈ T, m b) :
    (∑ b ∈ T, (m b - x b)) - (∑ b ∈ F, (m b - x b)) - load = 0 := by
  simp only [Finset.sum_sub_distrib] 
  simp only [neg_one_mul, Finset.sum_neg_distrib] at row
  linarith

/-- slack node row: the slack mass flow takes up the remaining balance (entry `-1` on the slack-mass
unknown, rhs `-load - ∑_F m + ∑_T m - msl`). -/
theorem slack_row_balance {β : Type*} (F T : Finset β) (m x : β → ℝ) (load msl xs : ℝ)
    (row : (∑ b ∈ F, (-1 : ℝ) * x b) + (∑ b ∈ T, x b) + (-1) * xs
            = -load - (∑ b ∈ F, m b) + (∑ b ∈ T, m b) - msl) :
    (∑ b ∈ T, (m b - x b)) - (∑ b ∈ F, (m b - x b)) - load - (msl - xs) = 0 := by
  simp only [Finset.sum_sub_distrib]
  simp only [neg_one_mul, Finset.sum_neg_distrib] at row
  linarith

/-- L3 (whole network): every branch leaves exactly one node and enters exactly one node, so the
node balances of all nodes sum to zero: what enters the network equals what leaves it. -/
theorem network_balance {ν β : Type*} [DecidableEq ν] (N : Finset ν) (Bs : Finset β)
    (fn tn : β → ν) (m : β → ℝ) (hf : ∀ b ∈ Bs, fn b ∈ N) (ht : ∀ b ∈ Bs, tn b ∈ N) :
    ∑ n ∈ N, ((∑ b ∈ Bs.filter (fun b => tn b = n), m b) - ∑ b ∈ Bs.filter (fun b => fn b = n), m b) = 0 := by
  rw [Finset.sum_sub_distrib]
  have e1 : ∑ n ∈ N, ∑ b ∈ Bs.filter (fun b => tn b = n), m b = ∑ b ∈ Bs, m b :=
    Finset.sum_fiberwise_of_maps_to (g := tn) ht m
  have e2 : ∑ n ∈ N, ∑ b ∈ Bs.filter (fun b => fn b = n), m b = ∑ b ∈ Bs, m b :=
    Finset.sum_fiberwise_of_maps_to (g := fn) hf m
  rw [e1, e2]
  ring

/-- consequence: if every node balance is `load n - feed n` (zero residual), total feed-in equals total
consumption minus total injection (loads are signed). -/
theorem total_feed_equals_total_load {ν β : Type*} [DecidableEq ν] (N : Finset ν) (Bs : Finset β)
    (fn tn : β → ν) (m : β → ℝ) (load feed : ν → ℝ)
    (hf : ∀ b ∈ Bs, fn b ∈ N) (ht : ∀ b ∈ Bs, tn b ∈ N)
    (hbal : ∀ n ∈ N, (∑ b ∈ Bs.filter (fun b => tn b = n), m b)
                      - (∑ b ∈ Bs.filter (fun b => fn b = n), m b) - load n + feed n = 0) :
    ∑ n ∈ N, feed n = ∑ n ∈ N, load n := by
  have h0 := network_balance N Bs fn tn m hf ht
  have h1 : ∑ n ∈ N, ((∑ b ∈ Bs.filter (fun b => tn b = n), m b)
                      - (∑ b ∈ Bs.filter (fun b => fn b = n), m b) - load n + feed n) = 0 :=
    Finset.sum_eq_zero hbal
  simp only [Finset.sum_add_distrib, Finset.sum_sub_distrib] at h0 h1
  linarith

/-- L2: a weighted mean with positive weights lies between any lower and upper bound of the values
(node mixing temperature between the entering stream temperatures; any number of streams). -/
theorem L2_mix_between {ι : Type*} (s : Finset ι) (w t : ι → ℝ) (tn lo hi : ℝ)
    (hs : s.Nonempty) (hw : ∀ i ∈ s, 0 < w i)
    (hmix : ∑ i ∈ s, w i * (t i - tn) = 0)
    (hlo : ∀ i ∈ s, lo ≤ t i) (hhi : ∀ i ∈ s, t i ≤ hi) :
    lo ≤ tn ∧ tn ≤ hi := by
  constructor
  · by_contra hcon
    have hcon := not_le.mp hcon
    have : 0 < ∑ i ∈ s, w i * (t i - tn) := by
      apply Finset.sum_pos
      · intro i hi'
        have := hw i hi'
        have := hlo i hi'
        apply mul_pos <;> linarith
      · exact hs
    linarith
  · by_contra hcon
    have hcon := not_le.mp hcon
    have : ∑ i ∈ s, w i * (t i - tn) < 0 := by
      apply Finset.sum_neg
      · intro i hi'
        have := hw i hi'
        have := hhi i hi'
        apply mul_neg_of_pos_of_neg <;> linarith
      · exact hs
    linarith

/-- mean of fixed values: the running-mean update of `set_fixed_node_entries`
`new = (old * cnt + S) / (number + cnt)` (old mean over `cnt` values with sum `sum_old`, `number` new
values with sum `S`) is the mean over all `cnt + number` values; with `cnt = 0` the stale start value
`old` drops out. -/
theorem running_mean (cnt number old sum_old S : ℝ) (hc : 0 < cnt) (hm : old = sum_old / cnt) :
    (old * cnt + S) / (number + cnt) = (sum_old + S) / (cnt + number) := by
  have hc' : cnt ≠ 0 := ne_of_gt hc
  rw [hm, div_mul_cancel₀ _ hc', add_comm number cnt]

theorem running_mean_first (number old S : ℝ) :
    (old * 0 + S) / (number + 0) = S / number := by
  simp

end PandapipesVerif
