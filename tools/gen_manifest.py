#!/usr/bin/env python3
"""Regenerates MANIFEST.json from the table below (kept here so that the manifest stays valid
and in step with what is actually built)."""
import json
import os

VERIF = os.path.dirname(os.path.dirname(os.path.abspath(__file__)))

BASELINE_OFF = ("cd /repo && /venv/bin/python -m pytest -ra -q -p no:cacheprovider --timeout=900 "
                "--continue-on-collection-errors")

TB = ("trusted base: the home-made VC generator pvc (AST front end + symbolic evaluator; it pulls numeric factors out of products and "
      "quotients, an identity of real arithmetic), z3 5.1 / cvc5 1.0.3, "
      "the numpy/scipy/pandas model of pvc/npmodel.py; ")

CHECKS = {
    "C07": dict(
        engine="E2",
        technique="contract-based deductive verification: VCs generated from the AST of both twin kernels, discharged by z3/cvc5 (row-generic, all array lengths); catalogue completeness by AST scan; bounded stand-in for the cumsum/permutation code",
        text=("Every numpy kernel and its numba twin are symbolically evaluated from the current source and proved "
              "to return equal arrays at an arbitrary row for every array length and every admissible input "
              "(incl. zero flow, equal pressures, reverse flow, NaN mass flow in the thermal kernels); the "
              "catalogue of use_numba switches is discovered mechanically and must be fully covered."),
        note=(TB + "floats as reals with an explicit NaN flag on the mass-flow column (A1), exp/log/sqrt uninterpreted "
              "(A3), numba implements the Python semantics of the subset (A5). Transient thermal branch and "
              "_sum_by_group twins are bounded stand-ins, listed separately and not counted as proved. The update-matrix option: "
              "information-flow contract of build_system_matrix (option and cache cannot reach the load vector) + the cache clauses shared "
              "with C12 (no stale read, dropped on every exit) are discharged; the lexsort / CSR-pointer code itself is only covered by two "
              "bounded stand-ins (all pits with <= 3 nodes and <= 2 branches; a call sequence with changed loads); F16 (duplicate COO "
              "positions) is a known finding of the first."),
        ref="DESIGN.md section 4 C07"),
}

CHECKS["C02"] = dict(
    engine="E2",
    technique="contract-based deductive verification: modular VCs (kernel, helper and stage contracts) generated from the AST, spec functions from the documented momentum equation, discharged by z3/cvc5 for an arbitrary row and all array lengths",
    text=("The residual written by the hydraulic derivative stage is proved equal to the documented momentum equation "
          "(liquid Darcy-Weisbach + hydrostatic + lumped loss; real-gas form with compressibility and mean pressure) for "
          "nikuradse, swamee-jain and colebrook, both engines; Reynolds number, friction factor and density columns are "
          "proved to be the spec values used inside the residual; callers are checked against callee contracts."),
    note=(TB + "floats as reals (A1), transcendental functions uninterpreted with sign/monotonicity axioms (A3), fluid "
          "property getters uninterpreted functions of their arguments (their classes are under contract in C19), "
          "scipy.optimize.newton by assumed contract (A4). The converged state satisfies |R| <= tol_res by C05; "
          "round-off is not bounded."),
    ref="DESIGN.md section 4 C02")

CHECKS["C14"] = dict(
    engine="E1",
    technique="contract-based deductive verification: symbolic dictionaries over the option-key universe plus a generic key, VCs from the AST of init_options/_iteration_check/_mode_check/set_user_pf_options, discharged by z3; documented defaults compared with default_options by evaluation",
    text=("For every option key (all 23 defaults, iter, fluid, hyd_flag, the two excluded names and a generic unknown key) "
          "the value stored in net._options is proved equal to the documented precedence call > user > default with the "
          "documented couplings, for every presence pattern and every value of the three layers at once; the stored "
          "layers (default_options, user_pf_options, kwargs) are proved unmodified; callee contracts of "
          "_iteration_check/_mode_check are proved separately and applied at the call sites."),
    note=(TB + "option values are elements of an uninterpreted sort with a truthiness predicate (python semantics of "
          "==, is None, truthiness assumed for them); get_fluid(net).name is a string; deepcopy returns a fresh equal value."),
    ref="DESIGN.md section 4 C14")

CHECKS["C05"] = dict(
    engine="E1",
    technique="contract-based deductive verification: VCs in z3's IEEE Float64 theory generated from the AST of hydraulics/heat_transfer/bidirectional with newton_raphson and finalize_iteration inlined (last-iteration loop rule), shape contracts of the solve functions from their return statements, path-ordering obligations on pipeflow",
    text=("Every stage function is proved to return normally only if net.converged holds and, in the last Newton iteration, "
          "the change of EVERY unknown returned by the stage's solve function and every residual entry were non-NaN and "
          "within the tolerance in force (and alpha == 1 under automatic damping); every other exit raises "
          "PipeflowNotConverged with net.converged False; pipeflow re-initialises all result tables to NaN before any "
          "failing stage and writes results only after all stages returned."),
    note=(TB + "IEEE semantics of comparisons, abs, subtraction and np.max exact (A2/A4: np.max propagates NaN), float64 * and / "
          "uninterpreted; loop rule: final state = entry state or one body execution from a havocked state satisfying the "
          "loop condition and niter >= 0; rerun_hydraulics/rerun_heat_transfer by partial-correctness contract (termination "
          "of the rerun recursion not verified); finite derived result columns only under A1."),
    ref="DESIGN.md section 4 C05")

CHECKS["C10"] = dict(
    engine="E2",
    technique="contract-based deductive verification: modular VCs (thermal kernels, helper and stage contracts) from the AST, spec functions from the documented cooling law and energy balance, discharged by z3 for an arbitrary branch row / node and all array lengths; convexity lemmas over the spec",
    text=("Both thermal kernels are proved to return the documented cooling-law residual on flowing branches, the ambient rows on "
          "non-flowing branches/nodes, the mixing terms with the heat capacity handed in, and the infeed set; the stage "
          "calculate_derivatives_thermal is proved (callee contracts applied) to write these as functions of the pit columns with "
          "the mixing weight |m|(cp(T_out)+cp(T_node))/2 demanded by the statement and the flow-direction-corrected end nodes; "
          "convexity lemmas (outlet between inlet and ambient; mix between entering temperatures, induction step) are proved over the spec."),
    note=(TB + "floats as reals with a NaN flag on the mass flow (A1), exp uninterpreted with exp>0, exp(0)=1, monotone sign axioms (A3), "
          "heat capacity/density uninterpreted positive functions. Assembly of these rows into the linear system and the imposed feed "
          "temperatures are part of the matrix-assembly obligations (engine E3); transient mode is not covered; the network-wide "
          "temperature bound is the induction of the two proved lemmas over the flow DAG (paper argument)."),
    ref="DESIGN.md section 4 C10")

CHECKS["C11"] = dict(
    engine="E2",
    technique="contract-based deductive verification: VCs from the AST of the HeatConsumer/HeatExchanger/CirculationPump classmethods (row-generic over the component's pit block), algebraic lemmas over the thermal residual spec, discharged by z3",
    text=("For every consumer row the mode code is proved to follow the given pair of inputs, each adaption method is proved to "
          "write exactly the per-mode pit entries (identity mass-flow row, QE_TR residual -q + cp (T_in - T_out) m and its derivative, "
          "q := cp m dT / cp m (T_in - T_ret), m := q/(cp dT), outlet-temperature identity row) and nothing outside its block; "
          "reported qext_w/deltat_k are proved to be the pit heat and T_from - T_out; lemmas prove that a zero thermal residual with "
          "LENGTH=ALPHA=TL=0 means q = |m| c (T_in - T_out) and that every mode's set-points are then met; heat exchanger "
          "parameters reach the pit unchanged; the circulation pump reports m (cp(T_out) T_out - cp(T_in) T_in)."),
    note=(TB + "A1/A3; get_component_array / get_branch_cp / get_from_nodes_corrected by contract (the latter two proved in C10); rows of the "
          "component array are aligned with the component's rows of the active pit (reduce_pit, engine E3). Not decided: the energy "
          "closure of a circulation-pump loop (whole-network sum with an unspecified discretisation tolerance)."),
    ref="DESIGN.md section 4 C11")

CHECKS["C09"] = dict(
    engine="E2",
    technique="contract-based deductive verification: relational lemmas over the spec functions the kernels are proved equal to (C02/C10), plus VCs from the AST of get_basic_branch_results, ConstFlow.create_pit_node_entries and the flow-direction switch, discharged by z3",
    text=("Proved: odd symmetry of the liquid and gas residuals under from/to reversal, even Reynolds number, symmetric mean pressure, "
          "invariance of the liquid residual under a common pressure shift, telescoping of consecutive liquid sections (two sections, "
          "series = one pipe, induction step); mf_to = -mf_from and the other result columns of get_basic_branch_results; the per-row "
          "load term nan_to_num(mdot)*in_service*scaling*sign with Source.sign = -Sink.sign grouped by junction (additivity, "
          "source = negative sink, out-of-service = absent); the thermal direction switch is the sign of the mass flow, set before its first use."),
    note=(TB + "A1/A3; the lemmas speak about the equation systems: equality of results additionally needs uniqueness of the solution and "
          "holds up to the tolerances of C05 (stated, not proved). Expansion of a pipe into sections (np.repeat/np.insert code) and "
          "closed-valve/out-of-service = absence belong to the connectivity / pit-construction obligations (engine E3)."),
    ref="DESIGN.md section 4 C09")

CHECKS["C20"] = dict(
    engine="E1",
    technique="contract-based deductive verification: VCs from the AST of control_step/write_to_net of the three coupling controllers over label-addressed table models (scalar .at path and array .loc path), conversion-factor lemmas, structural obligations on _evaluate_multinet, discharged by z3",
    text=("For P2G, G2P (both directions) and G2G the value written to the coupled element is proved to be scaled value x conversion "
          "factor x efficiency at the fluid's heating value, for a scalar index and for an arbitrary index array with unique labels; "
          "nothing else in the target table and nothing in the source table changes; the two conversion factors are proved inverse, so "
          "a round trip returns the product of the efficiencies; _evaluate_multinet reports the conjunction of the member nets' flags."),
    note=(TB + "pandas .at/.loc by assumed contract (scalar access raises ValueError for list-likes; labels unique); reals for floats (A1). "
          "'Every member net holds the results of a stand-alone calculation' is the purity property C12 together with C05; controller "
          "ordering / levels are pandapower's control loop (assumed)."),
    ref="DESIGN.md section 4 C20")

CHECKS["C13"] = dict(
    engine="E1",
    technique="contract-based deductive verification of the pandapipes-owned glue only: the real init_time_series / pf_not_converged / run_loop / prepare_run_ctrl / run_control are evaluated from the AST with pandapower's functions replaced by recording stand-ins; loop structure obligations give the unbounded argument",
    text=("Proved for the glue: pandapower's loop receives pipeflow as run function (unless the caller supplies one), the time steps and "
          "continue_on_divergence unchanged, and error tuples containing PipeflowNotConverged; a diverged step re-raises iff "
          "continue_on_divergence is off; run_loop calls run_time_step exactly once per time step, in order, with the same net / "
          "ts_variables and no carried keyword state (simulation_time_step only when transient); the multinet time series uses the same loop."),
    note=(TB + "ASSUMED, not verified: pandapower's run_time_step / run_control / init_time_series (apply the step's controller values, call "
          "run, treat the error classes as divergence, log results). With that contract and the proved contracts of pipeflow (C05: raises on "
          "divergence with NaN results; C12: a function of the non-underscore net entries) the property follows; this composition is "
          "written out in DESIGN.md and not mechanised."),
    ref="DESIGN.md section 4 C13")

CHECKS["C19"] = dict(
    engine="E1",
    technique="contract-based deductive verification: VCs from the AST of the fluid property classes for scalar / ndarray / Series queries (isinstance branches path-split, missing attributes are failed safety obligations), integral lemmas, pump curve scalar path; bounded stand-in for the pump array branch; exhaustive evaluation of the library data files",
    text=("Every property class is proved to return its documented value shaped like the query and the integral F(u)-F(l) of an "
          "antiderivative of that value (trapezoid for the interpolated class), for python scalars, arrays and Series alike; the integral "
          "lemmas (antisymmetry, additivity, consistency) are proved over these contracts; the pump lift is proved to be "
          "max(0, polynomial(3600 v)) for v >= 0 and 0 for reverse flow on the scalar path; mixture rules conserve mass and stay within "
          "component bounds for 1..4 components; library compressibility slopes are compared with the stored derivatives and call_lib's "
          "file/class wiring is checked."),
    note=(TB + "interp1d / poly1d / polyint are uninterpreted functions (assumed: polyint is an antiderivative of poly1d, interp1d interpolates "
          "and extrapolates linearly); A1. BOUNDED, not proved: the array branch of PumpStdType.get_pressure (flow vectors of length <= 3 over "
          "a 6-point grid, 4 pump curves) and the mixture rules beyond 4 components. Additivity of the interpolated integral across table "
          "kinks does not hold (trapezoid) and is not claimed. Pipe standard-type parameters reaching created pipes is part of C16."),
    ref="DESIGN.md section 4 C19")

CHECKS["C12"] = dict(
    engine="E4",
    technique="contract-based deductive verification of frame conditions: abstract interpretation (location tags, callee summaries to a fixpoint, dynamic dispatch over all component classes) of every write site in the pipeflow call closure; flow-sensitive must-analysis of stale reads along pipeflow(); scan for nondeterminism sources",
    text=("Every store in the ~260 functions reachable from pipeflow is proved to target only net['_...'], net['res_...'], net.converged, the "
          "hyd_flag bookkeeping key or fresh local objects -- never an element table or a view of one of its columns, the fluid, the "
          "standard types, other stored user options or module-level option dictionaries; every read of an underscore entry along "
          "pipeflow() is proved to be preceded by a write in the same run (under transient = reuse_internal_data = "
          "only_update_hydraulic_matrix = False); the closure contains no source of nondeterminism."),
    note=(TB + "aliasing facts of numpy/pandas (A4): .values / .to_numpy() / basic slices / .T / np.asarray may alias, fancy indexing, arithmetic, "
          ".copy(), .astype(), np.array and other library calls return fresh objects; library calls do not mutate their arguments except "
          "through out= / copy=False / inplace=True and the listed mutating methods. Bit-identical repetition additionally assumes "
          "deterministic BLAS / SuperLU / numba. 'Heat from stored hydraulics equals sequential' is covered only through the stale-read "
          "and frame obligations, not by a column read-set proof."),
    ref="DESIGN.md section 4 C12")

CHECKS["C01"] = dict(
    engine="E3",
    technique="contract-based deductive verification: the real build_system_matrix is evaluated symbolically for arbitrary pit lengths; its COO arrays are decomposed along the evaluator's store log and matched layout-free against the spec families (tiling / pairing / family VCs with compress-rank axioms), the load vector row by row; discharged by z3, open queries refuted on bounded instances",
    text=("Proved for every number of nodes and branches: the assembled hydraulic system consists exactly of the branch rows, the from/to "
          "incidence entries (-1/+1 times df_dm_node) of the non-slack nodes, the pressure-controller rows, the slack identity rows and the "
          "slack-mass rows; node rows of the right-hand side are -LOAD - sum_from m + sum_to m, slack and controller rows are 0, branch rows "
          "carry the branch residual; with df_dm_node = 1 and load_vec_nodes = m (C02 stage contract) lemma L1 gives a zero mass balance at "
          "every non-slack node after a full Newton step; source/sink signs and the per-row load term are proved under C09."),
    note=(TB + "compress / np.where / csr_matrix / _sum_by_group by assumed contracts (A4: order-preserving compress with rank inverse, pair "
          "enumeration of A == B[:, None], COO entries with equal position are summed, unique increasing group keys with groupsum a spec-level "
          "symbol); spsolve exact (A4); requires: as many pressure-controller branches as controlled nodes. The sum lemmas L1 (node / slack "
          "row exact after a full step, any node degree) and L3 (node balances of a network sum to zero: total feed-in = total signed load) are "
          "proved in Lean 4 + Mathlib (lean/Lemmas.lean, compiled by setup.sh, hash-stamped; trusted: Lean kernel). Also under contract: the "
          "LOAD column (reset on every path incl. transient reuse, accumulated per junction), ExtGrid.extract_results (slack mass shared between "
          "the grids of a node; numpy model of np.unique), result column pairing and forwarding. One bounded stand-in (whole calculations, "
          "balance from the result tables) doubles as the fallback replay; it is not counted as proved. Round-off of the linear solve and the "
          "result-extraction sums of pipes with internal sections are not covered."),
    ref="DESIGN.md section 4 C01")

CHECKS["C03"] = dict(
    engine="E3",
    technique="contract-based deductive verification: row-generic VCs from the AST of the controlling components' classmethods (identity / lift rows, set-point columns), set_fixed_node_entries with the group-sum contract, matrix families of C01; discharged by z3",
    text=("Proved: active flow controllers and mass circulation pumps write the identity row (df_dm=1, df_dp=df_dp1=0, load=0) and carry their "
          "set mass flow in MDOTINIT; pressure circulation pumps write df_dp=1, df_dp1=-1 with PL = plift_bar; active pressure controllers "
          "zero their branch row and are PC branches (their matrix row (NN+b, n, 1) with right-hand side 0 is proved under C01); the "
          "compressor lift is p_from_abs (ratio-1) for forward and 0 for reverse flow; fixed node values are the running mean over all "
          "fixings of the node and mark it pressure/temperature-fixed; sinks/sources/storages report mdot x scaling where in service and "
          "supplied; the circulation pump's thermal row is the identity T_out = t_flow."),
    note=(TB + "A1/A4; get_component_array by contract (rows aligned with the active pit); the pump lift is checked only up to the expression "
          "of the volume flow it evaluates its curve at (its standard-type dispatch through itemgetter/map is outside the subset) -- see "
          "known finding F24; 'met exactly' additionally needs convergence (C05) and, for lifts/ratios, the momentum equation of C02."),
    ref="DESIGN.md section 4 C03")

CHECKS["C04"] = dict(
    engine="E3",
    technique="contract-based deductive verification: VCs from the AST of _connectivity / perform_connectivity_search / check_connectivity / identify_active_nodes_branches / reduce_pit / extract_results_active_pit for arbitrary pit lengths (compress/rank axioms, recorded COO edge families, breadth-first search by reachability contract), discharged by z3",
    text=("Proved for every number of nodes and branches and every flag pattern: the adjacency handed to the graph search holds exactly the "
          "in-service, connecting branches in both directions plus one edge from the virtual slack node to every in-service fixing node; "
          "with the search's reachability contract a node is active iff reachable and in service, a branch iff in service with both ends "
          "active; no active slack raises instead of returning; reduce_pit's active tables are the order-preserving compression of the pit by "
          "these masks with FROM/TO renumbered to the rank of the original node and the full pit untouched; extract_results_active_pit "
          "copies every supplied row back from its rank, writes NaN (ambient / surrounding temperature in heat mode) to every "
          "unsupplied row and leaves FROM/TO and the other stage's unknown alone."),
    note=(TB + "scipy.sparse.csgraph.breadth_first_order by assumed contract (returns exactly the nodes reachable in the given adjacency; A4); "
          "compress / cumsum by the rank axioms (A4); 'results identical to the network with the unsupplied part deleted' is the composition "
          "reduce -> solve on the active pit (C01/C02 speak about whatever pit they get) -> copy back, written out in DESIGN.md, not "
          "mechanised; the per-table index lookups of reduce_lookups (label -> active position) belong to C06."),
    ref="DESIGN.md section 4 C04")

CHECKS["C06"] = dict(
    engine="E3",
    technique="contract-based deductive verification: VCs from the AST of the label->position code (Junction.create_node_lookups, create_branch_lookups of every branch class, create_pit_*_entries, reduce_lookups, positional result writers) for arbitrary table lengths and arbitrary non-negative unique labels, relabelling/permutation lemmas over these contracts, discharged by z3; bounded stand-ins for _sum_by_group and the multi-section placement code",
    text=("Proved for every table length and every injective non-negative labelling: the index lookups map label(i) to start+i and are -1 "
          "elsewhere; FROM_NODE/TO_NODE of every branch-without-internals class are lookup[from/to label], ELEMENT_IDX the label, ACTIVE the "
          "class's activity column (valve: opened), other pit rows untouched; junction row i lands in pit row f+i; the active lookups map a "
          "label to the rank of its position or -1; results are written back positionally (row i <- pit row f+i, supplied rows only); "
          "lemmas: the from node is the row of the junction whose label equals the reference, invariant under any injective relabelling and "
          "equivariant under row permutations -- labels are used as array positions only."),
    note=(TB + "A4 (pandas index unique -- established by the create functions, C16 -- and non-negative; fancy stores with unique indices). BOUNDED, not "
          "proved: _sum_by_group (numpy/numba, labels on both sides of the 1e5 switch, vectors <= 4, thorough tier <= 6) and the multi-section pipe code "
          "(np.repeat / np.insert / argsort placement in Pipe.create_pit_*_entries and extract_branch_results_with_internals) by a whole-pipeline "
          "relabelling run on one network (216 cases). Labels >= 2^31 are outside the int32 lookups and not covered. 'Same results' follows from "
          "equal pits only together with determinism of the solver (C12)."),
    ref="DESIGN.md section 4 C06")

CHECKS["C16"] = dict(
    engine="E5",
    technique="contract-based deductive verification of the wiring: every create_* function is discovered from the AST and evaluated symbolically over untyped argument values with recording contracts for the pandas/pandapower callees; trace obligations (checks before writes, references checked, index checked/written/returned, written columns = component input columns, column <- parameter, bulk = plural of single, documented = signature defaults); bounded native stand-in for the assumed row writers",
    text=("Proved for all argument values, per path of each of 26 create functions: every junction / std-type reference and the index are "
          "passed to a check before the first write, nothing raises after a write, the written index is the checked one and is returned, "
          "the written columns are exactly the component's input columns and column c carries parameter c (bool columns its truth value; "
          "ext-grid type by _auto_ext_grid_type; pipe std-type columns the loaded type's parameters; mass storage content clamped as "
          "documented); bulk functions write the same columns from the plural parameters with the same defaults and the plural checks; "
          "documented defaults equal the signature defaults; _check_std_type raises exactly for unknown types."),
    note=(TB + "ASSUMED (A4): _set_entries / _set_multiple_entries add exactly the rows `index` with the given entries and keep the column dtypes "
          "(pandas), pandapower's _check_* / _get_*index_with_check raise for unknown references / duplicate indices, without touching the net; the "
          "deprecated_input decorators are not applied. These assumptions and create_valves / create_heat_consumers (numpy bookkeeping over untyped "
          "sequences, outside the subset) are exercised by a BOUNDED native stand-in on one small net (not proved). Geodata branches of "
          "create_junctions are evaluated with geodata=None. A raise inside _preserve_dtypes after the write (NaN in a bool column) is not covered."),
    ref="DESIGN.md section 4 C16")

CHECKS["C17"] = dict(
    engine="E5",
    technique="contract-based deductive verification over abstract data frames: the real reindex_elements / fuse_junctions / drop_* / continuous-index functions are evaluated symbolically with every table an uninterpreted frame (any contents), writes recorded as terms; the reference schema is derived from the create functions' checked parameters and compared with element_junction_tuples / _junction_reference_rows; bounded native stand-in for select_subnet and the pandas semantics",
    text=("Proved for arbitrary table contents: the junction-reference columns listed by element_junction_tuples are exactly the columns the "
          "create functions fill with checked junction parameters, restricted by _junction_reference_rows to the rows created as junction "
          "references (valve.element only for et != 'pi'); reindex_elements maps the index, its geodata and result index and exactly these "
          "cells through the lookup (pipe relabelling: valve.element of the et == 'pi' rows only) and writes nothing else; fuse_junctions "
          "redirects exactly these cells with a value in j2 and drops j2 keeping elements; drop_elements_at_junctions / drop_junctions / "
          "drop_pipes drop exactly the referencing rows with their result rows, pipes through drop_pipes, attached valves with their pipes; the "
          "continuous index is sorted old index -> start.. delegated to reindex_elements."),
    note=(TB + "ASSUMED (A4): pandas label indexing / isin / drop / .loc assignment and pandapower's get_indices(values, lookup) = elementwise lookup. "
          "The frames are uninterpreted: obligations are equalities of recorded read/write terms, so they decide WHICH cells are rewritten, not pandas' "
          "arithmetic. select_subnet, create_continuous_elements_index and 'results unchanged up to relabelling' are exercised only by the BOUNDED native "
          "stand-in (one network, 3 labellings incl. pipe label == junction label; not proved). Sequences of operations are covered only as far as each "
          "operation's postcondition re-establishes referential integrity (its precondition)."),
    ref="DESIGN.md section 4 C17")

CHECKS["C18"] = dict(
    engine="E5",
    technique="contract-based deductive verification over abstract data frames: add_branch_component / init_par are evaluated symbolically for every branch component class (any table contents), the recorded edge arrays are compared with the solver-side schema proved in C04/C06/C17 (end columns, activity column, pipe-attached valves, flow-return components, slack definition); unsupplied_junctions' root set is evaluated the same way; bounded native comparison with the pipeflow",
    text=("Proved for arbitrary table contents and every branch component class: create_nxgraph's edge arrays hold one edge per row between the "
          "class's from/to junction columns (the columns the pit construction translates), keyed by the row label, with status = the "
          "class's activity column (valve: opened) when respected and all rows otherwise; pipe-attached valves add no edge and a closed one "
          "switches its pipe's edge off; unsupplied_junctions roots the search at in-service external grids of type p/pt and flow junctions of "
          "in-service circulation pumps, the solver's slack definition (C04)."),
    note=(TB + "ASSUMED (A4): pandapower's get_edge_table / add_edges (one graph edge per row with status True, nodes removed for out-of-service "
          "junctions) and networkx' connected_components / Dijkstra. The include_* / respect_status_* keyword plumbing of create_nxgraph (locals(), "
          "string formatting), junction removal, distances and the island agreement itself are exercised only by the BOUNDED native stand-in "
          "(512 flag patterns of one gas network; not proved). Known finding F31: flow-return components connect in the graph but not in the solver."),
    ref="DESIGN.md section 4 C18")

NOT_APPLICABLE = {
    "C08": "uniqueness of the solution of the nonlinear system within tolerances and convergence of damped Newton in floating point: a whole-history/analytic property, no pre/post contract within reach expresses it (DESIGN.md section 5)",
    "C15": "the save/load round trip is the behaviour of pandapower/pandas/json/pickle/scipy object state; a contract strong enough would have to assume the property (DESIGN.md section 5)",
}

NOT_BUILT_YET = {}


def main():
    all_ids = ["C%02d" % i for i in range(1, 21)]
    checks = []
    for pid in all_ids:
        if pid not in CHECKS:
            continue
        c = CHECKS[pid]
        # what the last run of this check actually contained (from its evidence file): bounded stand-ins and Lean lemmas are
        # named in the level note so that the claim can never be read as "everything proved"
        extra = ""
        ev = os.path.join(VERIF, "evidence", pid + ".json")
        if os.path.exists(ev):
            try:
                cov = json.load(open(ev))["coverage"]
                bnd = [b["id"].split("/", 1)[1] for b in cov.get("bounded_obligations", [])]
                lean = sum(v for k, v in cov.get("obligations_by_backend", {}).items() if k.startswith("lean"))
                if bnd:
                    extra += " Bounded stand-ins in this check (labelled bounded, not counted as proved): %s." % "; ".join(bnd)
                if lean:
                    extra += " %d spec-level lemmas are discharged by Lean 4 + Mathlib (lean/Lemmas.lean)." % lean
                if os.path.exists(os.path.join(VERIF, "contracts", pid + ".py")) and \
                        "FALLBACK_REPLAY" in open(os.path.join(VERIF, "contracts", pid + ".py")).read():
                    extra += " Refuted obligations without a model-specific replay are replayed through a property-level native oracle."
            except Exception:  # noqa
                pass
        checks.append({
            "property_id": pid,
            "quick_cmd": "./check %s --tier quick" % pid,
            "thorough_cmd": "./check %s --tier thorough" % pid,
            "evidence_file": "/verif/evidence/%s.json" % pid,
            "replay_cmd_template": "./check %s --replay {path}" % pid,
            "engine": c["engine"],
            "level_claimed": {"category": "proof", "text": c["text"], "design_ref": c["ref"]},
            "level_note": c["note"] + extra,
            "technique": c["technique"],
        })
    na = []
    for pid in all_ids:
        if pid in CHECKS:
            continue
        if pid in NOT_APPLICABLE:
            na.append({"property_id": pid, "reason": NOT_APPLICABLE[pid]})
        else:
            na.append({"property_id": pid, "reason": NOT_BUILT_YET.get(
                pid, "check not built yet in this session (planned, see DESIGN.md section 4); not claimed until it exists")})
    man = {
        "version": 1,
        "setup_cmd": "./setup.sh",
        "hooks": {"guard": "PANDAPIPES_VERIF",
                  "enable": "not used - sidecar contracts only, no instrumentation in /repo",
                  "baseline_off_cmd": BASELINE_OFF, "source_commits": [], "add_only": True},
        "engines": [
            {"name": "pvc", "path": "/verif/pvc", "serves_properties": sorted(CHECKS),
             "kind_free_text": "home-made verification-condition generator for Python (ast -> z3/cvc5) with sidecar contracts in /verif/contracts; replay and bounded stand-ins in /verif/replay under the repository's interpreter"}],
        "checks": checks,
        "not_applicable": na,
        "notes": "exit codes of ./check: 0 held, 1 VIOLATION, 2 undecided (never reported as violation), 3 checker fault",
    }
    with open(os.path.join(VERIF, "MANIFEST.json"), "w") as f:
        json.dump(man, f, indent=1)
    print("MANIFEST.json written: %d checks, %d not_applicable" % (len(checks), len(na)))


if __name__ == "__main__":
    main()
