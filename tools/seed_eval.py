#!/usr/bin/env python3
"""Seeded-defect bookkeeping.

  verify <dir>   confirm a candidate in a scratch worktree outside /repo and /verif: the demo exits
                 non-zero with the patch and zero without it, and the unedited test suite still
                 passes with the patch.  Writes <dir>/verified.json.
  detect <dir> [props...]
                 apply the patch to /repo, run the registered quick checks (default: the property
                 named in meta.json), undo the patch (git checkout -- .).  Writes <dir>/detect.json.
"""
import json
import os
import subprocess
import sys
import shutil

VERIF = os.path.dirname(os.path.dirname(os.path.abspath(__file__)))


def sh(cmd, **kw):
    return subprocess.run(cmd, shell=True, capture_output=True, text=True, **kw)


def verify(d):
    wt = "/tmp/wt_verify_%d" % os.getpid()
    sh("git -C /repo worktree remove --force %s" % wt)
    r = sh("git -C /repo worktree add -q --detach %s HEAD" % wt)
    out = {"worktree": wt}
    try:
        demo = os.path.join(d, "demo.py")
        env = dict(os.environ, PYTHONPATH=wt + "/src")
        r0 = subprocess.run(["/venv/bin/python", "-W", "ignore", demo], capture_output=True, text=True, env=env,
                            cwd="/tmp")
        out["demo_unchanged_exit"] = r0.returncode
        ap = sh("git -C %s apply %s" % (wt, os.path.join(d, "patch.diff")))
        out["apply"] = ap.returncode
        if ap.returncode != 0:
            out["apply_err"] = ap.stderr[-500:]
        r1 = subprocess.run(["/venv/bin/python", "-W", "ignore", demo], capture_output=True, text=True, env=env,
                            cwd="/tmp")
        out["demo_changed_exit"] = r1.returncode
        out["demo_changed_out"] = (r1.stdout + r1.stderr)[-600:]
        t = subprocess.run("cd %s && PYTHONPATH=%s/src /venv/bin/python -m pytest src/pandapipes/test -q "
                           "-p no:cacheprovider -n 12 -W ignore --timeout=900 2>&1 | tail -1" % (wt, wt),
                           shell=True, capture_output=True, text=True)
        out["suite"] = t.stdout.strip()
        out["ok"] = (out["demo_unchanged_exit"] == 0 and out["demo_changed_exit"] != 0 and ap.returncode == 0
                     and "446 passed" in out["suite"] and " failed" not in out["suite"]
                     and " error" not in out["suite"])
    finally:
        sh("git -C /repo worktree remove --force %s" % wt)
        shutil.rmtree(wt, ignore_errors=True)
    json.dump(out, open(os.path.join(d, "verified.json"), "w"), indent=1)
    print(d, "OK" if out.get("ok") else "NOT-CONFIRMED", out.get("suite"), out.get("demo_changed_exit"))


def detect(d, props):
    meta = json.load(open(os.path.join(d, "meta.json")))
    if not props:
        props = [meta["property"]]
    st = sh("git -C /repo status --porcelain")
    if st.stdout.strip():
        print("refusing: /repo has uncommitted changes")
        sys.exit(2)
    ap = sh("git -C /repo apply %s" % os.path.join(d, "patch.diff"))
    res = {"applied": ap.returncode == 0, "checks": {}}
    try:
        if ap.returncode == 0:
            for p in props:
                env = dict(os.environ, PVC_OUT="/tmp/seed_detect_out")
                r = subprocess.run([os.path.join(VERIF, "check"), p], capture_output=True, text=True, cwd=VERIF,
                                   env=env)
                viol = [l for l in r.stdout.splitlines() if l.startswith("VIOLATION")]
                und = [l for l in r.stderr.splitlines() if l.startswith("UNDECIDED")]
                res["checks"][p] = {"exit": r.returncode, "violations": viol[:6], "n_violations": len(viol),
                                    "undecided": und[:4], "summary": r.stdout.strip().splitlines()[-1:]}
    finally:
        sh("git -C /repo checkout -- .")
        shutil.rmtree("/tmp/seed_detect_out", ignore_errors=True)
    json.dump(res, open(os.path.join(d, "detect.json"), "w"), indent=1)
    for p, c in res["checks"].items():
        print(d, p, "exit", c["exit"], "violations", c["n_violations"], (c["violations"][:1] or c["undecided"][:1]))


def sweep(d, jobs=5):
    """run every claimed quick check against a scratch copy of /repo with the patch applied (PVC_REPO);
    writes <dir>/sweep.json"""
    import tempfile
    from concurrent.futures import ThreadPoolExecutor
    man = json.load(open(os.path.join(VERIF, "MANIFEST.json")))
    props = [c["property_id"] for c in man["checks"]]
    base = tempfile.mkdtemp(prefix="pvc_seed_", dir="/tmp")
    res = {}
    try:
        sh("rsync -a --exclude .git --exclude doc --exclude 'tutorials*' /repo/ %s/" % base)
        ap = sh("cd %s && patch -p1 < %s" % (base, os.path.join(d, "patch.diff")))
        if ap.returncode != 0:
            print("patch failed", ap.stdout[-300:], ap.stderr[-300:])
            return

        def run(p):
            env = dict(os.environ, PVC_REPO=base, PVC_OUT=os.path.join(base, "_out_" + p), PVC_JOBS="4")
            r = subprocess.run([os.path.join(VERIF, "check"), p], capture_output=True, text=True, cwd=VERIF, env=env)
            viol = [l.split("obligation=")[-1][:200] for l in r.stdout.splitlines() if l.startswith("VIOLATION")]
            return p, {"exit": r.returncode, "n_violations": len(viol), "violations": viol[:4]}
        with ThreadPoolExecutor(jobs) as ex:
            for p, c in ex.map(run, props):
                res[p] = c
    finally:
        shutil.rmtree(base, ignore_errors=True)
    json.dump(res, open(os.path.join(d, "sweep.json"), "w"), indent=1)
    hit = {p: c["violations"][:1] for p, c in res.items() if c["exit"] == 1}
    other = {p: c["exit"] for p, c in res.items() if c["exit"] not in (0, 1)}
    print(d, "CAUGHT by" if hit else "MISSED", hit, ("non-0/1 exits: %s" % other) if other else "")


def own(d):
    """run only the quick check of the property the seed targets against a scratch copy with the patch; writes own.json"""
    import tempfile
    meta = json.load(open(os.path.join(d, "meta.json")))
    p = meta["property"]
    base = tempfile.mkdtemp(prefix="pvc_own_", dir="/tmp")
    try:
        sh("rsync -a --exclude .git --exclude doc --exclude 'tutorials*' /repo/ %s/" % base)
        ap = sh("cd %s && patch -p1 < %s" % (base, os.path.join(d, "patch.diff")))
        if ap.returncode != 0:
            print("patch failed", d)
            return
        env = dict(os.environ, PVC_REPO=base, PVC_OUT=os.path.join(base, "_out"), PVC_JOBS="8")
        r = subprocess.run([os.path.join(VERIF, "check"), p], capture_output=True, text=True, cwd=VERIF, env=env)
        viol = [l.split("obligation=")[-1][:220] for l in r.stdout.splitlines() if l.startswith("VIOLATION")]
        res = {"property": p, "exit": r.returncode, "n_violations": len(viol), "violations": viol[:5],
               "replayed": sum(1 for v in viol if not v.endswith("no-failing-input-found"))}
    finally:
        shutil.rmtree(base, ignore_errors=True)
    json.dump(res, open(os.path.join(d, "own.json"), "w"), indent=1)
    print(d, "OWN-CHECK", "CAUGHT" if res["exit"] == 1 else "exit %d" % res["exit"], res["violations"][:1])


if __name__ == "__main__":
    if sys.argv[1] == "own":
        for d in sys.argv[2:]:
            own(d)
        sys.exit(0)
    if sys.argv[1] == "verify":
        verify(sys.argv[2])
    elif sys.argv[1] == "sweep":
        for d in sys.argv[2:]:
            sweep(d)
    else:
        detect(sys.argv[2], sys.argv[3:])
