#!/bin/sh
# run before committing evidence: every claimed quick check must exit 0 on the unchanged tree (a forgotten --update-ledger
# after adding / renaming a unit shows up here as exit 2), then the generated tables and the manifest are refreshed
cd "$(dirname "$0")/.."
rc=0
for c in $(python3 -c "import json; print(' '.join(c['property_id'] for c in json.load(open('MANIFEST.json'))['checks']))"); do
  ./check $c --tier quick > out/precommit_$c.log 2>&1
  r=$?
  echo "$c exit=$r $(tail -1 out/precommit_$c.log | cut -c1-120)"
  [ $r -eq 0 ] || rc=1
done
python3 tools/fill_design.py
python3 tools/gen_manifest.py > /dev/null
exit $rc
