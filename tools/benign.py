#!/usr/bin/env python3
"""False-alarm self-test: applies behaviour-preserving refactorings (selftest/benign/*.diff: renamed locals, reordered
independent statements, equivalent expressions) to a scratch copy of /repo and runs every claimed quick check against it
(PVC_REPO).  Expected: no VIOLATION anywhere (exit 2 = undecided is reported, but is not an alarm)."""
import glob
import json
import os
import shutil
import subprocess
import sys
import tempfile

VERIF = os.path.dirname(os.path.dirname(os.path.abspath(__file__)))


def main():
    man = json.load(open(os.path.join(VERIF, "MANIFEST.json")))
    props = [c["property_id"] for c in man["checks"]]
    bad = 0
    for patch in sorted(glob.glob(os.path.join(VERIF, "selftest", "benign", "*.diff"))):
        base = tempfile.mkdtemp(prefix="pvc_benign_", dir="/tmp")
        try:
            subprocess.run("rsync -a --exclude .git --exclude doc --exclude 'tutorials*' /repo/ %s/" % base, shell=True, check=True)
            ap = subprocess.run("cd %s && patch -p1 -s < %s" % (base, patch), shell=True, capture_output=True, text=True)
            if ap.returncode != 0:
                print(os.path.basename(patch), "does not apply any more (the tree changed):", ap.stdout[-200:])
                continue
            for p in props:
                env = dict(os.environ, PVC_REPO=base, PVC_OUT=os.path.join(base, "_out_" + p), PVC_JOBS="8")
                r = subprocess.run([os.path.join(VERIF, "check"), p], capture_output=True, text=True, cwd=VERIF, env=env)
                viol = [l for l in r.stdout.splitlines() if l.startswith("VIOLATION")]
                print(os.path.basename(patch), p, "exit", r.returncode, "violations", len(viol), viol[:1])
                bad += len(viol)
        finally:
            shutil.rmtree(base, ignore_errors=True)
    print("false alarms:", bad)
    return 1 if bad else 0


if __name__ == "__main__":
    sys.exit(main())
