#!/usr/bin/env python3
"""prints the markdown status table of DESIGN.md section 11.1 from the evidence files and the seeded-change table of 11.6"""
import glob
import json
import os
import sys

VERIF = os.path.dirname(os.path.dirname(os.path.abspath(__file__)))


def status():
    print("| id  | obligations | discharged | by z3 | by evaluation | Lean | bounded stand-ins | known findings | functions named | solver s |")
    print("|-----|-----|-----|-----|-----|-----|-----|-----|-----|-----|")
    for f in sorted(glob.glob(os.path.join(VERIF, "evidence", "C*.json"))):
        e = json.load(open(f))
        c = e["coverage"]
        bb = c["obligations_by_backend"]
        z = sum(v for k, v in bb.items() if k.startswith("z3") or k.startswith("cvc5"))
        ev = sum(v for k, v in bb.items() if k == "evaluation")
        ln = sum(v for k, v in bb.items() if k.startswith("lean"))
        print("| %s | %d | %d | %d | %d | %d | %d | %d | %d | %.1f |" % (
            e["property_id"], c["obligations"], c["discharged"], z, ev, ln, c["bounded_count"],
            len(c["known_finding_obligations"]), len(c["functions_under_contract"]), c["solver_time_s"]))


def seeds():
    print("| seed | property | what was changed (needs to manifest) | own check | caught by (sweep of all checks at import time) |")
    print("|------|------|------|------|------|")
    for d in sorted(glob.glob(os.path.join(VERIF, "seeded", "*"))):
        try:
            meta = json.load(open(os.path.join(d, "meta.json")))
        except Exception:  # noqa
            continue
        own = json.load(open(os.path.join(d, "own.json"))) if os.path.exists(os.path.join(d, "own.json")) else None
        has_sweep = os.path.exists(os.path.join(d, "sweep.json"))
        sw = json.load(open(os.path.join(d, "sweep.json"))) if has_sweep else {}
        hit = sorted(p for p, c in sw.items() if c.get("exit") == 1)
        o = "-"
        if own:
            o = ("caught: `%s`%s" % (own["violations"][0].split(" ")[0].split("/", 1)[1][:70] if own["violations"] else "",
                                     " (replayed)" if own.get("replayed") else "")) if own["exit"] == 1 else "exit %d" % own["exit"]
        summ = (meta.get("summary", "") or "").replace("|", "/").replace("\n", " ")[:150]
        need = (meta.get("needs_to_manifest", "") or "").replace("|", "/").replace("\n", " ")[:110]
        print("| %s | %s | %s (%s) | %s | %s |" % (os.path.basename(d), meta.get("property"), summ, need, o, (", ".join(hit) or "none") if has_sweep else "(round 2: not swept)"))


if __name__ == "__main__":
    (seeds if len(sys.argv) > 1 and sys.argv[1] == "seeds" else status)()
