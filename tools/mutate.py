#!/usr/bin/env python3
"""Mutation self-test: applies small semantic mutants (tools/mutants.json) one by one to a scratch
copy of the repository OUTSIDE /repo and /verif, runs the named check against the copy
(PVC_REPO) and reports whether a named obligation failed.  The scratch copy is removed at the
end.  usage: tools/mutate.py [--prop Cxx] [--id substr] [--keep]"""
import argparse
import json
import os
import shutil
import subprocess
import sys
import tempfile

VERIF = os.path.dirname(os.path.dirname(os.path.abspath(__file__)))


def main():
    ap = argparse.ArgumentParser()
    ap.add_argument("--prop")
    ap.add_argument("--id")
    ap.add_argument("--tier", default="quick")
    ap.add_argument("--jobs", type=int, default=4)
    a = ap.parse_args()
    muts = json.load(open(os.path.join(VERIF, "tools", "mutants.json")))
    muts = [m for m in muts if (not a.prop or a.prop in m["props"]) and (not a.id or a.id in m["id"])]
    base = tempfile.mkdtemp(prefix="pvc_mut_", dir="/tmp")
    results = []
    try:
        from concurrent.futures import ThreadPoolExecutor

        def run(m):
            d = os.path.join(base, m["id"].replace("/", "_"))
            os.makedirs(d)
            subprocess.run(["rsync", "-a", "--exclude", ".git", "--exclude", "doc", "--exclude", "tutorials*",
                            "/repo/", d + "/"], check=True)
            path = os.path.join(d, m["file"])
            s = open(path).read()
            if m["old"] not in s:
                return (m, None, "pattern not found")
            s = s.replace(m["old"], m["new"], 1)
            open(path, "w").write(s)
            out = []
            for prop in m["props"]:
                env = dict(os.environ, PVC_REPO=d, PVC_JOBS="4")
                env["PVC_OUT"] = os.path.join(d, "_out")
                p = subprocess.run([os.path.join(VERIF, "check"), prop, "--tier", a.tier], env=env,
                                   capture_output=True, text=True, cwd=VERIF)
                viol = [l for l in p.stdout.splitlines() if l.startswith("VIOLATION")]
                out.append((prop, p.returncode, viol[:3], p.stdout.splitlines()[-1:] if p.stdout else ""))
            shutil.rmtree(d, ignore_errors=True)
            return (m, out, None)
        with ThreadPoolExecutor(a.jobs) as ex:
            results = list(ex.map(run, muts))
    finally:
        shutil.rmtree(base, ignore_errors=True)
    caught = 0
    for m, out, err in results:
        if err:
            print("%-40s ERROR %s" % (m["id"], err))
            continue
        ok = any(rc == 1 for _, rc, _, _ in out)
        caught += ok
        und = any(rc == 2 for _, rc, _, _ in out)
        print("%-40s %s" % (m["id"], "CAUGHT" if ok else ("UNDECIDED" if und else "SURVIVED")))
        for prop, rc, viol, last in out:
            print("      %s exit=%d %s" % (prop, rc, (viol[0][:160] if viol else last)))
    print("caught %d / %d" % (caught, len(results)))


if __name__ == "__main__":
    main()
