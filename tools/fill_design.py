#!/usr/bin/env python3
"""fills the generated tables of DESIGN.md (status from the evidence files, seeded changes from seeded/*)"""
import io
import os
import re
import subprocess
import sys
V = os.path.dirname(os.path.dirname(os.path.abspath(__file__)))
s = open(os.path.join(V, "DESIGN.md")).read()
for tag, arg in (("STATUS", []), ("SEEDS", ["seeds"])):
    out = subprocess.run([sys.executable, os.path.join(V, "tools", "status_table.py")] + arg, capture_output=True, text=True).stdout
    s = re.sub(r"<!-- %s-BEGIN -->.*?<!-- %s-END -->" % (tag, tag), lambda m: "<!-- %s-BEGIN -->\n%s<!-- %s-END -->" % (tag, out, tag), s, flags=re.S)
open(os.path.join(V, "DESIGN.md"), "w").write(s)
