"""Front end: read the *current* working tree of the repository as text, locate functions by
qualified name, resolve module-level constants and imports.  Nothing is imported from
pandapipes; everything goes through `ast`.

What the extraction drops (and only that): docstrings, `logger.*(...)` / `warnings.warn(...)`
expression statements, decorators (`@jit(...)`, `@classmethod`, `@staticmethod` are recorded but
not executed), type annotations.
"""
import ast
import hashlib
import os
from fractions import Fraction

REPO = os.environ.get("PVC_REPO", "/repo")
SRC = os.path.join(REPO, "src")


class SourceError(Exception):
    pass


class FunctionRef:
    """A function of the repository, located in the AST of the current tree."""

    def __init__(self, module, qualname, node, cls=None):
        self.module = module          # ModuleInfo
        self.qualname = qualname      # "f" or "Class.f"
        self.node = node              # ast.FunctionDef
        self.cls = cls                # class name or None

    @property
    def key(self):
        return "%s:%s" % (self.module.name, self.qualname)

    @property
    def span(self):
        return (self.node.lineno, self.node.end_lineno)

    def source_segment(self):
        return "\n".join(self.module.text.splitlines()[self.node.lineno - 1:self.node.end_lineno])

    def body_hash(self):
        return hashlib.sha256(self.source_segment().encode()).hexdigest()[:16]

    def __repr__(self):
        return "<FunctionRef %s>" % self.key


class ClassRef:
    def __init__(self, module, name, node):
        self.module = module
        self.name = name
        self.node = node
        self.bases = []
        for b in node.bases:
            if isinstance(b, ast.Name):
                self.bases.append(b.id)
            elif isinstance(b, ast.Attribute):
                self.bases.append(b.attr)

    @property
    def key(self):
        return "%s:%s" % (self.module.name, self.name)

    def __repr__(self):
        return "<ClassRef %s>" % self.key


_MODULES = {}


def module_path(modname):
    p = os.path.join(SRC, *modname.split("."))
    if os.path.isdir(p):
        return os.path.join(p, "__init__.py")
    return p + ".py"


class ModuleInfo:
    def __init__(self, name):
        self.name = name
        self.path = module_path(name)
        if not os.path.exists(self.path):
            raise SourceError("module %s not found at %s" % (name, self.path))
        with open(self.path, encoding="utf-8") as f:
            self.text = f.read()
        self.sha256 = hashlib.sha256(self.text.encode()).hexdigest()
        self.tree = ast.parse(self.text, filename=self.path)
        self.functions = {}
        self.classes = {}
        self.imports = {}      # local name -> (module, original name)  |  (module, None) for `import x`
        self.const_nodes = {}  # name -> ast expression (last module-level assignment)
        self._const_cache = {}
        self._scan(self.tree.body)

    def _scan(self, body, in_try=False):
        for st in body:
            if isinstance(st, ast.FunctionDef):
                self.functions[st.name] = FunctionRef(self, st.name, st)
            elif isinstance(st, ast.ClassDef):
                cr = ClassRef(self, st.name, st)
                self.classes[st.name] = cr
                for sub in st.body:
                    if isinstance(sub, ast.FunctionDef):
                        qn = "%s.%s" % (st.name, sub.name)
                        self.functions[qn] = FunctionRef(self, qn, sub, cls=st.name)
            elif isinstance(st, ast.ImportFrom):
                mod = st.module or ""
                if st.level:
                    base = self.name.split(".")
                    base = base[:len(base) - st.level]
                    mod = ".".join(base + ([st.module] if st.module else []))
                for a in st.names:
                    if a.name == "*":
                        if not hasattr(self, "star_imports"):
                            self.star_imports = []
                        self.star_imports.append(mod)
                        continue
                    self.imports.setdefault(a.asname or a.name, (mod, a.name))
            elif isinstance(st, ast.Import):
                for a in st.names:
                    self.imports.setdefault(a.asname or a.name.split(".")[0], (a.name, None))
            elif isinstance(st, ast.Assign):
                for t in st.targets:
                    if isinstance(t, ast.Name):
                        self.const_nodes[t.id] = st.value
                    elif isinstance(t, ast.Tuple) and isinstance(st.value, ast.Tuple) \
                            and len(t.elts) == len(st.value.elts):
                        for tt, vv in zip(t.elts, st.value.elts):
                            if isinstance(tt, ast.Name):
                                self.const_nodes[tt.id] = vv
            elif isinstance(st, ast.Try):
                # `try: import numba ... except ImportError:` -- the try body is what runs here
                self._scan(st.body, True)
                if not in_try:
                    for h in st.handlers:
                        # names only defined in the handler (fallbacks) are kept if absent
                        sub = ModuleInfo.__new__(ModuleInfo)
                        sub.functions, sub.classes, sub.imports, sub.const_nodes = {}, {}, {}, {}
                        sub.name = self.name
                        ModuleInfo._scan(sub, h.body, True)
                        for k, v in sub.imports.items():
                            self.imports.setdefault(k, v)
                        for k, v in sub.const_nodes.items():
                            self.const_nodes.setdefault(k, v)
            elif isinstance(st, ast.If):
                pass

    def function(self, qualname):
        if qualname not in self.functions:
            raise SourceError("function %s not found in %s" % (qualname, self.name))
        return self.functions[qualname]

    def constant(self, name, _depth=0):
        """Evaluate a module-level constant (numbers, strings, containers of those, simple
        arithmetic, names of other constants, imported constants)."""
        if name in self._const_cache:
            return self._const_cache[name]
        if _depth > 20:
            raise SourceError("constant recursion on %s.%s" % (self.name, name))
        if name in self.const_nodes:
            v = self._eval_const(self.const_nodes[name], _depth)
        elif name in self.imports:
            mod, orig = self.imports[name]
            if orig is None or not mod.startswith("pandapipes"):
                raise SourceError("%s.%s is not a repository constant" % (self.name, name))
            v = get_module(mod).constant(orig, _depth + 1)
        else:
            raise SourceError("no constant %s in %s" % (name, self.name))
        self._const_cache[name] = v
        return v

    def _eval_const(self, node, depth):
        if isinstance(node, ast.Constant):
            v = node.value
            if isinstance(v, float):
                return Fraction(repr(v))
            return v
        if isinstance(node, ast.Name):
            return self.constant(node.id, depth + 1)
        if isinstance(node, ast.UnaryOp) and isinstance(node.op, ast.USub):
            return -self._eval_const(node.operand, depth)
        if isinstance(node, ast.BinOp):
            a = self._eval_const(node.left, depth)
            b = self._eval_const(node.right, depth)
            if isinstance(node.op, ast.Add):
                return a + b
            if isinstance(node.op, ast.Sub):
                return a - b
            if isinstance(node.op, ast.Mult):
                return a * b
            if isinstance(node.op, ast.Div):
                return Fraction(a) / Fraction(b)
            if isinstance(node.op, ast.Pow) and isinstance(b, int):
                return a ** b
            raise SourceError("unsupported constant op")
        if isinstance(node, ast.Tuple):
            return tuple(self._eval_const(e, depth) for e in node.elts)
        if isinstance(node, ast.List):
            return [self._eval_const(e, depth) for e in node.elts]
        if isinstance(node, ast.Set):
            return set(self._eval_const(e, depth) for e in node.elts)
        if isinstance(node, ast.Dict):
            return {self._eval_const(k, depth): self._eval_const(v, depth)
                    for k, v in zip(node.keys, node.values)}
        raise SourceError("unsupported constant expression %s" % ast.dump(node)[:80])

    def has_constant(self, name):
        try:
            self.constant(name)
            return True
        except SourceError:
            return False


def get_module(name):
    if name not in _MODULES:
        _MODULES[name] = ModuleInfo(name)
    return _MODULES[name]


def get_function(key):
    """key = 'pandapipes.pf.derivative_toolbox:derivatives_hydraulic_incomp_np'"""
    mod, qn = key.split(":")
    return get_module(mod).function(qn)


def resolve_import(modinfo, name):
    """Follow `from X import name` chains inside the repository to a FunctionRef / ClassRef /
    constant.  Returns ('function', ref) | ('class', ref) | ('const', value) | ('external', (mod, name))"""
    seen = set()
    mi, nm = modinfo, name
    while True:
        if (mi.name, nm) in seen:
            raise SourceError("import cycle for %s" % name)
        seen.add((mi.name, nm))
        if nm in mi.functions:
            return "function", mi.functions[nm]
        if nm in mi.classes:
            return "class", mi.classes[nm]
        if nm in mi.const_nodes:
            try:
                return "const", mi.constant(nm)
            except SourceError:
                return "opaque", (mi.name, nm)
        if nm in mi.imports:
            mod, orig = mi.imports[nm]
            if orig is None:
                return "external", (mod, None)
            if not mod.startswith("pandapipes"):
                return "external", (mod, orig)
            try:
                mi = get_module(mod)
            except SourceError:
                return "external", (mod, orig)
            nm = orig
            continue
        # star imports (package __init__ files re-export their submodules)
        found = None
        for sm in getattr(mi, "star_imports", []):
            if not sm.startswith("pandapipes"):
                continue
            try:
                sub = get_module(sm)
            except SourceError:
                continue
            if nm in sub.functions or nm in sub.classes or nm in sub.const_nodes or nm in sub.imports \
                    or getattr(sub, "star_imports", None):
                if (sub.name, nm) in seen:
                    continue
                r = resolve_import(sub, nm)
                if r[0] != "unknown":
                    found = r
                    break
        if found is not None:
            return found
        return "unknown", (mi.name, nm)


def all_repo_modules(exclude=("test", "converter", "plotting", "networks")):
    out = []
    root = os.path.join(SRC, "pandapipes")
    for dp, dn, fn in os.walk(root):
        rel = os.path.relpath(dp, SRC).split(os.sep)
        if any(x in rel for x in exclude):
            continue
        for f in fn:
            if f.endswith(".py"):
                parts = rel + ([] if f == "__init__.py" else [f[:-3]])
                out.append(".".join(parts))
    return sorted(out)


def strip_docstring(body):
    if body and isinstance(body[0], ast.Expr) and isinstance(body[0].value, ast.Constant) \
            and isinstance(body[0].value.value, str):
        return body[1:]
    return body


def is_dropped_stmt(st):
    """logger.*(...), logging.*(...), warnings.warn(...), print(...) expression statements."""
    if isinstance(st, ast.Expr) and isinstance(st.value, ast.Call):
        f = st.value.func
        if isinstance(f, ast.Attribute) and isinstance(f.value, ast.Name):
            if f.value.id in ("logger", "logging") or (f.value.id == "warnings" and f.attr == "warn"):
                return True
        if isinstance(f, ast.Name) and f.id in ("print",):
            return True
    return False


def file_hashes(modnames):
    return {m: get_module(m).sha256 for m in modnames}


def resolve_import_from(mod, name):
    """`from mod import name` for a repository module"""
    try:
        mi = get_module(mod)
    except SourceError:
        # `from pandapipes.pf import x` where x is a submodule
        raise
    if name not in mi.functions and name not in mi.classes and name not in mi.const_nodes \
            and name not in mi.imports and not getattr(mi, "star_imports", None):
        # maybe a submodule
        try:
            get_module(mod + "." + name)
            return "external", (mod + "." + name, None)
        except SourceError:
            return "unknown", (mod, name)
    return resolve_import(mi, name)
