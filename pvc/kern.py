"""Symbolic inputs for the row-wise kernel VCs (engine E2) and comparison helpers."""
import z3
from .val import *  # noqa
from . import val as V
from . import src as S


def sym_arr(name, n, kind="f", nan=False):
    if kind == "f":
        uf = z3.Function(name, z3.IntSort(), z3.RealSort())
        if nan:
            nf = z3.Function(name + "_isnan", z3.IntSort(), z3.BoolSort())
            return Arr(n, lambda j: NS(uf(V.I(j)), nf(V.I(j))), "f", name)
        return Arr(n, lambda j: uf(V.I(j)), "f", name)
    if kind == "i":
        uf = z3.Function(name, z3.IntSort(), z3.IntSort())
        return Arr(n, lambda j: uf(V.I(j)), "i", name)
    uf = z3.Function(name, z3.IntSort(), z3.BoolSort())
    return Arr(n, lambda j: uf(V.I(j)), "b", name)


def sym_pit(name, n, ncols, int_cols=(), nan_cols=()):
    uf = z3.Function(name, z3.IntSort(), z3.IntSort(), z3.RealSort())
    ufi = z3.Function(name + "_int", z3.IntSort(), z3.IntSort(), z3.IntSort())
    nf = z3.Function(name + "_isnan", z3.IntSort(), z3.IntSort(), z3.BoolSort())
    int_cols = tuple(int_cols)
    nan_cols = tuple(nan_cols)

    def f(i, c):
        ii = V.I(i)
        if not is_z3(c):
            c = int(c)
            if c in int_cols:
                return z3.ToReal(ufi(ii, z3.IntVal(c)))
            if c in nan_cols:
                return NS(uf(ii, z3.IntVal(c)), nf(ii, z3.IntVal(c)))
            return uf(ii, z3.IntVal(c))
        cc = V.I(c)
        out = uf(ii, cc)
        for k in int_cols:
            out = z3.If(cc == k, z3.ToReal(ufi(ii, z3.IntVal(k))), out)
        if nan_cols:
            flag = z3.BoolVal(False)
            for k in nan_cols:
                flag = z3.If(cc == k, nf(ii, z3.IntVal(k)), flag)
            return NS(out, flag)
        return out
    return Pit(n, f, ncols, name)


def consts(modname, *names):
    m = S.get_module(modname)
    return [m.constant(nm) for nm in names]


def const(modname, name):
    return S.get_module(modname).constant(name)


def eq_val(a, b):
    """equality of two scalar values including the NaN flag: nan(a) == nan(b) and (not nan -> a == b)"""
    na, nb = nan_of(a), nan_of(b)
    va, vb = val_of(a), val_of(b)
    if isinstance(va, bool) or isinstance(vb, bool) or (is_z3(va) and z3.is_bool(va)) or \
            (is_z3(vb) and z3.is_bool(vb)):
        e = B(va) == B(vb)
    else:
        e = compare("==", va, vb)
        if isinstance(e, bool):
            e = z3.BoolVal(e)
    if na is False and nb is False:
        return e
    nae = B(na) if na is not False else z3.BoolVal(False)
    nbe = B(nb) if nb is not False else z3.BoolVal(False)
    return z3.And(nae == nbe, z3.Implies(z3.Not(nae), e))


def row_guard(r, n):
    return band(r >= 0, compare("<", r, n))


class Fluid:
    """the fluid object as seen by the kernels: property getters are uninterpreted functions of
    their arguments (the property classes themselves are under contract in C19)"""

    def __init__(self, is_gas, name="fluid"):
        from .ev import Obj
        self.is_gas = is_gas
        R_ = z3.RealSort()
        self.f_rho = z3.Function(name + "_density", R_, R_)
        self.f_cp = z3.Function(name + "_heat_capacity", R_, R_)
        self.f_eta = z3.Function(name + "_viscosity", R_, R_)
        self.f_comp = z3.Function(name + "_compressibility", R_, R_, R_)
        self.dc = z3.Real(name + "_der_compressibility")
        self.obj = Obj(name, {"is_gas": is_gas, "name": name})
        self.obj.attrs["get_density"] = _UFMethod(self.f_rho, 1)
        self.obj.attrs["get_heat_capacity"] = _UFMethod(self.f_cp, 1)
        self.obj.attrs["get_viscosity"] = _UFMethod(self.f_eta, 1)
        self.obj.attrs["get_compressibility"] = _UFMethod(self.f_comp, 2)
        self.obj.attrs["get_der_compressibility"] = _ConstMethod(self.dc)


class _UFMethod:
    def __init__(self, uf, arity):
        self.uf = uf
        self.arity = arity

    def call(self, ev, args, kwargs, lineno):
        args = list(args)[:self.arity]
        while len(args) < self.arity:
            args.append(0)
        arrs = [a for a in args if is_array(a)]
        uf = self.uf

        def app(*xs):
            nan = False
            for x in xs:
                nan = or_nan(nan, nan_of(x))
            return mk(uf(*[R(val_of(x)) for x in xs]), nan)
        if not arrs:
            return app(*args)
        if self.arity == 1:
            return ev.map1(app, args[0])
        return ev.map2(app, args[0], args[1], lineno)


class _ConstMethod:
    def __init__(self, v):
        self.v = v

    def call(self, ev, args, kwargs, lineno):
        return self.v
