"""Symbolic inputs for the row-wise kernel VCs (engine E2) and comparison helpers."""
import z3
from .val import *  # noqa
from . import val as V
from . import src as S


def sym_arr(name, n, kind="f", nan=False):
    if kind == "f":
        uf = z3.Function(name, z3.IntSort(), z3.RealSort())
        if nan:
            nf = z3.Function(name + "_isnan", z3.IntSort(), z3.BoolSort())
            return Arr(n, lambda j: NS(uf(V.I(j)), nf(V.I(j))), "f", name)
        return Arr(n, lambda j: uf(V.I(j)), "f", name)
    if kind == "i":
        uf = z3.Function(name, z3.IntSort(), z3.IntSort())
        return Arr(n, lambda j: uf(V.I(j)), "i", name)
    uf = z3.Function(name, z3.IntSort(), z3.BoolSort())
    return Arr(n, lambda j: uf(V.I(j)), "b", name)


def sym_pit(name, n, ncols, int_cols=(), nan_cols=()):
    uf = z3.Function(name, z3.IntSort(), z3.IntSort(), z3.RealSort())
    ufi = z3.Function(name + "_int", z3.IntSort(), z3.IntSort(), z3.IntSort())
    nf = z3.Function(name + "_isnan", z3.IntSort(), z3.IntSort(), z3.BoolSort())
    int_cols = tuple(int_cols)
    nan_cols = tuple(nan_cols)

    def f(i, c):
        ii = V.I(i)
        if not is_z3(c):
            c = int(c)
            if c in int_cols:
                return z3.ToReal(ufi(ii, z3.IntVal(c)))
            if c in nan_cols:
                return NS(uf(ii, z3.IntVal(c)), nf(ii, z3.IntVal(c)))
            return uf(ii, z3.IntVal(c))
        cc = V.I(c)
        out = uf(ii, cc)
        for k in int_cols:
            out = z3.If(cc == k, z3.ToReal(ufi(ii, z3.IntVal(k))), out)
        if nan_cols:
            flag = z3.BoolVal(False)
            for k in nan_cols:
                flag = z3.If(cc == k, nf(ii, z3.IntVal(k)), flag)
            return NS(out, flag)
        return out
    return Pit(n, f, ncols, name)


def consts(modname, *names):
    m = S.get_module(modname)
    return [m.constant(nm) for nm in names]


def const(modname, name):
    return S.get_module(modname).constant(name)


def eq_val(a, b):
    """equality of two scalar values including the NaN flag: nan(a) == nan(b) and (not nan -> a == b)"""
    na, nb = nan_of(a), nan_of(b)
    va, vb = val_of(a), val_of(b)
    if isinstance(va, bool) or isinstance(vb, bool) or (is_z3(va) and z3.is_bool(va)) or \
            (is_z3(vb) and z3.is_bool(vb)):
        e = B(va) == B(vb)
    else:
        e = compare("==", va, vb)
        if isinstance(e, bool):
            e = z3.BoolVal(e)
    if na is False and nb is False:
        return e
    nae = B(na) if na is not False else z3.BoolVal(False)
    nbe = B(nb) if nb is not False else z3.BoolVal(False)
    return z3.And(nae == nbe, z3.Implies(z3.Not(nae), e))


def row_guard(r, n):
    return band(r >= 0, compare("<", r, n))


class Fluid:
    """the fluid object as seen by the kernels: property getters are uninterpreted functions of
    their arguments (the property classes themselves are under contract in C19)"""

    def __init__(self, is_gas, name="fluid"):
        from .ev import Obj
        self.is_gas = is_gas
        R_ = z3.RealSort()
        self.f_rho = z3.Function(name + "_density", R_, R_)
        self.f_cp = z3.Function(name + "_heat_capacity", R_, R_)
        self.f_eta = z3.Function(name + "_viscosity", R_, R_)
        self.f_comp = z3.Function(name + "_compressibility", R_, R_, R_)
        self.dc = z3.Real(name + "_der_compressibility")
        self.obj = Obj(name, {"is_gas": is_gas, "name": name})
        self.obj.attrs["get_density"] = _UFMethod(self.f_rho, 1)
        self.obj.attrs["get_heat_capacity"] = _UFMethod(self.f_cp, 1)
        self.obj.attrs["get_viscosity"] = _UFMethod(self.f_eta, 1)
        self.obj.attrs["get_compressibility"] = _UFMethod(self.f_comp, 2)
        self.obj.attrs["get_der_compressibility"] = _ConstMethod(self.dc)


class _UFMethod:
    def __init__(self, uf, arity):
        self.uf = uf
        self.arity = arity

    def call(self, ev, args, kwargs, lineno):
        args = list(args)[:self.arity]
        while len(args) < self.arity:
            args.append(0)
        arrs = [a for a in args if is_array(a)]
        uf = self.uf

        def app(*xs):
            nan = False
            for x in xs:
                nan = or_nan(nan, nan_of(x))
            return mk(uf(*[R(val_of(x)) for x in xs]), nan)
        if not arrs:
            return app(*args)
        if self.arity == 1:
            return ev.map1(app, args[0])
        return ev.map2(app, args[0], args[1], lineno)


class _ConstMethod:
    def __init__(self, v):
        self.v = v

    def call(self, ev, args, kwargs, lineno):
        return self.v


class NetObj:
    """the pandapipes net as seen by the functions under contract: a mapping with string keys that
    are also attributes (ADict).  Unknown keys raise KeyError / AttributeError."""

    def __init__(self, items=None, name="net"):
        self.items = dict(items or {})
        self.name = name
        self.writes = []

    def getitem(self, ev, key, lineno):
        from .ev import _Raise, ExcVal
        if not isinstance(key, str):
            raise Unsupported("net[%r]" % (key,))
        if key not in self.items:
            raise _Raise(ExcVal("KeyError", (key,)))
        return self.items[key]

    def setitem(self, ev, key, v, lineno):
        self.items[key] = v
        self.writes.append(key)

    def delitem(self, ev, key, lineno):
        self.items.pop(key)
        self.writes.append(key)

    def contains(self, ev, key):
        return key in self.items

    def getattr_(self, ev, attr, lineno):
        from .ev import _Raise, ExcVal, BoundMethod
        if attr in self.items:
            return self.items[attr]
        if attr in ("get", "pop", "keys", "update"):
            return _NetMethod(self, attr)
        raise _Raise(ExcVal("AttributeError", (attr,)))

    def setattr_(self, ev, attr, v, lineno):
        self.items[attr] = v
        self.writes.append(attr)


class _NetMethod:
    def __init__(self, net, name):
        self.net = net
        self.name = name

    def call(self, ev, args, kwargs, lineno):
        n = self.net
        if self.name == "get":
            return n.items.get(args[0], args[1] if len(args) > 1 else None)
        if self.name == "pop":
            n.writes.append(args[0])
            if args[0] in n.items:
                return n.items.pop(args[0])
            if len(args) > 1:
                return args[1]
            from .ev import _Raise, ExcVal
            raise _Raise(ExcVal("KeyError", (args[0],)))
        if self.name == "keys":
            return list(n.items.keys())
        if self.name == "update":
            for a in args:
                n.items.update(a)
                n.writes.extend(a.keys())
            return None


def make_fluid(is_gas, name="fluid", comp_2d=False):
    """fluid object whose *methods are the real ones* of pandapipes.properties.fluids.Fluid; the
    property objects behind them are uninterpreted functions (their classes are under contract
    in C19)."""
    from .ev import Obj
    from . import classes
    R_ = z3.RealSort()
    props = {}
    ufs = {}
    for pname in ("density", "viscosity", "heat_capacity"):
        uf = z3.Function("%s_%s" % (name, pname), R_, R_)
        ufs[pname] = uf
        props[pname] = Obj(pname, {"get_at_value": _UFMethod(uf, 1)})
    if comp_2d:
        uf = z3.Function("%s_compressibility" % name, R_, R_, R_)
        props["compressibility"] = Obj("compressibility", {"get_at_value": _UFMethod(uf, 2),
                                                           "allow_2d": True})
    else:
        uf = z3.Function("%s_compressibility" % name, R_, R_)
        props["compressibility"] = Obj("compressibility", {"get_at_value": _UFMethod(uf, 1)})
    ufs["compressibility"] = uf
    dc = z3.Real(name + "_der_compressibility")
    props["der_compressibility"] = Obj("der_compressibility", {"get_at_value": _ConstMethod(dc)})
    ufs["der_compressibility"] = dc
    mm = z3.Real(name + "_molar_mass")
    props["molar_mass"] = Obj("molar_mass", {"get_at_value": _ConstMethod(mm)})
    cref = S.get_module("pandapipes.properties.fluids").classes["Fluid"]
    o = Obj(name, {"name": name, "is_gas": is_gas, "fluid_type": "gas" if is_gas else "liquid",
                   "all_properties": props}, cls=cref)
    o.ufs = ufs
    return o


class Series(Arr):
    """a pandas Series / column: an array whose `.values` is itself"""
    is_series = True


class LabelSeries(Series):
    """a Series that remembers its index labels (selection made by .loc[labels, col]); assigning it
    to .loc[...] aligns by label, its .values is positional"""

    def __init__(self, n, f, kind="f", name=None, labels=None):
        Series.__init__(self, n, f, kind, name)
        self.labels = labels


class IndexObj:
    def __init__(self, arr):
        self.arr = arr

    def getattr_(self, ev, attr, lineno):
        if attr == "values":
            return self.arr
        if attr in ("max", "min"):
            from . import npmodel

            class _M:
                def call(_s, ev_, args, kwargs, lineno_):
                    return npmodel.reduce_extreme(ev_, attr, self.arr)
            return _M()
        raise Unsupported("index attribute %s" % attr)

    def getitem(self, ev, idx, lineno):
        return ev.arr_get(self.arr, idx, lineno, None)

    def length(self):
        return self.arr.n


class TableObj:
    """an element table of the net (pandas DataFrame): named columns of equal length plus the index.
    Column reads return the column buffer itself (`.values` is a view: stores through it would
    modify the user's table -- recorded in `writes`)."""

    def __init__(self, name, n, columns, index=None):
        self.name = name
        self.n = n
        self.columns = columns          # col -> Series
        self.index = index if index is not None else Series(n, sym_arr(name + "_index", n, "i").f, "i")
        self.writes = []

    def length(self):
        return self.n

    def contains(self, ev, key, *a):
        """`"col" in table`: a declared column is there; any other column MAY be there (optional user columns) -- a
        symbolic boolean, so both outcomes are explored; on the True outcome the column is an arbitrary float column"""
        if not isinstance(key, str):
            raise Unsupported("table membership of %r" % (key,))
        if key in self.columns:
            return True
        b = z3.Bool("has!%s.%s" % (self.name, key))
        self.__dict__.setdefault("optional", {})[key] = b
        return b

    def _col(self, c):
        from .ev import _Raise, ExcVal
        if c not in self.columns:
            opt = self.__dict__.get("optional", {})
            if c in opt:
                a = sym_arr("%s_%s" % (self.name, c), self.n, "f", True)
                self.columns[c] = Series(self.n, a.f, "f", "%s.%s" % (self.name, c))
                return self.columns[c]
            raise _Raise(ExcVal("KeyError", (c,)))
        return self.columns[c]

    def getattr_(self, ev, attr, lineno):
        if attr == "index":
            return IndexObj(self.index)
        if attr in self.columns or attr in self.__dict__.get("optional", {}):
            return self._col(attr)
        if attr == "columns":
            return list(self.columns.keys())
        from .ev import _Raise, ExcVal
        raise _Raise(ExcVal("AttributeError", (attr,)))

    def getitem(self, ev, key, lineno):
        if isinstance(key, str):
            return self._col(key)
        if is_array(key) and key.kind == "b" and not isinstance(key, Comp):
            # boolean row filter: a new frame (a copy) whose columns are compressed by the mask
            ev.same_len(self.n, key.n, lineno)
            cols = {}
            for c, s_ in self.columns.items():
                cc = Comp(key, s_.f, s_.kind)
                cc.is_series = True
                cols[c] = cc
            ft = TableObj(self.name + "[mask]", Count(key), cols,
                          index=Comp(key, self.index.f, "i"))
            ft.filtered_by = key
            return ft
        raise Unsupported("table subscript %r" % (key,))

    def setitem(self, ev, key, v, lineno):
        self.writes.append(key)
        if is_array(v):
            self.columns[key] = Series(v.n, v.f, v.kind)
        else:
            self.columns[key] = Series(self.n, lambda j, _v=v: _v, "f")


def sym_table(name, n, cols):
    """cols: {column: kind | (kind, nan)}"""
    out = {}
    for c, k in cols.items():
        kind, nan = (k, False) if isinstance(k, str) else k
        a = sym_arr("%s_%s" % (name, c), n, kind, nan)
        out[c] = Series(n, a.f, kind, "%s.%s" % (name, c))
    return TableObj(name, n, out)


class LabelTable:
    """a DataFrame addressed by index labels through .at / .loc (the multi-energy controllers):
    every column is a function label -> value.  `.at[idx, col]` needs a scalar label (list-likes
    raise ValueError as pandas does), `.loc[idx, col]` returns / stores the values at a label
    array (labels are unique: assumption A4 on pandas indices)."""

    def __init__(self, name, cols):
        self.name = name
        self.cols = {}
        for c in cols:
            uf = z3.Function("%s_%s" % (name, c), z3.IntSort(), z3.RealSort())
            self.cols[c] = (lambda x, _u=uf: _u(V.I(x)))
        self.writes = []

    def col0(self, c):
        uf = z3.Function("%s_%s" % (self.name, c), z3.IntSort(), z3.RealSort())
        return lambda x: uf(V.I(x))

    def getattr_(self, ev, attr, lineno):
        if attr == "at":
            return _Accessor(self, "at")
        if attr == "loc":
            return _Accessor(self, "loc")
        raise Unsupported("LabelTable attribute %s" % attr)


class _Accessor:
    def __init__(self, tbl, kind):
        self.tbl = tbl
        self.kind = kind

    def _split(self, idx):
        if not isinstance(idx, tuple) or len(idx) != 2 or not isinstance(idx[1], str):
            raise Unsupported("table accessor index %r" % (idx,))
        lab, col = idx
        if col not in self.tbl.cols:
            from .ev import _Raise, ExcVal
            raise _Raise(ExcVal("KeyError", (col,)))
        return lab, col

    def getitem(self, ev, idx, lineno):
        from .ev import _Raise, ExcVal
        lab, col = self._split(idx)
        f = self.tbl.cols[col]
        if self.kind == "at":
            if is_array(lab) or isinstance(lab, (list, tuple)):
                raise _Raise(ExcVal("ValueError", ("Invalid call for scalar access (getting)!",)))
            return f(lab)
        if is_array(lab):
            lf = lab.f
            return LabelSeries(lab.n, lambda j: f(lf(j)), "f", labels=lab)
        return f(lab)

    def setitem(self, ev, idx, v, lineno):
        from .ev import _Raise, ExcVal
        lab, col = self._split(idx)
        old = self.tbl.cols[col]
        if self.kind == "at":
            if is_array(lab) or isinstance(lab, (list, tuple)):
                raise _Raise(ExcVal("ValueError", ("Invalid call for scalar access (setting)!",)))
            if is_array(v):
                raise _Raise(ExcVal("ValueError", ("setting an array element with a sequence",)))
            self.tbl.cols[col] = (lambda x, _l=lab, _v=v, _o=old: ite(compare("==", x, _l), _v, _o(x)))
            self.tbl.writes.append((col, lab))
            return
        if is_array(lab) and getattr(v, "labels", None) is not None:
            # Series assigned through .loc: pandas aligns by LABEL -- the target label x receives the
            # Series' value at the position whose label is x (NaN if x is not among its labels)
            sl, sv = v.labels, v.f
            hit = lambda x: member(lab, x)
            pos = z3.Function("lpos!%d" % next(V._counter), z3.IntSort(), z3.IntSort())
            jj = fresh("j")
            ev.path.facts.append(z3.ForAll([jj], z3.Implies(
                z3.And(jj >= 0, B(compare("<", jj, sl.n))), pos(sl.f(jj)) == jj)))
            nanv = z3.Real("pandas_nan!%d" % next(V._counter))
            self.tbl.cols[col] = (lambda x, _o=old: ite(hit(x), ite(member(sl, x), sv(pos(V.I(x))), nanv), _o(x)))
            self.tbl.writes.append((col, lab))
            return
        if is_array(lab):
            if is_array(v):
                ev.same_len(lab.n, v.n, lineno)
                inv = z3.Function("linv!%d" % next(V._counter), z3.IntSort(), z3.IntSort())
                lf, vf = lab.f, v.f
                jj = fresh("j")
                hit = lambda x: member(lab, x)
                ev.path.facts.append(z3.ForAll([jj], z3.Implies(
                    z3.And(jj >= 0, B(compare("<", jj, lab.n))), inv(lf(jj)) == jj)))
                self.tbl.cols[col] = (lambda x, _o=old: ite(hit(x), vf(inv(V.I(x))), _o(x)))
            else:
                hit = lambda x: member(lab, x)
                self.tbl.cols[col] = (lambda x, _o=old, _v=v: ite(hit(x), _v, _o(x)))
        else:
            self.tbl.cols[col] = (lambda x, _l=lab, _v=v, _o=old: ite(compare("==", x, _l), _v, _o(x)))
        self.tbl.writes.append((col, lab))
