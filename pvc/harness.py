"""Verification units, obligations, the process pool and the verdict logic.

exit codes: 0 held (KNOWN-FINDING lines allowed) / 1 VIOLATION / 2 undecided / 3 checker fault
"""
import fnmatch
import importlib
import json
import multiprocessing as mp
import os
import subprocess
import sys
import time
import traceback

import z3

from . import src as S
from . import solve
from .val import Unsupported, B, band

VERIF = os.path.dirname(os.path.dirname(os.path.abspath(__file__)))
OUT = os.environ.get("PVC_OUT") or os.path.join(VERIF, "out")
EVID = os.path.join(OUT, "evidence") if os.environ.get("PVC_OUT") else os.path.join(VERIF, "evidence")
VENV_PY = "/venv/bin/python"

UNITS = {}


def oid_match(oid, pattern):
    """known-finding patterns: literal text with `*` as the only wildcard (ids contain brackets)"""
    import re
    rx = ".*".join(re.escape(part) for part in pattern.split("*"))
    return re.fullmatch(rx, oid) is not None


def unit(prop, name, functions=(), tier="quick", engine=""):
    def deco(fn):
        UNITS.setdefault(prop, []).append(
            {"prop": prop, "name": name, "fn": fn, "functions": list(functions), "tier": tier,
             "engine": engine, "module": fn.__module__})
        return fn
    return deco


class Ctx:
    def __init__(self, prop, unit_name, tier, seed, known):
        self.prop = prop
        self.unit = unit_name
        self.tier = tier
        self.seed = seed
        self.known = known          # known findings for this property
        self.obs = []
        self.bounded_obs = []
        self.functions = {}         # key -> {file, sha256, span, body_hash}
        self.inlined = set()
        self.assumptions = set()
        self.notes = []
        self.downgrades = []

    # ---- bookkeeping -------------------------------------------------------------------------
    def use_function(self, fref):
        self.functions[fref.key] = {"file": os.path.relpath(fref.module.path, S.REPO),
                                    "sha256": fref.module.sha256[:16],
                                    "span": list(fref.span), "body_hash": fref.body_hash()}

    def assume(self, *names):
        self.assumptions.update(names)

    def oid(self, label):
        return "%s/%s/%s" % (self.prop, self.unit, label)

    # ---- SMT obligations -----------------------------------------------------------------------
    def ob(self, label, kind, assumptions, goal, replay=None, blockers=None, lineno=None,
           timeout_ms=None, note=""):
        oid = self.oid(label)
        t0 = time.time()
        assumptions = [a for a in assumptions if a is not True]
        assumptions = [z3.BoolVal(a) if isinstance(a, bool) else a for a in assumptions]
        from . import val as _V
        assumptions = assumptions + _V.trans_axioms()
        cross = self.tier == "thorough"
        if os.environ.get("PVC_DUMP") and os.environ["PVC_DUMP"] in oid:
            with open(os.path.join(OUT, "dump_%s.smt2" % oid.replace("/", "_").replace(":", "_")[-120:]), "w") as f_:
                f_.write(solve._smt2(assumptions, goal))
        res = solve.prove(assumptions, goal, timeout_ms=timeout_ms, cross_check=cross)
        if cross and res["verdict"] == solve.Verdict.PROVED and kind != "cover" and not kind.startswith("safety"):
            # vacuity guard (thorough tier): the assumptions of a proved obligation must be satisfiable.  (Safety obligations
            # are exempt: they are collected on every syntactic path, and a path that is infeasible under the requires --
            # dead code for admissible inputs -- legitimately has contradictory assumptions.)
            ok_, _m, st_ = solve.satisfiable(assumptions, timeout_ms=500)
            if st_ == "unsat":
                res["vacuous"] = True
        rec = {"id": oid, "kind": kind, "verdict": res["verdict"], "backend": res["backend"],
               "seconds": round(res["seconds"], 4), "lineno": lineno, "note": note,
               "known": None, "replay": None, "model": None}
        if res.get("vacuous"):
            # contradictory assumptions: normal for an obligation stated on an infeasible path (path enumeration does not
            # prune); a checker fault only if EVERY proved obligation of the unit is vacuous (decided in report.finish)
            rec["vacuous"] = True
        if res.get("disagreement"):
            rec["fault"] = "z3 and cvc5 disagree (%s vs cvc5 %s)" % (res["verdict"], res.get("cvc5"))
        if cross:
            rec["cvc5"] = res.get("cvc5")
        if res["verdict"] == solve.Verdict.REFUTED:
            m = res["model"]
            rec["model"] = _model_str(m)
            # known finding with a blocking clause?
            kfs = [k for k in self.known if oid_match(oid, k["obligation"])
                   and k.get("status") == "known"]
            matched = None
            if kfs and blockers:
                blk = [z3.Not(B(blockers[k["block"]])) for k in kfs if k.get("block") in blockers]
                if blk:
                    res2 = solve.prove(assumptions + blk, goal, timeout_ms=timeout_ms)
                    if res2["verdict"] == solve.Verdict.PROVED:
                        matched = [k for k in kfs if k.get("block") in blockers]
                        rec["verdict"] = "proved-outside-known-finding"
                        rec["seconds"] += round(res2["seconds"], 4)
                    elif res2["verdict"] == solve.Verdict.REFUTED:
                        m = res2["model"]
                        rec["model"] = _model_str(m)
                        rec["note"] += " (counterexample outside the known-finding region)"
                    else:
                        rec["verdict"] = solve.Verdict.UNKNOWN
                        rec["note"] += " (re-query with blocking clause undecided)"
            elif kfs and not blockers:
                whole = [k for k in kfs if not k.get("block")]
                if whole:
                    matched = whole
                    rec["verdict"] = "known-finding"
            if matched:
                rec["known"] = [k["what"] for k in matched]
            elif rec["verdict"] == solve.Verdict.REFUTED and replay is not None and m is not None:
                try:
                    rec["replay"] = replay(m) if callable(replay) else replay
                except Exception as e:  # noqa
                    rec["replay"] = {"error": "replay builder failed: %s" % e}
        elif res["verdict"] == solve.Verdict.UNKNOWN:
            rec["note"] += " " + str(res.get("reason", ""))
            # the provers left it open: look for a counter-model of a bounded instance
            try:
                m2 = solve.refute_bounded(assumptions, goal)
            except Exception as e:  # noqa
                m2 = None
                rec["note"] += " (bounded refuter failed: %s)" % e
            if m2 is not None:
                rec["verdict"] = solve.Verdict.REFUTED
                rec["backend"] = "z3-%s (counter-model of a bounded instance, sizes <= 2)" % z3.get_version_string()
                rec["model"] = _model_str(m2)
                rec["note"] += " refuted on a bounded instance after the unbounded query stayed open"
                kfs = [k for k in self.known if oid_match(oid, k["obligation"]) and k.get("status") == "known"
                       and not k.get("block")]
                if kfs:
                    rec["verdict"] = "known-finding"
                    rec["known"] = [k["what"] for k in kfs]
                elif replay is not None:
                    try:
                        rec["replay"] = replay(m2) if callable(replay) else replay
                    except Exception as e:  # noqa
                        rec["replay"] = {"error": "replay builder failed: %s" % e}
        self.obs.append(rec)
        if os.environ.get("PVC_TRACE"):
            print("  [trace] %s %s %.2fs %s" % (oid, rec["verdict"], rec["seconds"], rec["backend"]),
                  file=sys.stderr, flush=True)
        return rec["verdict"] in (solve.Verdict.PROVED, "proved-outside-known-finding")

    def decided(self, label, kind, ok, witness=None, replay=None, note="", backend="evaluation"):
        """an obligation decided by exhaustive evaluation of a closed finite term (schemas,
        data files) -- counted as discharged like `decide` in a proof assistant"""
        oid = self.oid(label)
        rec = {"id": oid, "kind": kind, "verdict": solve.Verdict.PROVED if ok else solve.Verdict.REFUTED,
               "backend": backend, "seconds": 0.0, "lineno": None, "note": note, "known": None,
               "replay": None, "model": witness}
        if not ok:
            kfs = [k for k in self.known if oid_match(oid, k["obligation"])
                   and k.get("status") == "known" and not k.get("block")]
            if kfs:
                rec["verdict"] = "known-finding"
                rec["known"] = [k["what"] for k in kfs]
            elif replay is not None:
                rec["replay"] = replay
        self.obs.append(rec)
        return ok

    def lean(self, label, theorems, note=""):
        """a spec-level lemma discharged by Lean 4 + Mathlib (lean/Lemmas.lean): proved iff the file
        compiled without error (stamp of setup.sh, or compiled now; the thorough tier always
        recompiles), contains no sorry/axiom/admit and states the named theorems"""
        ok, why = lean_status(theorems, force=(self.tier == "thorough"))
        rec = {"id": self.oid(label), "kind": "lemma",
               "verdict": solve.Verdict.PROVED if ok else solve.Verdict.UNKNOWN,
               "backend": "lean4+mathlib", "seconds": 0.0, "lineno": None,
               "note": (note + " " + why).strip(), "known": None, "replay": None, "model": None}
        self.obs.append(rec)
        return ok

    def structural(self, label, kind, ok, witness=None, note=""):
        """an obligation decided by RECOGNISING a code shape (loop header, call pattern, statement text): if the shape is
        there, it is discharged; if it is not, nothing is known about the behaviour -- undecided (exit 2), never a violation
        (a renamed local or a restructured loop must not raise an alarm)"""
        if ok:
            return self.decided(label, kind, True, witness=witness, note=note)
        self.undecided(label, kind, "code shape not recognised (%s): the obligation is not decided" % (witness,))
        return False

    def undecided(self, label, kind, why):
        self.obs.append({"id": self.oid(label), "kind": kind, "verdict": solve.Verdict.UNKNOWN,
                         "backend": "-", "seconds": 0.0, "lineno": None, "note": why, "known": None,
                         "replay": None, "model": None})

    def bounded(self, label, ok, scope, cases, witness=None, replay=None, note=""):
        """bounded stand-in result (never counted as proved)"""
        oid = self.oid(label)
        rec = {"id": oid, "kind": "bounded", "ok": ok, "scope": scope, "cases": cases,
               "witness": witness, "note": note, "known": None, "replay": replay}
        if not ok:
            kfs = [k for k in self.known if oid_match(oid, k["obligation"])
                   and k.get("status") == "known"]
            if kfs:
                rec["known"] = [k["what"] for k in kfs]
        self.bounded_obs.append(rec)
        return ok

    # ---- path helpers ----------------------------------------------------------------------------
    def check_safety(self, paths, requires, prefix, replay=None, kinds=("div", "shape", "mask", "index", "nan")):
        """safety obligations collected by the evaluator on all paths"""
        groups = {}
        for p in paths:
            for kind, ln, conds, f in p.safety:
                if kind not in kinds:
                    continue
                key = (kind, ln, str(f))
                groups.setdefault(key, []).append((p, conds, f))
        k = 0
        for (kind, ln, _), items in groups.items():
            k += 1
            # one obligation per distinct safety formula: it must hold under the disjunction of
            # the path conditions under which it is reached
            f = items[0][2]
            g = f if not isinstance(f, bool) else z3.BoolVal(f)
            seen, disj, facts = set(), [], []
            for p, conds, _f in items:
                cs = [B(c) for c in conds]
                key = tuple(c.get_id() for c in cs)
                if key in seen:
                    continue
                seen.add(key)
                disj.append(z3.And(*cs) if cs else z3.BoolVal(True))
                for ff in p.facts:
                    facts.append(ff)
            reach = z3.Or(*disj) if len(disj) > 1 else disj[0]
            fseen, ufacts = set(), []
            for ff in facts:
                if ff.get_id() not in fseen:
                    fseen.add(ff.get_id())
                    ufacts.append(ff)
            # staged assumption sets (all sound weakenings of the full reachability condition):
            # requires only; requires + the innermost guard of every reaching path; the full
            # disjunction of the reaching path conditions
            inner = []
            iseen = set()
            for p, conds, _f in items:
                c = B(conds[-1]) if conds else z3.BoolVal(True)
                if c.get_id() not in iseen:
                    iseen.add(c.get_id())
                    inner.append(c)
            local = z3.Or(*inner) if len(inner) > 1 else inner[0]
            chosen = list(requires) + [reach] + ufacts
            for cand in (list(requires) + ufacts, list(requires) + [local] + ufacts):
                _t0 = time.time()
                r0 = solve.prove(cand, g, use_cvc5=False, rlimit=400000, quick=True, hard_wall_ms=1500)
                if os.environ.get("PVC_TRACE") and time.time() - _t0 > 2:
                    print("  [trace] slow safety pre-attempt %s L%s %.1fs %s: %s" % (kind, ln, time.time() - _t0, r0["verdict"], str(g)[:300]),
                          file=sys.stderr, flush=True)
                if r0["verdict"] == solve.Verdict.PROVED:
                    chosen = cand
                    break
            self.ob("%s/safety-%s@L%s#%d" % (prefix, kind, ln, k), "safety-" + kind,
                    chosen, g, lineno=ln, replay=replay)


_LEAN_CACHE = {}


def lean_status(theorems, force=False):
    import hashlib
    import re
    path = os.path.join(VERIF, "lean", "Lemmas.lean")
    if not os.path.exists(path):
        return False, "lean/Lemmas.lean missing"
    text = open(path).read()
    if re.search(r"\b(sorry|admit|axiom|native_decide)\b", re.sub(r"/-.*?-/", "", text, flags=re.S)):
        return False, "lean/Lemmas.lean contains sorry/admit/axiom"
    for t in theorems:
        if not re.search(r"\btheorem\s+%s\b" % re.escape(t), text):
            return False, "theorem %s not stated in lean/Lemmas.lean" % t
    h = hashlib.sha256(text.encode()).hexdigest()
    stamp = os.path.join(VERIF, "out", "lean.stamp")
    if not force and os.path.exists(stamp) and open(stamp).read().strip() == h:
        return True, "Lean accepted the file (stamp %s)" % h[:12]
    if ("compiled", h) in _LEAN_CACHE:
        return _LEAN_CACHE[("compiled", h)]
    lock = os.path.join(VERIF, "out", "lean.lock")
    os.makedirs(os.path.dirname(lock), exist_ok=True)
    import fcntl
    with open(lock, "w") as lf:
        fcntl.flock(lf, fcntl.LOCK_EX)
        if not force and os.path.exists(stamp) and open(stamp).read().strip() == h:
            return True, "Lean accepted the file (stamp %s)" % h[:12]
        p = subprocess.run("cd /opt/veriftools/mathlib4 && lake env lean %s" % path, shell=True,
                           capture_output=True, text=True, timeout=3000)
        out = p.stdout + p.stderr
        ok = p.returncode == 0 and "error" not in out and "sorry" not in out
        if ok:
            with open(stamp, "w") as f:
                f.write(h)
        res = (ok, "Lean %s the file now (exit %d)%s" % ("accepted" if ok else "REJECTED", p.returncode,
                                                         "" if ok else ": " + out[-400:]))
        _LEAN_CACHE[("compiled", h)] = res
        return res


def _model_str(m, limit=60):
    if m is None:
        return None
    out = []
    try:
        for d in m.decls()[:limit]:
            out.append("%s = %s" % (d.name(), str(m[d]).replace("\n", " ")[:200]))
    except Exception:  # noqa
        return str(m)[:2000]
    return out


# ----------------------------------------------------------------------------------------------
# running

def load_known(prop):
    p = os.path.join(VERIF, "known_findings.json")
    if not os.path.exists(p):
        return []
    with open(p) as f:
        data = json.load(f)
    return [k for k in data.get("findings", []) if k.get("property") == prop]


def _run_unit(args):
    if os.environ.get("PVC_PROFILE"):
        import cProfile
        import pstats
        import io
        pr = cProfile.Profile()
        pr.enable()
        r = _run_unit_(args)
        pr.disable()
        if r["seconds"] > 10:
            st = io.StringIO()
            pstats.Stats(pr, stream=st).sort_stats("cumulative").print_stats(18)
            with open(os.path.join(os.environ["PVC_PROFILE"], "prof_%s.txt" % r["unit"].replace("/", "_")), "w") as f:
                f.write(st.getvalue())
        return r
    return _run_unit_(args)


def _run_unit_(args):
    modname, idx, prop, tier, seed = args
    t0 = time.time()
    try:
        mod = importlib.import_module(modname)
        from . import val as _V
        _V.reset_trans()
        u = [x for x in UNITS.get(prop, []) if x["module"] == modname][idx]
        ctx = Ctx(prop, u["name"], tier, seed, load_known(prop))
        for k in u["functions"]:
            try:
                ctx.use_function(S.get_function(k))
            except S.SourceError as e:
                ctx.undecided("locate/%s" % k, "source", "function not found in the tree: %s" % e)
        try:
            u["fn"](ctx)
        except Unsupported as e:
            ctx.downgrades.append(str(e))
            ctx.undecided("subset", "unsupported",
                          "function left the supported subset: %s" % e)
        except S.SourceError as e:
            ctx.undecided("source", "source", str(e))
        return {"unit": u["name"], "obs": ctx.obs, "bounded": ctx.bounded_obs,
                "functions": ctx.functions, "inlined": sorted(ctx.inlined),
                "assumptions": sorted(ctx.assumptions), "notes": ctx.notes,
                "downgrades": ctx.downgrades, "seconds": time.time() - t0, "error": None,
                "engine": u["engine"]}
    except Exception:  # noqa
        return {"unit": "%s#%d" % (modname, idx), "obs": [], "bounded": [], "functions": {},
                "inlined": [], "assumptions": [], "notes": [], "downgrades": [],
                "seconds": time.time() - t0, "error": traceback.format_exc(), "engine": ""}


def run_property(prop, tier="quick", seed=0, only=None, jobs=None):
    modname = "contracts.%s" % prop
    importlib.import_module(modname)
    units = UNITS.get(prop, [])
    tasks = []
    for idx, u in enumerate(units):
        if u["tier"] == "thorough" and tier != "thorough":
            continue
        if only and not fnmatch.fnmatch(u["name"], only):
            continue
        tasks.append((modname, idx, prop, tier, seed))
    jobs = jobs or int(os.environ.get("PVC_JOBS", "16"))
    if len(tasks) <= 1 and jobs == 1:
        results = [_run_unit(t) for t in tasks]
    else:
        ctxm = mp.get_context("fork")
        # one fresh fork of the parent per unit: the solver context a unit sees (term ids, symbol counters) does not
        # depend on which units ran before it in the same worker -- z3's heuristics are sensitive to that
        with ctxm.Pool(min(jobs, len(tasks)), maxtasksperchild=1) as pool:
            # a worker that dies (killed, out of memory) would make a plain map() wait forever: bounded wait, and the
            # units that did not report are checker faults (exit 3), never verdicts
            pending = [(t, pool.apply_async(_run_unit, (t,))) for t in tasks]
            deadline = time.time() + float(os.environ.get("PVC_RUN_TIMEOUT_S", "5400"))
            results = []
            for t, ar in pending:
                try:
                    results.append(ar.get(timeout=max(1.0, deadline - time.time())))
                except mp.TimeoutError:
                    results.append({"unit": "%s#%d" % (t[0], t[1]), "obs": [], "bounded": [], "functions": {}, "inlined": [],
                                    "assumptions": [], "notes": [], "downgrades": [], "seconds": 0.0, "engine": "",
                                    "error": "unit did not report within the run budget (worker died or hung)"})
            pool.terminate()
    return results


def venv_run(script, payload, timeout=600):
    """run a replay / bounded script under the repository's interpreter; JSON in, JSON out"""
    os.makedirs(OUT, exist_ok=True)
    env = dict(os.environ)
    env["PYTHONPATH"] = os.path.join(S.REPO, "src") + os.pathsep + VERIF
    env.setdefault("NUMBA_CACHE_DIR", os.path.join(OUT, "numba_cache"))
    p = subprocess.run([VENV_PY, "-W", "ignore", os.path.join(VERIF, "replay", script)],
                       input=json.dumps(payload), capture_output=True, text=True, timeout=timeout,
                       env=env, cwd=VERIF)
    if p.returncode != 0:
        raise RuntimeError("replay script %s failed (%d): %s" % (script, p.returncode,
                                                                 p.stderr[-2000:]))
    lines = [l for l in p.stdout.splitlines() if l.startswith("{") or l.startswith("[")]
    if not lines:
        raise RuntimeError("replay script %s printed no JSON: %s" % (script, p.stdout[-500:]))
    return json.loads(lines[-1])
