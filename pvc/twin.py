"""Twin-kernel equivalence (numpy vs numba) and kernel-vs-spec obligations for row-wise code."""
import z3
from fractions import Fraction
from . import src as S, ev as E, kern as K
from .val import *  # noqa
from . import val as V


def run_paths(ctx, key, make_args, hooks=None, contracts=None, max_paths=256, dict_universe=None,
              guarded_ifs=False):
    fref = S.get_function(key)
    ctx.use_function(fref)
    e = E.Evaluator(hooks=hooks, contracts=contracts, max_paths=max_paths)
    e.dict_universe = dict_universe
    e.guarded_ifs = guarded_ifs
    paths = e.run_all(fref, make_args)
    for p in paths:
        ctx.inlined |= p.inlined
    return paths


def elem_at(x, idx):
    """value of output x at index idx (arrays) or the scalar itself"""
    if isinstance(x, (Arr, ColView)):
        return x.f(idx)
    if isinstance(x, Comp):
        raise Unsupported("compressed output")
    return x


def member_at(x, q):
    """membership of node q in an output that denotes a node set (bool mask array or SetVal)"""
    if isinstance(x, SetVal):
        return x.member(q)
    if isinstance(x, (Arr, ColView)) and x.kind == "b":
        return x.f(q)
    if isinstance(x, (Arr, ColView, Comp, Bag)):
        return member(x, q)
    raise Unsupported("set output %r" % (x,))


def pair_goal(paths_a, paths_b, k, idx, mode):
    """AND over path pairs: cond_a & cond_b => outputs k agree at idx"""
    goals = []
    for a in paths_a:
        for b in paths_b:
            if (a.exc is None) != (b.exc is None):
                goals.append(z3.Not(z3.And(a.cond(), b.cond())))
                continue
            if a.exc is not None:
                continue
            xa = a.result[k] if isinstance(a.result, (tuple, list)) else a.result
            xb = b.result[k] if isinstance(b.result, (tuple, list)) else b.result
            if mode == "set":
                e = B(member_at(xa, idx)) == B(member_at(xb, idx))
            else:
                e = K.eq_val(elem_at(xa, idx), elem_at(xb, idx))
            goals.append(z3.Implies(z3.And(a.cond(), b.cond()), e))
    return z3.And(*goals) if goals else z3.BoolVal(True)


def all_facts(*path_lists):
    out = []
    for pl in path_lists:
        for p in pl:
            out.extend(p.facts)
    return out


# ---------------------------------------------------------------------------------------------
# model -> concrete replay input

def model_value(m, t):
    v = m.eval(t, model_completion=True)
    if z3.is_rational_value(v):
        return float(Fraction(v.numerator_as_long(), v.denominator_as_long()))
    if z3.is_int_value(v):
        return v.as_long()
    if z3.is_true(v):
        return True
    if z3.is_false(v):
        return False
    if z3.is_algebraic_value(v):
        return float(v.approx(20).as_fraction())
    return None


def extract_array(m, arr, n):
    out = []
    for k in range(n):
        x = arr.f(k)
        if isinstance(x, NS):
            isn = model_value(m, B(x.nan))
            out.append(None if isn else model_value(m, R(x.t)))
        elif isinstance(x, bool):
            out.append(x)
        elif is_z3(x):
            out.append(model_value(m, x))
        else:
            out.append(float(x))
    return out


def extract_pit(m, pit, n, ncols):
    rows = []
    for i in range(n):
        row = []
        for c in range(ncols):
            x = pit.f(i, c)
            if isinstance(x, NS):
                isn = model_value(m, B(x.nan))
                row.append(None if isn else model_value(m, R(x.t)))
            elif is_z3(x):
                row.append(model_value(m, x))
            else:
                row.append(float(x))
        rows.append(row)
    return rows


# ---------------------------------------------------------------------------------------------
# declarative argument specs

class ArgSpec:
    """args: list of (name, type, options); type in pit|arr|const|fluid
    rows: 'b' (branch count NB) or 'n' (node count NN)"""

    def __init__(self, args, int_ranges=None):
        self.args = args
        self.NB = z3.Int("NB")
        self.NN = z3.Int("NN")
        self.r = z3.Int("r")      # generic branch row
        self.q = z3.Int("q")      # generic node row
        self.int_ranges = int_ranges or []

    def nrows(self, rows):
        if rows == "c":
            return z3.Int("NC")
        return self.NB if rows == "b" else self.NN

    def build(self):
        out = []
        self.objs = {}
        for name, typ, opt in self.args:
            if typ == "pit":
                o = K.sym_pit(name, self.nrows(opt["rows"]), opt["ncols"], opt.get("int_cols", ()),
                              opt.get("nan_cols", ()))
            elif typ == "arr":
                o = K.sym_arr(name, self.nrows(opt["rows"]), opt.get("kind", "f"), opt.get("nan", False))
            elif typ == "const":
                o = opt["value"]
            elif typ == "sym":
                o = opt["term"]
            elif typ == "obj":
                o = opt["make"]()
            else:
                raise ValueError(typ)
            self.objs[name] = o
            out.append(o)
        return out, {}

    def base(self):
        return [self.NB >= 1, self.NN >= 1, self.r >= 0, self.r < self.NB, self.q >= 0,
                self.q < self.NN]

    def small_world(self, nb=1, nn=2):
        return [self.NB == nb, self.NN == nn, self.r == 0]

    def extract(self, m, nb=1, nn=2):
        self.build()
        out = []
        for name, typ, opt in self.args:
            o = self.objs[name]
            if typ == "pit":
                n = nb if opt["rows"] == "b" else nn
                out.append({"name": name, "type": "pit", "data": extract_pit(m, o, n, opt["ncols"])})
            elif typ == "arr":
                n = nb if opt["rows"] == "b" else (nn if opt["rows"] == "n" else 24)
                out.append({"name": name, "type": "arr", "kind": opt.get("kind", "f"),
                            "data": extract_array(m, o, n)})
            elif typ == "const":
                v = opt["value"]
                out.append({"name": name, "type": "const",
                            "value": float(v) if isinstance(v, Fraction) else v})
            elif typ == "sym":
                out.append({"name": name, "type": "const", "value": model_value(m, opt["term"])})
            elif typ == "obj":
                out.append({"name": name, "type": "obj", "value": opt.get("replay", None)})
        return out


def twin_check(ctx, label, key_a, key_b, spec, outputs, requires, node_terms=None, hooks=None,
               search=None, max_paths=256):
    """outputs: list of (position, name, mode) with mode in 'branch' | 'node' | 'set' | 'scalar'
    requires: callable(spec) -> list of z3 formulas (already instantiated at spec.r / spec.q)"""
    from . import solve
    pa = run_paths(ctx, key_a, spec.build, hooks=hooks, max_paths=max_paths)
    pb = run_paths(ctx, key_b, spec.build, hooks=hooks, max_paths=max_paths)
    spec.build()
    req = spec.base() + list(requires(spec))
    facts = all_facts(pa, pb)
    # first pass: which output equalities are provable quickly; they serve as lemmas for the others
    # (adding a proved, i.e. valid, formula to the assumptions is sound)
    goals = {}
    for k, name, mode in outputs:
        idx = spec.r if mode == "branch" else spec.q
        goals[k] = pair_goal(pa, pb, k, idx, "set" if mode == "set" else "val")
    from . import val as _V
    # lemma chaining: an output equality that has been proved is a valid formula under req + facts and is added
    # to the assumptions of the ones still open (e.g. p_abs_mean -> normfactor_mean -> v_gas_mean).  Pass 1 tries
    # every output with a small deterministic budget, repeatedly, until nothing new is proved; the remaining ones
    # get the full budget with all lemmas found.
    quick, pool = {}, []

    def try_quick(assum, goal):
        r0 = solve.prove(assum, goal, timeout_ms=2000, use_cvc5=False, rlimit=2000000, quick=True)
        if r0["verdict"] == "proved":
            return True
        try:
            rel = solve.relevant(assum, goal)
        except Exception:  # noqa
            rel = assum
        return solve.prove_nl_as_uf(rel, goal, rlimit=2000000) is not None
    base = req + facts + _V.trans_axioms()
    # round 0: without lemmas (an unhelpful lemma -- e.g. a product equality -- can mislead the nonlinear solver)
    for k, name, mode in outputs:
        if try_quick(base, goals[k]):
            quick[k] = True
            quick[("lemmas", k)] = []
            pool.append(goals[k])
    progress = True
    while progress:
        progress = False
        for k, name, mode in outputs:
            if quick.get(k):
                continue
            if try_quick(base + pool, goals[k]):
                quick[k] = True
                quick[("lemmas", k)] = list(pool)
                pool.append(goals[k])
                progress = True
    for k, name, mode in outputs:
        idx = spec.r if mode == "branch" else spec.q
        goal = goals[k]
        lemmas = quick.get(("lemmas", k)) if quick.get(k) else list(pool)
        assum = req + facts + lemmas

        def replay(m, _assum=assum, _goal=goal, _name=name, _k=k, _mode=mode):
            small = spec.small_world()
            r2 = solve.prove(_assum + small, _goal, timeout_ms=5000, use_cvc5=False)
            mm = r2["model"] if r2["verdict"] == "refuted" else None
            inp = {"functions": [key_a, key_b], "output": _k, "output_name": _name, "mode": _mode,
                   "args": spec.extract(mm) if mm is not None else None,
                   "search": search}
            return {"handler": "twin_kernel", "input": inp,
                    "expected": "both twins return the same value for output %s" % _name}
        ctx.ob("%s/twin/%s" % (label, name), "twin", assum, goal, replay=replay)
    # safety obligations of both twins (division, shapes, masks)
    ctx.check_safety(pa, req, label + "/np")
    ctx.check_safety(pb, req, label + "/numba")
    return pa, pb
