import argparse
import json
import os
import sys
import time

sys.path.insert(0, os.path.dirname(os.path.dirname(os.path.abspath(__file__))))


def main():
    ap = argparse.ArgumentParser()
    ap.add_argument("prop")
    ap.add_argument("--tier", default=os.environ.get("VERIF_TIER", "quick"))
    ap.add_argument("--replay")
    ap.add_argument("--only")
    ap.add_argument("--jobs", type=int)
    ap.add_argument("--update-ledger", action="store_true")
    a = ap.parse_args()
    seed = int(os.environ.get("VERIF_SEED", "0") or 0)
    from pvc import harness as H, report as R
    if a.replay:
        body = R.run_replay(a.replay)
        print(json.dumps({k: body.get(k) for k in ("obligation", "reproduced", "observed", "expected")},
                         indent=1, default=str))
        if body.get("reproduced"):
            print("VIOLATION property=%s replay=%s" % (a.prop, a.replay))
            return 1
        return 0
    t0 = time.time()
    try:
        results = H.run_property(a.prop, a.tier, seed, a.only, a.jobs)
    except Exception:  # noqa
        import traceback
        traceback.print_exc()
        return 3
    return R.finish(a.prop, a.tier, seed, results, t0, update_ledger=a.update_ledger, partial=bool(a.only))


if __name__ == "__main__":
    sys.exit(main())
