"""Value algebra shared by the VC generator and the sidecar contracts.

Scalars: python int / Fraction / bool / str / None, z3 ArithRef / BoolRef, or NS (real with NaN
flag).  Floats of the source are exact rationals (assumption A1), transcendental functions are
uninterpreted (A3).  Arrays are (length, element function) pairs; a pit is a two-argument
element function (row, column).
"""
from fractions import Fraction
import itertools
import z3

_counter = itertools.count()


def fresh(prefix, sort=None):
    name = "%s!%d" % (prefix, next(_counter))
    if sort is None or (isinstance(sort, str) and sort == "int"):
        return z3.Int(name)
    if isinstance(sort, str) and sort == "real":
        return z3.Real(name)
    if isinstance(sort, str) and sort == "bool":
        return z3.Bool(name)
    return z3.Const(name, sort)


class Unsupported(Exception):
    """The function left the subset the evaluator handles (-> downgrade, never a violation)."""


class NS:
    """real scalar with an explicit NaN flag (extended reals without inf)"""
    __slots__ = ("t", "nan")

    def __init__(self, t, nan):
        self.t = t
        self.nan = nan

    def __repr__(self):
        return "NS(%s, nan=%s)" % (self.t, self.nan)


def is_pynum(x):
    return isinstance(x, (int, Fraction)) and not isinstance(x, bool)


def is_z3(x):
    return isinstance(x, z3.ExprRef)


def is_scalar(x):
    return isinstance(x, (int, Fraction, bool, NS, Count)) or (is_z3(x) and not z3.is_array(x)) \
        or isinstance(x, float)


def pyfloat(x):
    if isinstance(x, float):
        return Fraction(repr(x))
    return x


def R(x):
    """to z3 Real term"""
    if isinstance(x, NS):
        x = x.t
    if isinstance(x, bool):
        return z3.RealVal(1 if x else 0)
    if isinstance(x, float):
        x = Fraction(repr(x))
    if isinstance(x, (int, Fraction)):
        return z3.RealVal(x)
    if z3.is_bool(x):
        return z3.If(x, z3.RealVal(1), z3.RealVal(0))
    if z3.is_int(x):
        return z3.ToReal(x)
    return x


def I(x):
    """to z3 Int term"""
    if isinstance(x, NS):
        x = x.t
    if isinstance(x, bool):
        return z3.IntVal(1 if x else 0)
    if isinstance(x, int):
        return z3.IntVal(x)
    if isinstance(x, Fraction):
        if x.denominator == 1:
            return z3.IntVal(x.numerator)
        return z3.IntVal(int(x))
    if z3.is_bool(x):
        return z3.If(x, z3.IntVal(1), z3.IntVal(0))
    if z3.is_int(x):
        return x
    # real -> int: strip ToReal if present
    if z3.is_app_of(x, z3.Z3_OP_TO_REAL):
        return x.arg(0)
    return z3.ToInt(x)


def B(x):
    """to z3 Bool term (python truthiness for numbers)"""
    if isinstance(x, NS):
        return z3.Or(x.nan, R(x.t) != 0) if x.nan is not False else B(x.t)
    if isinstance(x, bool):
        return z3.BoolVal(x)
    if isinstance(x, (int, Fraction)):
        return z3.BoolVal(x != 0)
    if z3.is_bool(x):
        return x
    if is_z3(x) and z3.is_fp(x):
        return z3.Not(z3.fpIsZero(x))
    if is_z3(x):
        return x != 0
    raise Unsupported("truthiness of %r" % (x,))


def nan_of(x):
    return x.nan if isinstance(x, NS) else False


def val_of(x):
    return x.t if isinstance(x, NS) else x


def mk(t, nan):
    if nan is False:
        return t
    return NS(t, nan)


def or_nan(a, b):
    if a is False:
        return b
    if b is False:
        return a
    return z3.Or(a, b)


def _is_intlike(x):
    return isinstance(x, (int, bool)) or (is_z3(x) and (z3.is_int(x)))


def _split_coef(t):
    """(Fraction c, core) with t = c * core; core None for a numeral"""
    if z3.is_rational_value(t):
        return Fraction(t.numerator_as_long(), t.denominator_as_long()), None
    if z3.is_app(t) and t.decl().kind() == z3.Z3_OP_MUL and t.num_args() == 2 and z3.is_rational_value(t.arg(0)) \
            and not z3.is_rational_value(t.arg(1)):
        c = t.arg(0)
        return Fraction(c.numerator_as_long(), c.denominator_as_long()), t.arg(1)
    return Fraction(1), t


def _arith(op, a, b):
    """a, b plain (no NS)"""
    if isinstance(a, float):
        a = pyfloat(a)
    if isinstance(b, float):
        b = pyfloat(b)
    pa, pb = not is_z3(a), not is_z3(b)
    if pa and pb:
        a = int(a) if isinstance(a, bool) else a
        b = int(b) if isinstance(b, bool) else b
        if op == "+":
            return a + b
        if op == "-":
            return a - b
        if op == "*":
            return a * b
        if op == "/":
            if b == 0:
                raise Unsupported("constant division by zero")
            return Fraction(a) / Fraction(b)
        if op == "//":
            return a // b
        if op == "%":
            return a % b
    if z3.is_bool(a) if is_z3(a) else False:
        a = z3.If(a, 1, 0)
    if z3.is_bool(b) if is_z3(b) else False:
        b = z3.If(b, 1, 0)
    if _is_intlike(a) and _is_intlike(b) and op in "+-*":
        a, b = I(a), I(b)
    elif op in ("//", "%") and _is_intlike(a) and _is_intlike(b):
        a, b = I(a), I(b)
        return a / b if op == "//" else a % b
    else:
        a, b = R(a), R(b)
    if op == "+":
        return a + b
    if op == "-":
        return a - b
    if op in ("*", "/") and z3.is_real(a) and z3.is_real(b):
        # numeric factors are pulled to the front:  (c1 x) * (c2 y) = (c1 c2)(x y),  (c1 x) / (c2 y) = (c1/c2)(x / y)
        # (an identity of real arithmetic, A1) -- two codings of one formula that differ only in where the constants
        # sit (2/3 * x / y  vs  (2 x) / (3 y)) then yield the same term and are equal by congruence
        ca, xa = _split_coef(a)
        cb, xb = _split_coef(b)
        if op == "/" and cb == 0:
            return a / b
        co = ca * cb if op == "*" else ca / cb
        if xa is None and xb is None:
            return z3.RealVal(str(co))
        if xb is None:
            core = xa
        elif xa is None:
            core = xb if op == "*" else z3.RealVal(1) / xb
        else:
            core = xa * xb if op == "*" else xa / xb
        if co == 1:
            return core
        if co == 0:
            return z3.RealVal(0)
        return z3.RealVal(str(co)) * core
    if op == "*":
        return a * b
    if op == "/":
        return a / b
    raise Unsupported("operator %s on reals" % op)


def arith(op, a, b):
    if isinstance(a, Count):
        a = a.term()
    if isinstance(b, Count):
        b = b.term()
    if is_fp(a) or is_fp(b):
        return fp_arith(op, a, b)
    nan = or_nan(nan_of(a), nan_of(b))
    return mk(_arith(op, val_of(a), val_of(b)), nan)


def neg(a):
    if is_fp(a):
        return z3.fpNeg(a)
    v = val_of(a)
    if not is_z3(v):
        return mk(-pyfloat(v), nan_of(a))
    return mk(-v, nan_of(a))


def absval(a):
    if is_fp(a):
        return z3.fpAbs(a)
    v = val_of(a)
    if not is_z3(v):
        return mk(abs(pyfloat(v)), nan_of(a))
    if z3.is_bool(v):
        v = z3.If(v, 1, 0)
    return mk(z3.If(v >= 0, v, -v), nan_of(a))


def maxval(a, b):
    """np.maximum / python max(a, b) for non-NaN b; NaN in a propagates (python max(nan, c) = nan)."""
    va, vb = val_of(a), val_of(b)
    if not is_z3(va) and not is_z3(vb):
        return mk(max(pyfloat(va), pyfloat(vb)), or_nan(nan_of(a), nan_of(b)))
    if _is_intlike(va) and _is_intlike(vb):
        va, vb = I(va), I(vb)
    else:
        va, vb = R(va), R(vb)
    return mk(z3.If(va >= vb, va, vb), or_nan(nan_of(a), nan_of(b)))


def minval(a, b):
    va, vb = val_of(a), val_of(b)
    if not is_z3(va) and not is_z3(vb):
        return mk(min(pyfloat(va), pyfloat(vb)), or_nan(nan_of(a), nan_of(b)))
    if _is_intlike(va) and _is_intlike(vb):
        va, vb = I(va), I(vb)
    else:
        va, vb = R(va), R(vb)
    return mk(z3.If(va <= vb, va, vb), or_nan(nan_of(a), nan_of(b)))


FP64 = z3.Float64()
RNE = z3.RNE()


def is_fp(x):
    return is_z3(x) and z3.is_fp(x)


def to_fp(x):
    if is_fp(x):
        return x
    if isinstance(x, bool):
        return z3.FPVal(1.0 if x else 0.0, FP64)
    if isinstance(x, (int, Fraction)):
        return z3.FPVal(float(x), FP64)
    if isinstance(x, float):
        return z3.FPVal(x, FP64)
    if is_z3(x) and z3.is_int(x):
        return z3.fpToFP(RNE, z3.ToReal(x), FP64)
    if is_z3(x) and z3.is_real(x):
        return z3.fpToFP(RNE, x, FP64)
    raise Unsupported("cannot convert %r to float64" % (x,))


def fp_compare(op, a, b):
    a, b = to_fp(a), to_fp(b)
    if op == "==":
        return z3.fpEQ(a, b)
    if op == "!=":
        return z3.Not(z3.fpEQ(a, b))
    return {"<": z3.fpLT, "<=": z3.fpLEQ, ">": z3.fpGT, ">=": z3.fpGEQ}[op](a, b)


_fp_mul = z3.Function("fp64_mul", FP64, FP64, FP64)
_fp_div = z3.Function("fp64_div", FP64, FP64, FP64)


def fp_arith(op, a, b):
    """float64 + and - are exact IEEE (round to nearest even); * and / are uninterpreted
    (a sound over-approximation: the obligations of the Newton driver only compare results, and
    the bit-precise multiplier / divider circuits dominate the solving time otherwise)"""
    a, b = to_fp(a), to_fp(b)
    if op == "*":
        return _fp_mul(a, b)
    if op == "/":
        return _fp_div(a, b)
    return {"+": z3.fpAdd, "-": z3.fpSub}[op](RNE, a, b)


def compare(op, a, b):
    """IEEE-style: any comparison with NaN is False except != which is True."""
    if isinstance(a, Count) and (is_z3(b) or isinstance(b, Count)):
        a = a.term()
    if isinstance(b, Count) and (is_z3(a) or isinstance(a, Count)):
        b = b.term()
    if isinstance(a, Count) and isinstance(b, int) and not isinstance(b, bool) and False:
        a = a.term()
    if is_fp(a) or is_fp(b):
        return fp_compare(op, a, b)
    nan = or_nan(nan_of(a), nan_of(b))
    va, vb = val_of(a), val_of(b)
    if isinstance(va, float):
        va = pyfloat(va)
    if isinstance(vb, float):
        vb = pyfloat(vb)
    if isinstance(va, str) and is_z3(vb):
        va = str_code(va)
    if isinstance(vb, str) and is_z3(va):
        vb = str_code(vb)
    if (va is None or vb is None or isinstance(va, str) or isinstance(vb, str)) \
            and not is_z3(va) and not is_z3(vb):
        if op == "==":
            return va == vb
        if op == "!=":
            return va != vb
        raise Unsupported("ordering of None/str")
    if not is_z3(va) and not is_z3(vb):
        r = {"==": va == vb, "!=": va != vb, "<": va < vb, "<=": va <= vb, ">": va > vb,
             ">=": va >= vb}[op]
    else:
        if (is_z3(va) and z3.is_bool(va)) or (is_z3(vb) and z3.is_bool(vb)):
            if isinstance(va, (bool, int)) and not is_z3(va):
                va = z3.BoolVal(bool(va))
            if isinstance(vb, (bool, int)) and not is_z3(vb):
                vb = z3.BoolVal(bool(vb))
            if is_z3(va) and is_z3(vb) and z3.is_bool(va) and z3.is_bool(vb):
                if op == "==":
                    r = va == vb
                elif op == "!=":
                    r = va != vb
                else:
                    raise Unsupported("ordering of booleans")
                return r
            va, vb = R(va), R(vb)
        elif _is_intlike(va) and _is_intlike(vb):
            va, vb = I(va), I(vb)
        elif is_z3(va) and is_z3(vb) and va.sort() == vb.sort() and not z3.is_arith(va):
            if op == "==":
                return va == vb
            if op == "!=":
                return va != vb
            raise Unsupported("ordering on sort %s" % va.sort())
        else:
            va, vb = R(va), R(vb)
        r = {"==": va == vb, "!=": va != vb, "<": va < vb, "<=": va <= vb, ">": va > vb,
             ">=": va >= vb}[op]
    if nan is False:
        return r
    if op == "!=":
        return z3.Or(nan, B(r))
    return z3.And(z3.Not(nan), B(r))


def bnot(a):
    if isinstance(a, bool):
        return not a
    return z3.Not(B(a))


def band(*xs):
    xs = [x for x in xs if x is not True]
    if any(x is False for x in xs):
        return False
    if not xs:
        return True
    if len(xs) == 1:
        return xs[0] if isinstance(xs[0], bool) else B(xs[0])
    return z3.And(*[B(x) for x in xs])


def bor(*xs):
    xs = [x for x in xs if x is not False]
    if any(x is True for x in xs):
        return True
    if not xs:
        return False
    if len(xs) == 1:
        return xs[0] if isinstance(xs[0], bool) else B(xs[0])
    return z3.Or(*[B(x) for x in xs])


def ite(c, a, b):
    if c is True:
        return a
    if c is False:
        return b
    c = B(c)
    if a is b:
        return a
    na, nb = nan_of(a), nan_of(b)
    va, vb = val_of(a), val_of(b)
    if (isinstance(va, bool) or (is_z3(va) and z3.is_bool(va))) and \
            (isinstance(vb, bool) or (is_z3(vb) and z3.is_bool(vb))):
        return z3.If(c, B(va), B(vb))
    if is_z3(va) and is_z3(vb) and va.sort() == vb.sort() and not z3.is_arith(va):
        return z3.If(c, va, vb)
    if is_fp(va) or is_fp(vb):
        return z3.If(c, to_fp(va), to_fp(vb))
    if _is_intlike(va) and _is_intlike(vb):
        t = z3.If(c, I(va), I(vb))
    else:
        t = z3.If(c, R(va), R(vb))
    if na is False and nb is False:
        return t
    return NS(t, z3.If(c, B(na), B(nb)))


# ----------------------------------------------------------------------------------------------
# transcendental functions: uninterpreted (A3) with the axioms listed in TRANS_AXIOMS

_real = z3.RealSort()
f_exp = z3.Function("exp", _real, _real)
f_log = z3.Function("ln", _real, _real)
f_log10 = z3.Function("log10", _real, _real)
f_sqrt = z3.Function("sqrt", _real, _real)
f_pow = z3.Function("pow", _real, _real, _real)
PI = z3.Real("pi")

_used_sqrt = []
_used_exp = []
_used_log10 = []
_used_log = []
_used_pow = []


def reset_trans():
    del _used_sqrt[:]
    del _used_exp[:]
    del _used_log10[:]
    del _used_log[:]
    del _used_pow[:]


def trans_axioms():
    ax = [PI > 3, PI < 4]
    seen = set()
    for x in _used_sqrt:
        if x.get_id() in seen:
            continue
        seen.add(x.get_id())
        s = f_sqrt(x)
        ax.append(z3.Implies(x > 0, z3.And(s * s == x, s > 0)))
        ax.append(z3.Implies(x == 0, s == 0))
    seen = set()
    for x in _used_exp:
        if x.get_id() in seen:
            continue
        seen.add(x.get_id())
        e = f_exp(x)
        ax.append(e > 0)
        ax.append(z3.Implies(x == 0, e == 1))
        ax.append(z3.Implies(x <= 0, e <= 1))
        ax.append(z3.Implies(x >= 0, e >= 1))
    seen = set()
    for x, y in _used_pow:
        key = (x.get_id(), y.get_id())
        if key in seen:
            continue
        seen.add(key)
        ax.append(z3.Implies(x > 0, f_pow(x, y) > 0))
    for used, f in ((_used_log10, f_log10), (_used_log, f_log)):
        seen = set()
        for x in used:
            if x.get_id() in seen:
                continue
            seen.add(x.get_id())
            l = f(x)
            ax.append(z3.Implies(z3.And(x > 0, x < 1), l < 0))
            ax.append(z3.Implies(x > 1, l > 0))
            ax.append(z3.Implies(x == 1, l == 0))
    return ax


def _unary_uf(f, a, track=None):
    v = R(val_of(a))
    if track is not None:
        track.append(v)
    return mk(f(v), nan_of(a))


def exp(a):
    return _unary_uf(f_exp, a, _used_exp)


def log(a):
    return _unary_uf(f_log, a, _used_log)


def log10(a):
    return _unary_uf(f_log10, a, _used_log10)


def sqrt(a):
    return _unary_uf(f_sqrt, a, _used_sqrt)


def power(a, e):
    """a ** e; integer constants are expanded, -1/2 and -3/2 go through sqrt, the rest is the
    uninterpreted pow."""
    nan = or_nan(nan_of(a), nan_of(e))
    va, ve = val_of(a), val_of(e)
    if isinstance(ve, float):
        ve = pyfloat(ve)
    if isinstance(va, float):
        va = pyfloat(va)
    if not is_z3(ve):
        if isinstance(ve, Fraction) and ve.denominator == 1:
            ve = int(ve)
        if isinstance(ve, int) and not isinstance(ve, bool):
            if not is_z3(va):
                if ve >= 0:
                    return mk(va ** ve, nan)
                return mk(Fraction(1) / Fraction(va ** (-ve)), nan)
            base = va if _is_intlike(va) and ve >= 0 else R(va)
            if ve == 0:
                return mk(1, nan)
            out = base
            for _ in range(abs(ve) - 1):
                out = out * base
            if ve < 0:
                out = 1 / out
            return mk(out, nan)
        if ve == Fraction(1, 2):
            return mk(val_of(sqrt(va)), nan)
        if ve == Fraction(-1, 2):
            return mk(1 / val_of(sqrt(va)), nan)
        if ve == Fraction(-3, 2):
            s = val_of(sqrt(va))
            return mk(1 / (R(va) * s), nan)
    _used_pow.append((R(va), R(ve)))
    return mk(f_pow(R(va), R(ve)), nan)


# ----------------------------------------------------------------------------------------------
# arrays

def count_term(mask):
    """the z3 Int symbol standing for the number of True entries of `mask` (one per mask object)"""
    d = mask.__dict__
    if "_cnt_term" not in d:
        d["_cnt_term"] = fresh("cnt", "int")
    return d["_cnt_term"]


def sel_fn(mask):
    """sel(k) = position of the k-th True entry of mask (A4: order-preserving compress)"""
    d = mask.__dict__
    if "_sel_fn" not in d:
        d["_sel_fn"] = z3.Function("sel!%d" % next(_counter), z3.IntSort(), z3.IntSort())
    return d["_sel_fn"]


def sel_axioms(mask):
    """axioms of compress for `mask`: sel maps [0, cnt) strictly increasingly onto the True positions"""
    c, sel = count_term(mask), sel_fn(mask)
    k, k2, b = z3.Int("k!sel"), z3.Int("k2!sel"), z3.Int("b!sel")
    n = mask.n if not isinstance(mask.n, Count) else count_term(mask.n.mask)
    rank = z3.Function("rank!%s" % sel.name(), z3.IntSort(), z3.IntSort())
    return [c >= 0, B(compare("<=", c, n)),
            z3.ForAll([k], z3.Implies(z3.And(k >= 0, k < c),
                                      z3.And(sel(k) >= 0, B(compare("<", sel(k), n)), B(mask.f(sel(k))),
                                             rank(sel(k)) == k))),
            z3.ForAll([b], z3.Implies(z3.And(b >= 0, B(compare("<", b, n)), B(mask.f(b))),
                                      z3.And(rank(b) >= 0, rank(b) < c, sel(rank(b)) == b))),
            z3.ForAll([k, k2], z3.Implies(z3.And(k >= 0, k < k2, k2 < c), sel(k) < sel(k2)))]


class Count:
    """np.sum(mask): number of True entries of a boolean array (symbolic)"""

    def __init__(self, mask):
        self.mask = mask

    def term(self):
        return count_term(self.mask)

    def cmp(self, op, other):
        # the count is not related to anything else: comparisons are fresh symbolic booleans
        # (sound: both outcomes are explored); cached so that repeated tests agree
        cache = self.mask.__dict__.setdefault("_cnt_cmp", {})
        key = (op, str(other))
        if key not in cache:
            cache[key] = fresh("cnt_cmp", "bool")
        return cache[key]

    def __repr__(self):
        return "Count(%r)" % (self.mask,)


class Arr:
    """1-D array: length n (python int, z3 Int or Count) and element function f(j).
    kind: 'f' float, 'i' int, 'b' bool, 'o' object.  Mutable (f is replaced on stores)."""

    def __init__(self, n, f, kind="f", name=None):
        self.n = n
        self.f = f
        self.kind = kind
        self.name = name

    def at(self, j):
        return self.f(j)

    def snapshot(self):
        f = self.f
        return Arr(self.n, f, self.kind, self.name)

    def __repr__(self):
        return "Arr(%s,%s,%s)" % (self.name or "?", self.n, self.kind)


class Pit:
    """2-D float array: rows n, element function f(i, c); int_cols are integer-valued columns."""

    def __init__(self, n, f, ncols=None, name=None):
        self.n = n
        self.f = f
        self.ncols = ncols
        self.name = name

    def at(self, i, c):
        return self.f(i, c)

    def snapshot_f(self):
        return self.f

    def set_col(self, c, elemf):
        old = self.f

        def f(i, cc, _c=c, _e=elemf, _old=old):
            if not is_z3(cc) and not is_z3(_c):
                return _e(i) if cc == _c else _old(i, cc)
            return ite(compare("==", cc, _c), _e(i), _old(i, cc))
        self.f = f

    def __repr__(self):
        return "Pit(%s,%s)" % (self.name or "?", self.n)


class PitSlice(Pit):
    """live view pit[lo:hi, :] (rows lo..hi-1 of the base pit); stores write through"""

    def __init__(self, base, lo, hi):
        self.base = base
        self.lo = lo
        self.hi = hi
        self.ncols = base.ncols
        self.name = (base.name or "?") + "[lo:hi]"

    @property
    def n(self):
        return arith("-", self.hi, self.lo)

    def f(self, i, c):
        return self.base.f(arith("+", i, self.lo), c)

    def at(self, i, c):
        return self.f(i, c)

    def snapshot_f(self):
        b0, lo = self.base.snapshot_f(), self.lo
        return lambda i, c: b0(arith("+", i, lo), c)

    def set_col(self, c, elemf):
        base, lo, hi = self.base, self.lo, self.hi
        old = base.snapshot_f()

        def f(i, cc, _c=c, _e=elemf, _old=old):
            inside = band(compare(">=", i, lo), compare("<", i, hi))
            if not is_z3(cc) and not is_z3(_c):
                if cc != _c:
                    return _old(i, cc)
                return ite(inside, _e(arith("-", i, lo)), _old(i, cc))
            return ite(band(compare("==", cc, _c), inside), _e(arith("-", i, lo)), _old(i, cc))
        base.f = f


class PitComp:
    """pit[mask] (row selection by a boolean mask): elementwise operations on its columns stay
    aligned with arrays compressed by the same mask; f is defined on the base row domain"""

    def __init__(self, base, mask):
        self.base = base
        self.mask = mask
        self.ncols = base.ncols

    @property
    def n(self):
        return Count(self.mask)

    def f(self, i, c):
        return self.base.f(i, c)


class ColView:
    """live view pit[:, c] (or pit[lo:hi, c])"""

    def __init__(self, pit, c):
        self.pit = pit
        self.c = c
        self.kind = "f"

    @property
    def n(self):
        return self.pit.n

    def f(self, j):
        return self.pit.at(j, self.c)

    def at(self, j):
        return self.pit.at(j, self.c)

    def snapshot(self):
        f0 = self.pit.snapshot_f()
        c = self.c
        return Arr(self.pit.n, lambda j: f0(j, c), "f")


class RowView:
    def __init__(self, pit, i):
        self.pit = pit
        self.i = i


class Comp:
    """x[mask]: order-preserving compress; f is defined on the *base* index domain."""

    def __init__(self, mask, f, kind="f"):
        self.mask = mask      # Arr of kind 'b'
        self.f = f
        self.kind = kind

    @property
    def n(self):
        return Count(self.mask)

    def __repr__(self):
        return "Comp(%r)" % (self.mask,)


class Col2D:
    """x[:, None]: a column vector, only used to form the pair mask  A == B[:, None]"""

    def __init__(self, arr):
        self.arr = arr


class Row2D:
    """x[None, :]: a row vector of column numbers (outer indexing of a pit)"""

    def __init__(self, arr):
        self.arr = arr


class PitCols:
    """pit[:, cols] for a concrete list of columns"""

    def __init__(self, pit, cols):
        self.pit = pit
        self.cols = cols


class PairMask:
    """A == B[:, None]  (shape len(B) x len(A)): np.where gives the pairs (s, b) with A[b] == B[s]"""

    def __init__(self, a, b):
        self.a = a        # row vector (e.g. a pit column)
        self.b = b        # column vector (e.g. the slack node numbers)


class ConcatArr(Arr):
    """np.concatenate of 1-D arrays: positional element function over the parts (compressed parts
    through their sel function) plus the list of parts (engine E3 inspects it)"""

    def __init__(self, parts):
        self.parts = list(parts)
        lens = [count_term(p.mask) if isinstance(p, Comp) else (p.n.term() if isinstance(p.n, Count) else p.n)
                for p in self.parts]
        self.offsets = []
        cur = 0
        for ln in lens:
            self.offsets.append(cur)
            cur = arith("+", cur, ln)
        kinds = set(getattr(p, "kind", "f") for p in self.parts)
        Arr.__init__(self, cur, self._elem, "i" if kinds == {"i"} else "f")

    def _elem(self, j):
        out = None
        for p, off in reversed(list(zip(self.parts, self.offsets))):
            k = arith("-", j, off)
            v = p.f(sel_fn(p.mask)(I(k))) if isinstance(p, Comp) else p.f(k)
            out = v if out is None else ite(compare(">=", j, off), v, out)
        # parts are laid out in order: the first part whose offset is <= j and next offset > j
        res = None
        for idx in range(len(self.parts) - 1, -1, -1):
            p, off = self.parts[idx], self.offsets[idx]
            k = arith("-", j, off)
            v = p.f(sel_fn(p.mask)(I(k))) if isinstance(p, Comp) else p.f(k)
            res = v if res is None else ite(compare("<", j, self.offsets[idx + 1]), v, res)
        return res


class Bag:
    """np.concatenate of index arrays, only used for membership"""

    def __init__(self, parts):
        self.parts = parts


class SetVal:
    """a set of ints given by a membership predicate (np.setdiff1d / np.unique results used as
    index sets)"""

    def __init__(self, member):
        self.member = member


def is_array(x):
    return isinstance(x, (Arr, ColView, Comp))


def same_term(a, b):
    if a is b:
        return True
    if isinstance(a, Count) and is_z3(b):
        return a.term().eq(b)
    if isinstance(b, Count) and is_z3(a):
        return b.term().eq(a)
    if is_z3(a) and is_z3(b):
        return a.eq(b)
    if not is_z3(a) and not is_z3(b) and not isinstance(a, Count) and not isinstance(b, Count):
        return a == b
    if isinstance(a, Count) and isinstance(b, Count):
        return a.mask is b.mask
    return False


def in_image(mask_f, idx_f, n, x):
    """Exists b in [0, n): mask(b) and idx(b) == x"""
    b = fresh("b")
    body = band(b >= 0, compare("<", b, n), mask_f(b), compare("==", idx_f(b), x))
    if body is False:
        return False
    return z3.Exists([b], B(body))


_str_codes = {}


def str_code(s):
    """string-valued table cells are modelled as integer codes; each literal gets a distinct code"""
    if s not in _str_codes:
        _str_codes[s] = z3.IntVal(1000003 + len(_str_codes))
    return _str_codes[s]


def member(coll, x):
    if isinstance(coll, (list, tuple, set, frozenset)):
        return bor(*[compare("==", x, e) for e in coll])
    if isinstance(coll, ConcatArr):
        return bor(*[member(p, x) for p in coll.parts])
    if getattr(coll, "member_fn", None) is not None:
        return coll.member_fn(x)      # membership predicate supplied by the producing contract
    if isinstance(coll, SetVal):
        return coll.member(x)
    if isinstance(coll, Bag):
        return bor(*[member(p, x) for p in coll.parts])
    if isinstance(coll, Comp):
        return in_image(coll.mask.f, coll.f, coll.mask.n, x)
    if isinstance(coll, (Arr, ColView)):
        return in_image(lambda b: True, coll.f, coll.n, x)
    raise Unsupported("membership in %r" % (coll,))
