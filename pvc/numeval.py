"""Concrete (floating point) evaluation of z3 terms with uninterpreted functions interpreted as
deterministic pseudo-random functions.  Used (a) to look for cheap counterexamples before a
solver call, (b) to validate the encoder against the real code, (c) for debugging."""
import hashlib
import math
import z3


class Interp:
    def __init__(self, seed=0, consts=None, ufs=None, lo=0.5, hi=2.0, int_lo=0, int_hi=3):
        self.seed = seed
        self.consts = {"pi": math.pi}
        self.consts.update(consts or {})     # name -> value
        self.ufs = dict(ufs or {})           # name -> python callable
        self.lo, self.hi = lo, hi
        self.int_lo, self.int_hi = int_lo, int_hi
        self.cache = {}

    def _rnd(self, key):
        h = hashlib.sha256(("%s|%s" % (self.seed, key)).encode()).digest()
        return int.from_bytes(h[:8], "big") / float(1 << 64)

    def const(self, name, sort):
        if name in self.consts:
            return self.consts[name]
        u = self._rnd("c:" + name)
        if sort.kind() == z3.Z3_BOOL_SORT:
            v = u < 0.5
        elif sort.kind() == z3.Z3_INT_SORT:
            v = self.int_lo + int(u * (self.int_hi - self.int_lo + 1))
        else:
            v = self.lo + u * (self.hi - self.lo)
        self.consts[name] = v
        return v

    def uf(self, name, args, sort):
        if name in self.ufs:
            return self.ufs[name](*args)
        if name == "exp":
            return math.exp(args[0])
        if name == "ln":
            return math.log(args[0]) if args[0] > 0 else float("nan")
        if name == "log10":
            return math.log10(args[0]) if args[0] > 0 else float("nan")
        if name == "sqrt":
            return math.sqrt(args[0]) if args[0] >= 0 else float("nan")
        if name == "pow":
            try:
                return math.pow(args[0], args[1])
            except (ValueError, OverflowError):
                return float("nan")
        if sort.kind() == z3.Z3_REAL_SORT and any(isinstance(a, float) for a in args):
            # smooth in real arguments (numerically equal arguments must give equal values),
            # hashed in the integer ones
            ints = [a for a in args if not isinstance(a, float)]
            acc = 0.0
            for k, a in enumerate(args):
                if isinstance(a, float):
                    w = 0.3 + 1.7 * self._rnd("w:%s:%d:%s" % (name, k, ints))
                    ph = 6.283 * self._rnd("p:%s:%d:%s" % (name, k, ints))
                    acc += math.sin(w * a + ph)
            nreal = sum(1 for a in args if isinstance(a, float))
            u = 0.5 + 0.5 * acc / max(1, nreal)
            return self.lo + u * (self.hi - self.lo)
        u = self._rnd("f:%s:%s" % (name, ",".join(repr(a) for a in args)))
        if sort.kind() == z3.Z3_BOOL_SORT:
            return u < 0.5
        if sort.kind() == z3.Z3_INT_SORT:
            return self.int_lo + int(u * (self.int_hi - self.int_lo + 1))
        return self.lo + u * (self.hi - self.lo)

    def ev(self, t):
        i = t.get_id()
        if i in self.cache:
            return self.cache[i][1]
        v = self._ev(t)
        self.cache[i] = (t, v)      # keeps the AST alive: ids of freed ASTs are reused by z3
        return v

    def _ev(self, t):
        if z3.is_quantifier(t):
            raise NotGround()
        if z3.is_rational_value(t):
            return t.numerator_as_long() / t.denominator_as_long()
        if z3.is_int_value(t):
            return t.as_long()
        if z3.is_true(t):
            return True
        if z3.is_false(t):
            return False
        if not z3.is_app(t):
            raise NotGround()
        d = t.decl()
        k = d.kind()
        if k == z3.Z3_OP_UNINTERPRETED:
            if t.num_args() == 0:
                return self.const(d.name(), t.sort())
            return self.uf(d.name(), [self.ev(c) for c in t.children()], t.sort())
        if k == z3.Z3_OP_ITE:
            return self.ev(t.arg(1)) if self.ev(t.arg(0)) else self.ev(t.arg(2))
        if k == z3.Z3_OP_AND:
            return all(self.ev(c) for c in t.children())
        if k == z3.Z3_OP_OR:
            return any(self.ev(c) for c in t.children())
        if k == z3.Z3_OP_NOT:
            return not self.ev(t.arg(0))
        if k == z3.Z3_OP_IMPLIES:
            return (not self.ev(t.arg(0))) or self.ev(t.arg(1))
        if k == z3.Z3_OP_XOR:
            return bool(self.ev(t.arg(0))) != bool(self.ev(t.arg(1)))
        a = [self.ev(c) for c in t.children()]
        if k == z3.Z3_OP_ADD:
            return sum(a)
        if k == z3.Z3_OP_SUB:
            out = a[0]
            for x in a[1:]:
                out -= x
            return out
        if k == z3.Z3_OP_MUL:
            out = 1
            for x in a:
                out *= x
            return out
        if k == z3.Z3_OP_UMINUS:
            return -a[0]
        if k == z3.Z3_OP_DIV:
            return a[0] / a[1] if a[1] != 0 else float("nan")
        if k == z3.Z3_OP_IDIV:
            return a[0] // a[1] if a[1] != 0 else 0
        if k == z3.Z3_OP_MOD:
            return a[0] % a[1] if a[1] != 0 else 0
        if k == z3.Z3_OP_TO_REAL:
            return float(a[0])
        if k == z3.Z3_OP_TO_INT:
            return int(math.floor(a[0]))
        if k == z3.Z3_OP_POWER:
            return a[0] ** a[1]
        if k == z3.Z3_OP_EQ:
            return _eq(a[0], a[1])
        if k == z3.Z3_OP_DISTINCT:
            return all(not _eq(a[x], a[y]) for x in range(len(a)) for y in range(x + 1, len(a)))
        if k == z3.Z3_OP_LE:
            return a[0] <= a[1]
        if k == z3.Z3_OP_LT:
            return a[0] < a[1]
        if k == z3.Z3_OP_GE:
            return a[0] >= a[1]
        if k == z3.Z3_OP_GT:
            return a[0] > a[1]
        raise NotGround("op %s" % d.name())


class NotGround(Exception):
    pass


def _eq(x, y):
    if isinstance(x, bool) or isinstance(y, bool):
        return bool(x) == bool(y)
    if isinstance(x, float) or isinstance(y, float):
        if x != x or y != y:
            return False
        return abs(x - y) <= 1e-9 * max(1e-300, abs(x), abs(y))
    return x == y


def find_counterexample(assumptions, goal, tries=200, seed0=0, consts=None):
    """random search for an interpretation that satisfies the ground assumptions and violates the
    goal (quantified assumptions are checked only through `ground`)"""
    from .solve import ground
    try:
        gas, g = ground(assumptions, goal)
    except Exception:  # noqa
        return None
    for k in range(tries):
        it = Interp(seed=seed0 + k, consts=consts)
        try:
            if not all(it.ev(a) for a in gas):
                continue
            if not it.ev(g):
                return it
        except (NotGround, OverflowError, ZeroDivisionError, ValueError):
            continue
    return None
