"""Verdict aggregation, evidence files, replay files, ledger, exit codes."""
import json
import os
import sys
import time

from . import harness as H
from . import src as S

TRUSTED_BASE = [
    "pvc (the home-made VC generator in /verif/pvc: AST front end, symbolic evaluator, contract harness)",
    "z3 5.1.0 (python API) and cvc5 1.0.3 (CLI) as decision procedures",
    "the numpy/scipy/pandas model in pvc/npmodel.py (assumption A4), exercised against the installed libraries by replay/validate_model.py",
    "Lean 4.33 kernel + Mathlib for the spec-level lemmas of lean/Lemmas.lean (units named lean_lemmas)",
    "CPython/numba implement the semantics of the Python subset A6 that the evaluator encodes (A5)",
]

ASSUMPTION_TEXT = {
    "A1": "A1 float64 arithmetic treated as exact real arithmetic; inputs finite unless a NaN flag is modelled explicitly; round-off is not bounded",
    "A2": "A2 IEEE Float64 theory for the comparisons of the Newton driver (NaN/inf exact)",
    "A3": "A3 exp/log/log10/sqrt/pow uninterpreted with the axioms sqrt(x)^2=x & sqrt(x)>0 for x>0, exp>0, exp(0)=1, x<=0 => exp(x)<=1; integer powers expanded; x**-0.5 = 1/sqrt(x)",
    "A4": "A4 assumed contracts of numpy/scipy/pandas calls (pvc/npmodel.py MODEL_AXIOMS), spsolve(J,e) returns x with J x = e for nonsingular J, breadth_first_order returns exactly the reachable nodes",
    "A5": "A5 numba-compiled kernels implement the Python semantics of the subset used (float64, int32 without overflow, ~ on booleans is logical not)",
    "A6": "A6 Python subset of the evaluator (assignment, if/for/while with invariant, try/except, dict/list/tuple, comprehension over concrete collections); recursion/termination not verified",
    "A7": "A7 integers are mathematical (indices fit the machine types)",
}


def write_replay(prop, rec, tree_info):
    d = os.path.join(H.OUT, "replay")
    os.makedirs(d, exist_ok=True)
    safe = rec["id"].replace("/", "_").replace(":", "_").replace(" ", "_").replace("#", "_")[:180]
    path = os.path.join(d, safe + ".json")
    body = {"property": prop, "obligation": rec["id"], "kind": rec["kind"],
            "solver": {"backend": rec.get("backend"), "seconds": rec.get("seconds"),
                       "verdict": rec.get("verdict"), "raw_model": rec.get("model")},
            "lineno": rec.get("lineno"), "note": rec.get("note"),
            "input": (rec.get("replay") or {}).get("input"),
            "handler": (rec.get("replay") or {}).get("handler"),
            "expected": (rec.get("replay") or {}).get("expected"),
            "source": tree_info, "reproduced": None, "observed": None}
    with open(path, "w") as f:
        json.dump(body, f, indent=1, default=str)
    return path


def run_replay(path):
    """execute the replay file on the real code (venv interpreter); updates the file"""
    with open(path) as f:
        body = json.load(f)
    if not body.get("handler"):
        body["reproduced"] = False
        body["observed"] = "no replay handler for this obligation"
    else:
        try:
            out = H.venv_run("run.py", body)
            body["reproduced"] = bool(out.get("reproduced"))
            body["observed"] = out.get("observed")
        except Exception as e:  # noqa
            body["reproduced"] = False
            body["observed"] = "replay failed: %s" % e
    with open(path, "w") as f:
        json.dump(body, f, indent=1, default=str)
    return body


def finish(prop, tier, seed, results, t0, extra_cov=None, level="proof", checker_cmd=None,
           update_ledger=False, partial=False):
    obs, bounded, functions, inlined, assumptions, notes, downgrades = [], [], {}, set(), set(), [], []
    errors = []
    solver_time = 0.0
    by_backend = {}
    for r in results:
        vac = [o for o in r["obs"] if o.get("vacuous")]
        solid = [o for o in r["obs"] if o["verdict"] == "proved" and not o.get("vacuous") and str(o.get("backend", "")).startswith(("z3", "cvc5"))
                 and o["kind"] != "cover" and not str(o["kind"]).startswith("safety")]
        if vac and not solid:
            vac[0]["fault"] = "vacuous unit: every proved obligation of unit %s has contradictory assumptions (%d obligations)" % (r["unit"], len(vac))
        if r["error"]:
            errors.append((r["unit"], r["error"]))
        obs.extend(r["obs"])
        bounded.extend(r["bounded"])
        functions.update(r["functions"])
        inlined |= set(r["inlined"])
        assumptions |= set(r["assumptions"])
        notes.extend(r["notes"])
        downgrades.extend(r["downgrades"])
    for o in obs:
        solver_time += o.get("seconds") or 0
        by_backend[o["backend"]] = by_backend.get(o["backend"], 0) + 1

    tree_info = {"repo": S.REPO, "files": {k: v for k, v in functions.items()}}
    lines = []
    violations, unknown, faults, known = [], [], [], []
    for o in obs:
        if o.get("fault"):
            faults.append(o)
        v = o["verdict"]
        if v in ("proved",):
            continue
        if v in ("known-finding", "proved-outside-known-finding"):
            known.append(o)
        elif v == "refuted":
            violations.append(o)
        else:
            unknown.append(o)
    for b in bounded:
        if not b["ok"]:
            if b.get("known"):
                known.append({"id": b["id"], "known": b["known"], "verdict": "known-finding"})
            else:
                violations.append({"id": b["id"], "kind": "bounded", "verdict": "refuted",
                                   "model": b.get("witness"), "replay": b.get("replay"),
                                   "backend": "bounded enumeration", "note": b.get("note"),
                                   "seconds": 0, "lineno": None, "bounded": True})

    # ledger
    ledger_path = os.path.join(H.VERIF, "ledger", prop + ".json")
    ids = sorted(set(o["id"] for o in obs) | set(b["id"] for b in bounded))
    missing = []
    if update_ledger:
        os.makedirs(os.path.dirname(ledger_path), exist_ok=True)
        with open(ledger_path, "w") as f:
            json.dump({"property": prop, "tier": tier, "ids": ids}, f, indent=0)
    elif os.path.exists(ledger_path) and not partial:
        with open(ledger_path) as f:
            led = json.load(f)
        # safety obligation ids carry line numbers and counters: compare modulo those
        def norm(i):
            import re
            # line numbers and path / occurrence counters are not part of an obligation's identity
            i = re.sub(r"#\d+", "#*", re.sub(r"@L(\d+|None)", "@L*", i))
            # frame obligations are named after the store statement's text: only the function is part of the identity
            # (an edited statement must not turn into "obligation no longer generated")
            return re.sub(r"^(C12/frame/write/[^/]+)/.*$", r"\1", i)
        cur = set(norm(i) for i in ids)
        if tier == led.get("tier") or tier == "thorough":
            missing = sorted(set(norm(i) for i in led["ids"]) - cur)

    seen_known = set()
    for o in known:
        for w in (o.get("known") or []):
            key = (o["id"], w)
            if key in seen_known:
                continue
            seen_known.add(key)
            lines.append("KNOWN-FINDING: property=%s %s [%s]" % (prop, w, o["id"]))
    nviol = 0
    # a refuted obligation without a model-specific replay falls back to the property-level native oracle
    # (contracts/Cxx.py: FALLBACK_REPLAY): the replay then shows a failing input of the property on the real
    # code if the oracle's family contains one; it is not the solver's counter-model, and the file says so
    fallback = None
    try:
        import importlib
        fallback = getattr(importlib.import_module("contracts.%s" % prop), "FALLBACK_REPLAY", None)
    except Exception:  # noqa
        fallback = None
    fb_cache = {}
    for o in violations:
        if not o.get("replay") and fallback and not o.get("bounded"):
            o["replay"] = dict(fallback)
            o["note"] = ((o.get("note") or "") + " [replay: property-level native oracle, not the solver's counter-model]").strip()
            o["_fallback"] = True
        path = write_replay(prop, o, tree_info)
        if o.get("_fallback"):
            key = json.dumps(fallback, sort_keys=True, default=str)
            if key in fb_cache:
                with open(path) as f_:
                    body_ = json.load(f_)
                body_["reproduced"], body_["observed"] = fb_cache[key]
                with open(path, "w") as f_:
                    json.dump(body_, f_, indent=1, default=str)
                suffix = "" if body_["reproduced"] else " no-failing-input-found"
                nviol += 1
                lines.append("VIOLATION property=%s replay=%s obligation=%s%s" % (prop, path, o["id"], suffix))
                continue
            body = run_replay(path)
            fb_cache[key] = (body.get("reproduced"), body.get("observed"))
            suffix = "" if body.get("reproduced") else " no-failing-input-found"
            nviol += 1
            lines.append("VIOLATION property=%s replay=%s obligation=%s%s" % (prop, path, o["id"], suffix))
            continue
        body = run_replay(path) if o.get("replay") else None
        suffix = ""
        if body is None or not body.get("reproduced"):
            suffix = " no-failing-input-found"
            if body is None:
                # the replay file still names the obligation and carries the solver output
                pass
        nviol += 1
        lines.append("VIOLATION property=%s replay=%s obligation=%s%s" % (prop, path, o["id"], suffix))

    ndis = sum(1 for o in obs if o["verdict"] in ("proved", "proved-outside-known-finding"))
    nobs = sum(1 for o in obs if o["verdict"] != "known-finding")
    wall = time.time() - t0
    samples = []
    for o in obs[:3] + obs[len(obs) // 2:len(obs) // 2 + 2]:
        samples.append({"id": o["id"], "kind": o["kind"], "verdict": o["verdict"],
                        "backend": o["backend"], "seconds": o["seconds"]})
    cov = {
        "obligations": nobs,
        "discharged": ndis,
        "checker_cmd": checker_cmd or ("./check %s --tier %s" % (prop, tier)),
        "trusted_base": TRUSTED_BASE,
        "samples": samples or [{"note": "no obligations generated"}],
        "obligations_by_backend": by_backend,
        "solver_time_s": round(solver_time, 3),
        "functions_under_contract": functions,
        "inlined_calls": sorted(inlined),
        "bounded_obligations": [{"id": b["id"], "ok": b["ok"], "scope": b["scope"],
                                 "cases": b["cases"], "note": b.get("note", "")} for b in bounded],
        "bounded_count": len(bounded),
        "known_finding_obligations": sorted(set(o["id"] for o in known)),
        "undecided": [{"id": o["id"], "note": o.get("note")} for o in unknown],
        "ledger_missing": missing,
        "downgrades": downgrades,
        "infeasible_path_obligations": sum(1 for o in obs if o.get("vacuous")),
        "notes": notes,
    }
    if extra_cov:
        cov.update(extra_cov)
    evid = {"property_id": prop, "tier": tier, "seed": int(seed), "level": level, "coverage": cov,
            "assumptions": [ASSUMPTION_TEXT.get(a, a) for a in sorted(assumptions)],
            "wall_s": round(wall, 2), "violations": nviol}
    # a partial run (--only) never overwrites the evidence of the full check
    evdir = H.EVID if not partial else os.path.join(H.OUT, "evidence_partial")
    os.makedirs(evdir, exist_ok=True)
    with open(os.path.join(evdir, prop + ".json"), "w") as f:
        json.dump(evid, f, indent=1, default=str)

    for l in lines:
        print(l)
    print("%s tier=%s obligations=%d discharged=%d bounded=%d known=%d undecided=%d violations=%d "
          "wall=%.1fs solver=%.1fs" % (prop, tier, nobs, ndis, len(bounded), len(known),
                                       len(unknown) + len(missing), nviol, wall, solver_time))
    if errors or faults:
        for u, e in errors:
            print("CHECKER-FAULT unit=%s\n%s" % (u, e), file=sys.stderr)
        for o in faults:
            print("CHECKER-FAULT %s: %s" % (o["id"], o["fault"]), file=sys.stderr)
        return 3
    if nviol:
        return 1
    if nobs + len(bounded) == 0:
        print("UNDECIDED: zero obligations generated", file=sys.stderr)
        return 2
    if unknown or missing:
        for o in unknown:
            print("UNDECIDED %s: %s" % (o["id"], o.get("note")), file=sys.stderr)
        for m in missing:
            print("UNDECIDED ledger obligation no longer generated: %s" % m, file=sys.stderr)
        return 2
    return 0
