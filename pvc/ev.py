"""Symbolic evaluator of the Python subset (A6) used by the functions under contract.

Execution model: *path enumeration by re-execution*.  A run executes the function from the start
under a list of branch decisions; a symbolic branch beyond that list takes `True` and queues the
alternative.  Every run yields one Path (path condition, result or exception, safety obligations,
final state of the mutable arguments).  Loop bodies of `for i in range(n)` loops that satisfy
the map-loop side condition are evaluated once for a symbolic `i` (all body paths are
enumerated the same way and merged into per-row `ite` terms).
"""
import ast
from fractions import Fraction
import z3

from . import src as S
from .val import *  # noqa
from . import val as V


class _Return(Exception):
    def __init__(self, value):
        self.value = value


class _Raise(Exception):
    def __init__(self, exc):
        self.exc = exc


class _Break(Exception):
    pass


class _Continue(Exception):
    pass


class ExcVal:
    """a raised exception object: class name + message (message is not modelled)"""

    def __init__(self, cls, args=()):
        self.cls = cls
        self.args = args

    def __repr__(self):
        return "ExcVal(%s)" % self.cls


class ExcClass:
    def __init__(self, name):
        self.name = name

    def __repr__(self):
        return "ExcClass(%s)" % self.name


class Opaque:
    """external object (logger, module, ...) on which only dropped operations happen"""

    def __init__(self, name):
        self.name = name

    def __repr__(self):
        return "Opaque(%s)" % self.name


class Obj:
    """record with attributes supplied by the contract (e.g. the fluid, a net); if `cls` is a
    ClassRef of the repository, missing attributes resolve to the real methods of that class"""

    def __init__(self, name, attrs=None, cls=None):
        self.name = name
        self.attrs = attrs if attrs is not None else {}
        self.cls = cls

    def __repr__(self):
        return "Obj(%s)" % self.name


class BoundMethod:
    def __init__(self, recv, name):
        self.recv = recv
        self.name = name


class NpFn:
    def __init__(self, name):
        self.name = name

    def __repr__(self):
        return "np.%s" % self.name


class Builtin:
    def __init__(self, name):
        self.name = name


class Closure:
    def __init__(self, node, env, module):
        self.node = node
        self.env = env
        self.module = module


class AnyOf:
    """np.any(mask) as a branch condition; carries the mask so that the negative branch can
    assume  forall j. not mask(j)"""

    def __init__(self, mask):
        self.mask = mask


class StarArr:
    """`*arr` for an array of symbolic length (only understood by callee contracts written for it)"""

    def __init__(self, arr):
        self.arr = arr


class Path:
    def __init__(self):
        self.conds = []        # list of z3 Bool (path condition)
        self.facts = []        # definitional facts about fresh symbols (np.max/np.min results)
        self.safety = []       # (kind, lineno, guard(list of conds), formula)
        self.result = None
        self.exc = None
        self.args = None       # final argument values (bound names -> values)
        self.env = None
        self.inlined = set()
        self.notes = []

    def cond(self):
        cs = [B(c) for c in self.conds if c is not True]
        return z3.And(*cs) if cs else z3.BoolVal(True)


NP_NAMES = {"abs", "absolute", "maximum", "minimum", "divide", "zeros_like", "ones_like", "zeros",
            "ones", "empty", "empty_like", "full", "isclose", "isnan", "any", "all", "sum", "exp",
            "log", "log10", "sqrt", "power", "arange", "isin", "concatenate", "setdiff1d", "where",
            "less_equal", "int32", "int64", "float64", "bool_", "pi", "nan", "copy", "array",
            "max", "min", "newaxis", "cumsum", "nan_to_num", "full_like", "logical_and",
            "logical_or", "logical_not", "iterable", "shape", "square", "inf", "ndarray", "bool",
            "sign", "unique", "mean", "repeat", "nanmax", "nanmin", "insert"}


class Evaluator:
    def __init__(self, contracts=None, inline=True, max_paths=256, hooks=None):
        self.contracts = contracts or {}     # key -> callable(ev, args, kwargs) -> value
        self.inline = inline
        self.max_paths = max_paths
        self.hooks = hooks or {}
        self.decisions = []
        self.pos = 0
        self.work = []
        self.path = None
        self.depth = 0
        self.run_globals = {}
        self.dict_universe = None
        self.store_guards = []
        self.guarded_ifs = False   # opt-in: ifs whose arms only store into arrays become ite-stores

    # ------------------------------------------------------------------------------------------
    # driver

    def run_all(self, fref, make_args):
        """enumerate all paths of fref; make_args() -> (args list, kwargs dict) fresh per run"""
        paths = []
        self.work = [[]]
        while self.work:
            if len(paths) >= self.max_paths:
                raise Unsupported("more than %d paths in %s" % (self.max_paths, fref.key))
            self.decisions = self.work.pop()
            self.pos = 0
            self.path = Path()
            self.run_globals = {}
            args, kwargs = make_args()
            try:
                self.path.result = self.call_function(fref, args, kwargs, top=True)
            except _Raise as r:
                self.path.exc = r.exc
            self.path.args = (args, kwargs)
            self.path.globals = self.run_globals
            paths.append(self.path)
        return paths

    def decide(self, cond, lineno=None):
        """branch on cond; python bools are decided directly"""
        if isinstance(cond, AnyOf):
            d = self._oracle()
            m = cond.mask
            if d:
                j = fresh("w")
                self.path.conds.append(band(j >= 0, compare("<", j, m.n), m.f(j)))
            else:
                j = fresh("k")
                body = z3.Implies(B(band(j >= 0, compare("<", j, m.n))), B(bnot(m.f(j))))
                # path-specific: goes into the path condition only (never a global assumption)
                self.path.conds.append(z3.ForAll([j], body))
                src = m.__dict__.get("_not_of")
                if src is not None:
                    # "all entries of src are True" on this path: its compress is the identity
                    src.__dict__["_all_true"] = True
                    k = fresh("k")
                    self.path.conds.append(B(compare("==", V.count_term(src), src.n)))
                    self.path.conds.append(z3.ForAll([k], z3.Implies(k >= 0, V.sel_fn(src)(k) == k)))
            return d
        if type(cond).__name__ == "NotAny":
            return not self.decide(AnyOf(cond.neg), lineno)
        if isinstance(cond, bool):
            return cond
        if cond is None:
            return False
        if isinstance(cond, IntInvert):
            return cond.truthy()
        if isinstance(cond, (int, Fraction)):
            return cond != 0
        if isinstance(cond, str):
            return len(cond) > 0
        if isinstance(cond, (list, tuple, dict, set)):
            return len(cond) > 0
        if isinstance(cond, (ExcVal, Obj, Opaque, S.FunctionRef, Closure)):
            return True
        if hasattr(cond, "truthy"):
            return self.decide(cond.truthy(), lineno)
        c = B(cond)
        c = z3.simplify(c)
        if z3.is_true(c):
            return True
        if z3.is_false(c):
            return False
        for pc in self.path.conds:
            if is_z3(pc):
                if pc.eq(c):
                    return True
                if z3.is_not(pc) and pc.arg(0).eq(c):
                    return False
                if z3.is_not(c) and c.arg(0).eq(pc):
                    return False
        d = self._oracle()
        self.path.conds.append(c if d else z3.Not(c))
        return d

    def _oracle(self):
        if self.pos < len(self.decisions):
            d = self.decisions[self.pos]
        else:
            d = True
            self.work.append(self.decisions[:self.pos] + [False])
            self.decisions = self.decisions + [True]
        self.pos += 1
        return d

    def safety(self, kind, formula, lineno):
        if formula is True:
            return
        self.path.safety.append((kind, lineno, list(self.path.conds), formula))

    # ------------------------------------------------------------------------------------------
    # calls

    def call_function(self, fref, args, kwargs, top=False, self_obj=None):
        key = fref.key
        if not top and key in self.contracts:
            return self.contracts[key](self, args, kwargs)
        if not top:
            self.path.inlined.add(key)
        node = fref.node
        env = Env(fref.module, self)
        env.fref = fref
        self.bind_params(node, env, args, kwargs, fref)
        self.depth += 1
        if self.depth > 40:
            raise Unsupported("call depth")
        try:
            self.exec_block(S.strip_docstring(node.body), env)
            ret = None
        except _Return as r:
            ret = r.value
        finally:
            self.depth -= 1
        if top:
            self.path.env = env
        return ret

    def bind_params(self, node, env, args, kwargs, fref=None):
        a = node.args
        params = [p.arg for p in a.posonlyargs + a.args]
        defaults = a.defaults
        ndef = len(defaults)
        args = list(args)
        kwargs = dict(kwargs)
        for idx, p in enumerate(params):
            if idx < len(args):
                env.set(p, args[idx])
            elif p in kwargs:
                env.set(p, kwargs.pop(p))
            else:
                di = idx - (len(params) - ndef)
                if di < 0:
                    raise Unsupported("missing argument %s for %s" % (p, getattr(fref, 'key', '?')))
                env.set(p, self.eval(defaults[di], env))
        extra = args[len(params):]
        if a.vararg:
            env.set(a.vararg.arg, tuple(extra))
        elif extra:
            raise Unsupported("too many positional arguments")
        for p, d in zip(a.kwonlyargs, a.kw_defaults):
            if p.arg in kwargs:
                env.set(p.arg, kwargs.pop(p.arg))
            elif d is not None:
                env.set(p.arg, self.eval(d, env))
            else:
                raise Unsupported("missing kw-only argument %s" % p.arg)
        if a.kwarg:
            env.set(a.kwarg.arg, self.make_kwargs_dict(kwargs))
        elif kwargs:
            raise Unsupported("unexpected keyword arguments %s" % list(kwargs))

    def make_kwargs_dict(self, kwargs):
        if "__symdict__" in kwargs:
            return kwargs["__symdict__"]
        return dict(kwargs)

    # ------------------------------------------------------------------------------------------
    # statements

    def exec_block(self, body, env):
        for st in body:
            self.exec_stmt(st, env)

    def exec_stmt(self, st, env):
        if S.is_dropped_stmt(st):
            return
        m = getattr(self, "st_" + type(st).__name__, None)
        if m is None:
            raise Unsupported("statement %s at line %d" % (type(st).__name__, st.lineno))
        return m(st, env)

    def st_Pass(self, st, env):
        pass

    def st_Expr(self, st, env):
        if isinstance(st.value, ast.Constant):
            return
        self.eval(st.value, env)

    def st_Return(self, st, env):
        raise _Return(self.eval(st.value, env) if st.value is not None else None)

    def st_Raise(self, st, env):
        if st.exc is None:
            exc = env.get("__current_exc__")
            raise _Raise(exc)
        if isinstance(st.exc, ast.Call):
            # the message arguments are not modelled; failures while building them are ignored
            fnv = self.eval(st.exc.func, env)
            try:
                v = self.eval(st.exc, env)
            except Unsupported:
                if isinstance(fnv, ExcClass):
                    v = ExcVal(fnv.name)
                elif isinstance(fnv, S.ClassRef):
                    v = ExcVal(fnv.name)
                else:
                    raise
        else:
            v = self.eval(st.exc, env)
        if isinstance(v, ExcClass):
            v = ExcVal(v.name)
        if isinstance(v, S.ClassRef):
            from .classes import is_exception_class
            if is_exception_class(v):
                v = ExcVal(v.name)
        if not isinstance(v, ExcVal):
            raise Unsupported("raise of non-exception %r" % (v,))
        raise _Raise(v)

    def st_Break(self, st, env):
        raise _Break()

    def st_Continue(self, st, env):
        raise _Continue()

    def st_Import(self, st, env):
        for a in st.names:
            env.set(a.asname or a.name.split(".")[0], Opaque(a.name))

    def st_ImportFrom(self, st, env):
        mod = st.module
        for a in st.names:
            nm = a.asname or a.name
            if mod and mod.startswith("pandapipes"):
                try:
                    kind, ref = S.resolve_import_from(mod, a.name)
                except S.SourceError as e:
                    raise Unsupported(str(e))
                env.set(nm, self.wrap_resolved(kind, ref))
            else:
                env.set(nm, self.external_name(mod, a.name))

    def external_name(self, mod, name):
        if mod in ("numpy",) and name in NP_NAMES:
            return NpFn(name)
        if name in ("deepcopy",):
            return Builtin("deepcopy")
        return Opaque("%s.%s" % (mod, name))

    def wrap_resolved(self, kind, ref):
        if kind in ("function", "class"):
            return ref
        if kind == "const":
            return ref
        if kind == "external":
            mod, name = ref
            if name is None:
                if mod == "numpy":
                    return Opaque("numpy")
                return Opaque(mod)
            return self.external_name(mod, name)
        return Opaque("%s.%s" % ref)

    def st_FunctionDef(self, st, env):
        env.set(st.name, Closure(st, env, env.module))

    def st_Assign(self, st, env):
        v = self.eval(st.value, env)
        for t in st.targets:
            self.assign(t, v, env)

    def st_AnnAssign(self, st, env):
        if st.value is not None:
            self.assign(st.target, self.eval(st.value, env), env)

    def st_AugAssign(self, st, env):
        opname = type(st.op).__name__
        if isinstance(st.target, ast.Name):
            cur = env.get(st.target.id)
            new = self.binop(opname, cur, self.eval(st.value, env), st.lineno, inplace=True)
            if new is not None:
                env.set(st.target.id, new)
            return
        if isinstance(st.target, ast.Subscript):
            base = self.eval(st.target.value, env)
            idx = self.eval_index(st.target.slice, env)
            if isinstance(base, (Arr, ColView)) and is_array(idx) and idx.kind != "b" and \
                    not isinstance(env, LoopEnv) and opname in ("Add", "Sub"):
                # a[idx] op= v with an integer index array (unique indices, A4):
                #   new[j] = op(old[j], v[k]) for the k with idx[k] == j,  old[j] elsewhere
                rhs = self.eval(st.value, env)
                return self.fancy_aug(base, idx, opname, rhs, st.lineno)
            cur = self.subscript(base, idx, st.lineno, env)
            rhs = self.eval(st.value, env)
            new = self.binop(opname, cur, rhs, st.lineno)
            self.store_subscript(base, idx, new, st.lineno, env, aug=True)
            return
        if isinstance(st.target, ast.Attribute):
            obj = self.eval(st.target.value, env)
            cur = self.getattr(obj, st.target.attr, st.lineno)
            new = self.binop(opname, cur, self.eval(st.value, env), st.lineno)
            self.setattr(obj, st.target.attr, new, st.lineno)
            return
        raise Unsupported("augmented assignment target")

    def assign(self, t, v, env):
        if isinstance(t, ast.Name):
            env.set(t.id, v)
        elif isinstance(t, (ast.Tuple, ast.List)):
            vs = self.unpack(v, len(t.elts))
            for tt, vv in zip(t.elts, vs):
                self.assign(tt, vv, env)
        elif isinstance(t, ast.Subscript):
            base = self.eval(t.value, env)
            idx = self.eval_index(t.slice, env)
            self.store_subscript(base, idx, v, t.lineno, env)
        elif isinstance(t, ast.Attribute):
            obj = self.eval(t.value, env)
            self.setattr(obj, t.attr, v, t.lineno)
        else:
            raise Unsupported("assignment target %s" % type(t).__name__)

    def unpack(self, v, n):
        if isinstance(v, (tuple, list)):
            if len(v) != n:
                raise Unsupported("unpack length mismatch %d vs %d" % (len(v), n))
            return list(v)
        if hasattr(v, "unpack"):
            return v.unpack(n)
        raise Unsupported("cannot unpack %r" % (v,))

    def st_If(self, st, env):
        if _only_dropped(st.body) and _only_dropped(st.orelse):
            # both arms consist of dropped statements (logging): no fork, the test is not
            # evaluated (tests of such ifs in the functions under contract are effect-free reads)
            return
        if self.guarded_ifs and not isinstance(env, LoopEnv) and _only_guardable(st.body) and \
                (not st.orelse or _only_guardable(st.orelse)):
            c = self.eval_cond(st.test, env)
            if isinstance(c, bool) or not is_z3(c):
                if self.decide(c, st.lineno):
                    self.exec_block(st.body, env)
                else:
                    self.exec_block(st.orelse, env)
                return
            cs = z3.simplify(B(c))
            if z3.is_true(cs):
                return self.exec_block(st.body, env)
            if z3.is_false(cs):
                return self.exec_block(st.orelse, env)
            # guarded execution: array stores in the arms become  ite(guard, new, old)
            for guard, arm in ((cs, st.body), (z3.Not(cs), st.orelse)):
                if not arm:
                    continue
                self.store_guards.append(guard)
                self.path.conds.append(guard)
                try:
                    self.exec_block(arm, env)
                finally:
                    self.path.conds.pop()
                    self.store_guards.pop()
            return
        c = self.eval_cond(st.test, env)
        if self.decide(c, st.lineno):
            self.exec_block(st.body, env)
        else:
            self.exec_block(st.orelse, env)

    def eval_cond(self, node, env):
        """short-circuit aware evaluation of a branch condition"""
        if isinstance(node, ast.BoolOp):
            # decide operand by operand to respect short-circuiting side conditions
            if isinstance(node.op, ast.And):
                for v in node.values[:-1]:
                    c = self.eval_cond(v, env)
                    if not self.decide(c, node.lineno):
                        return False
                return self.eval_cond(node.values[-1], env)
            else:
                for v in node.values[:-1]:
                    c = self.eval_cond(v, env)
                    if self.decide(c, node.lineno):
                        return True
                return self.eval_cond(node.values[-1], env)
        if isinstance(node, ast.UnaryOp) and isinstance(node.op, ast.Not):
            c = self.eval_cond(node.operand, env)
            if isinstance(c, AnyOf) or type(c).__name__ == "NotAny":
                return not self.decide(c, node.lineno)
            return self.truth_not(c)
        return self.eval(node, env)

    def truth_not(self, c):
        if isinstance(c, bool):
            return not c
        if c is None:
            return True
        if isinstance(c, (int, Fraction, str, list, tuple, dict, set)):
            return not c
        if hasattr(c, "truthy"):
            return self.truth_not(c.truthy())
        if isinstance(c, (Obj, Opaque, ExcVal)):
            return False
        return bnot(c)

    def st_While(self, st, env):
        hook = self.hooks.get(("while", st.lineno))
        if hook is not None:
            return hook(self, st, env)
        # concrete unrolling only (bounded by 64) -- symbolic while needs an invariant hook
        count = 0
        while True:
            c = self.eval_cond(st.test, env)
            if not isinstance(c, bool):
                c2 = z3.simplify(B(c)) if is_z3(c) else c
                if is_z3(c2) and not (z3.is_true(c2) or z3.is_false(c2)):
                    raise Unsupported("symbolic while at line %d needs an invariant" % st.lineno)
            if not self.decide(c, st.lineno):
                break
            count += 1
            if count > 64:
                raise Unsupported("while unrolling bound")
            try:
                self.exec_block(st.body, env)
            except _Break:
                return
            except _Continue:
                continue
        self.exec_block(st.orelse, env)

    def st_For(self, st, env):
        it = self.eval(st.iter, env)
        hook = self.hooks.get(("for", st.lineno))
        if hook is not None:
            return hook(self, st, env, it)
        if isinstance(it, SymRange):
            return self.map_loop(st, env, it)
        if isinstance(it, EnumArr):
            return self.map_loop(st, env, it)
        if isinstance(it, dict):
            it = list(it.keys())
        if hasattr(it, "concrete_iter"):
            it = it.concrete_iter()
        if isinstance(it, (set, frozenset)):
            it = sorted(it, key=repr)
        if not isinstance(it, (list, tuple, range)):
            raise Unsupported("for over %r at line %d" % (it, st.lineno))
        for v in it:
            self.assign(st.target, v, env)
            try:
                self.exec_block(st.body, env)
            except _Break:
                return
            except _Continue:
                continue
        self.exec_block(st.orelse, env)

    def st_Try(self, st, env):
        try:
            self.exec_block(st.body, env)
        except _Raise as r:
            for h in st.handlers:
                if self.exc_matches(r.exc, h.type, env):
                    if h.name:
                        env.set(h.name, r.exc)
                    env.set("__current_exc__", r.exc)
                    self.exec_block(h.body, env)
                    break
            else:
                self.exec_block(st.finalbody, env)
                raise
        else:
            self.exec_block(st.orelse, env)
        self.exec_block(st.finalbody, env)

    EXC_PARENTS = {"KeyError": "LookupError", "IndexError": "LookupError", "LookupError": "Exception",
                   "UserWarning": "Warning", "Warning": "Exception", "ValueError": "Exception",
                   "AttributeError": "Exception", "TypeError": "Exception",
                   "PipeflowNotConverged": "ppException", "ppException": "Exception",
                   "ImportError": "Exception", "NotImplementedError": "RuntimeError",
                   "RuntimeError": "Exception", "ZeroDivisionError": "ArithmeticError",
                   "ArithmeticError": "Exception", "Exception": "BaseException"}

    def exc_matches(self, exc, typ, env):
        if typ is None:
            return True
        t = self.eval(typ, env)
        names = []
        for x in (t if isinstance(t, tuple) else (t,)):
            if isinstance(x, ExcClass):
                names.append(x.name)
            elif isinstance(x, S.ClassRef):
                names.append(x.name)
            elif isinstance(x, Opaque):
                names.append(x.name.split(".")[-1])
            else:
                raise Unsupported("except clause type %r" % (x,))
        c = exc.cls
        while c is not None:
            if c in names:
                return True
            c = self.EXC_PARENTS.get(c)
        return False

    def st_Assert(self, st, env):
        c = self.eval_cond(st.test, env)
        if not self.decide(c, st.lineno):
            raise _Raise(ExcVal("AssertionError"))

    def st_Delete(self, st, env):
        for t in st.targets:
            if isinstance(t, ast.Subscript):
                base = self.eval(t.value, env)
                idx = self.eval_index(t.slice, env)
                if hasattr(base, "delitem"):
                    base.delitem(self, idx, t.lineno)
                elif isinstance(base, dict):
                    del base[idx]
                else:
                    raise Unsupported("del on %r" % (base,))
            elif isinstance(t, ast.Name):
                env.vars.pop(t.id, None)
            else:
                raise Unsupported("del target")

    def st_Global(self, st, env):
        pass

    def st_With(self, st, env):
        raise Unsupported("with statement at line %d" % st.lineno)

    # ------------------------------------------------------------------------------------------
    # map loops

    def map_loop(self, st, env, it):
        i = fresh("i")
        n = it.n
        body_env_base = env
        # collect all body paths
        outer_work, outer_dec, outer_pos = self.work, self.decisions, self.pos
        outer_path = self.path
        results = []
        self.work = [[]]
        npaths = 0
        try:
            while self.work:
                npaths += 1
                if npaths > 128:
                    raise Unsupported("map-loop body has too many paths (line %d)" % st.lineno)
                self.decisions = self.work.pop()
                self.pos = 0
                self.path = Path()
                lenv = LoopEnv(body_env_base, i)
                if isinstance(it, SymRange):
                    self.assign(st.target, i, lenv)
                else:
                    self.assign(st.target, (i, it.arr.f(i)), lenv)
                skipped = False
                try:
                    self.exec_block(st.body, lenv)
                except _Continue:
                    skipped = True
                except _Break:
                    raise Unsupported("break in map loop (line %d)" % st.lineno)
                except _Return:
                    raise Unsupported("return in map loop (line %d)" % st.lineno)
                results.append((self.path, lenv))
        finally:
            self.work, self.decisions, self.pos = outer_work, outer_dec, outer_pos
            self.path = outer_path
        # transfer safety obligations (guarded by 0 <= i < n)
        guard = band(i >= 0, compare("<", i, n))
        for p, lenv in results:
            for kind, ln, conds, f in p.safety:
                self.path.safety.append((kind, ln, list(self.path.conds) + [guard] + conds, f))
            self.path.inlined |= p.inlined
        # merge direct stores  A[i] = v
        targets = {}
        for p, lenv in results:
            for aid, (arr, col, val) in lenv.direct.items():
                targets.setdefault(aid, (arr, col))
        for aid, (arr, col) in targets.items():
            if isinstance(arr, Pit):
                old = arr.f
                oldf = (lambda j, _o=old, _c=col: _o(j, _c))
            else:
                oldf = arr.f
            cases = []
            for p, lenv in results:
                if aid in lenv.direct:
                    cases.append((p.cond(), lenv.direct[aid][2]))
            newf = _merged_elem(i, n, cases, oldf, len(cases) == len(results))
            if isinstance(arr, Pit):
                arr.set_col(col, newf)
            else:
                arr.f = newf
        # scatter stores  A[g(i)] = v
        scat = {}
        for p, lenv in results:
            for (arr, g, val) in lenv.scatter:
                scat.setdefault(id(arr), (arr, []))[1].append((p.cond(), g, val))
        for aid, (arr, entries) in scat.items():
            if aid in targets:
                raise Unsupported("array both directly and scatter-stored in a loop")
            arr.f = _scatter_elem(i, n, entries, arr.f)
        # names assigned in the body are dead after the loop (checked lazily: poison them)
        for p, lenv in results:
            for k in lenv.vars:
                env.set(k, Poison(k, st.lineno))

    # ------------------------------------------------------------------------------------------
    # expressions

    def eval(self, node, env):
        m = getattr(self, "ex_" + type(node).__name__, None)
        if m is None:
            raise Unsupported("expression %s at line %d" % (type(node).__name__, node.lineno))
        return m(node, env)

    def ex_Constant(self, node, env):
        v = node.value
        if isinstance(v, float):
            return Fraction(repr(v))
        return v

    def ex_Name(self, node, env):
        v = env.get(node.id)
        if isinstance(v, Poison):
            raise Unsupported("loop-local variable %s read after the loop (line %d)"
                              % (v.name, node.lineno))
        return v

    def ex_Tuple(self, node, env):
        out = []
        for e in node.elts:
            if isinstance(e, ast.Starred):
                out.extend(self.iterate(self.eval(e.value, env)))
            else:
                out.append(self.eval(e, env))
        return tuple(out)

    def ex_List(self, node, env):
        return list(self.ex_Tuple(node, env))

    def ex_Set(self, node, env):
        return set(self.eval(e, env) for e in node.elts)

    def ex_Dict(self, node, env):
        parts = []
        for k, v in zip(node.keys, node.values):
            if k is None:
                parts.append(("**", self.eval(v, env)))
            else:
                parts.append((self.eval(k, env), self.eval(v, env)))
        if any(k == "**" and hasattr(v, "merge_into") for k, v in parts):
            from .symdict import merge_dicts
            return merge_dicts(self, parts)
        if not parts and getattr(self, "dict_universe", None):
            from .symdict import SymDict
            return SymDict.from_concrete(self.dict_universe, {}, "fresh")
        d = {}
        for k, v in parts:
            if k == "**":
                if not isinstance(v, dict):
                    raise Unsupported("** of %r" % (v,))
                d.update(v)
            else:
                d[k] = v
        return d

    def ex_JoinedStr(self, node, env):
        out = ""
        for p in node.values:
            if isinstance(p, ast.Constant):
                out += p.value
            elif isinstance(p, ast.FormattedValue):
                v = self.eval(p.value, env)
                if p.conversion == 114:
                    v = repr(v)
                if not isinstance(v, (str, int)):
                    v = "<%s>" % type(v).__name__
                out += str(v)
        return out

    def ex_IfExp(self, node, env):
        c = self.eval_cond(node.test, env)
        if isinstance(c, bool) or not is_z3(c):
            return self.eval(node.body, env) if self.decide(c, node.lineno) else \
                self.eval(node.orelse, env)
        cs = z3.simplify(B(c))
        if z3.is_true(cs):
            return self.eval(node.body, env)
        if z3.is_false(cs):
            return self.eval(node.orelse, env)
        # both sides are evaluated under their guard and merged when scalar
        if isinstance(env, LoopEnv) or True:
            self.path.conds.append(cs)
            try:
                a = self.eval(node.body, env)
            finally:
                self.path.conds.pop()
            self.path.conds.append(z3.Not(cs))
            try:
                b = self.eval(node.orelse, env)
            finally:
                self.path.conds.pop()
            if is_scalar(a) and is_scalar(b):
                return ite(cs, a, b)
        if self.decide(cs, node.lineno):
            return self.eval(node.body, env)
        return self.eval(node.orelse, env)

    def ex_UnaryOp(self, node, env):
        v = self.eval(node.operand, env)
        if isinstance(node.op, ast.USub):
            return self.map1(neg, v)
        if isinstance(node.op, ast.UAdd):
            return v
        if isinstance(node.op, ast.Not):
            return self.truth_not(v)
        if isinstance(node.op, ast.Invert):
            if hasattr(v, "invert"):
                return v.invert(self)
            if isinstance(v, bool):
                # python ~True == -2 (truthy!) ; numba types it as boolean not
                return IntInvert(v)
            r_ = self.map1(bnot, v, kind="b")
            if isinstance(v, Arr) and isinstance(r_, Arr):
                r_.__dict__["_not_of"] = v
            return r_
        raise Unsupported("unary op")

    def ex_BoolOp(self, node, env):
        # value context: only boolean-valued operands are supported symbolically
        vals = []
        for v in node.values:
            x = self.eval(v, env)
            if isinstance(x, AnyOf):
                x = self.decide(x, node.lineno)
            if isinstance(x, IntInvert):
                x = x.truthy()
            if isinstance(node.op, ast.And):
                if not is_z3(x) and not hasattr(x, "truthy"):
                    if not self.decide(x):
                        return x if not vals else (False if isinstance(x, bool) else x)
                    vals.append(x)
                    continue
            else:
                if not is_z3(x) and not hasattr(x, "truthy"):
                    if self.decide(x):
                        if not any(is_z3(y) for y in vals):
                            return x
                        return True
                    vals.append(x)
                    continue
            vals.append(x)
        sym = [y.truthy() if hasattr(y, "truthy") else y for y in vals]
        if not any(is_z3(y) for y in sym):
            return vals[-1]
        if isinstance(node.op, ast.And):
            return band(*[y for y in sym if is_z3(y) or isinstance(y, bool)])
        return bor(*[y for y in sym if is_z3(y) or isinstance(y, bool)])

    def ex_Compare(self, node, env):
        left = self.eval(node.left, env)
        res = True
        for op, rn in zip(node.ops, node.comparators):
            right = self.eval(rn, env)
            r = self.compare_op(op, left, right, node.lineno)
            res = r if res is True else self.map2(band, res, r, node.lineno, kind="b")
            left = right
        return res

    def compare_op(self, op, a, b, lineno):
        name = type(op).__name__
        if name in ("Is", "IsNot"):
            if hasattr(a, "is_none"):
                r = a.is_none()
                if b is not None:
                    raise Unsupported("`is` with symbolic value")
            elif a is None or b is None or isinstance(a, (bool, str)) or isinstance(b, (bool, str)):
                if is_z3(a) or is_z3(b):
                    r = False
                else:
                    r = a is b if isinstance(a, bool) or isinstance(b, bool) else (a is b or
                                                                                   (a is None and b is None))
                    if isinstance(a, str) and isinstance(b, str):
                        r = a == b
            else:
                r = a is b
            return r if name == "Is" else self.truth_not(r)
        if name in ("In", "NotIn"):
            r = self.contains(b, a, lineno)
            return r if name == "In" else self.truth_not(r)
        sym = {"Eq": "==", "NotEq": "!=", "Lt": "<", "LtE": "<=", "Gt": ">", "GtE": ">="}[name]
        if is_array(a) and b is None and sym in ("==", "!="):
            # numpy compares elementwise with None: never equal
            return Arr(a.n, lambda j, _v=(sym == "!="): _v, "b") if not isinstance(a, Comp) else \
                Comp(a.mask, lambda j, _v=(sym == "!="): _v, "b")
        if isinstance(b, Col2D) and is_array(a) and sym == "==":
            return PairMask(a, b.arr)
        if isinstance(a, Col2D) and is_array(b) and sym == "==":
            return PairMask(b, a.arr)
        if hasattr(a, "cmp"):
            return a.cmp(sym, b)
        if hasattr(b, "cmp"):
            flip = {"==": "==", "!=": "!=", "<": ">", "<=": ">=", ">": "<", ">=": "<="}[sym]
            return b.cmp(flip, a)
        if isinstance(a, (str, type(None), tuple, list)) and isinstance(b, (str, type(None), tuple,
                                                                              list)):
            if sym == "==":
                return a == b
            if sym == "!=":
                return a != b
        return self.map2(lambda x, y: compare(sym, x, y), a, b, lineno, kind="b")

    def contains(self, coll, x, lineno):
        if hasattr(coll, "contains"):
            return coll.contains(self, x)
        if isinstance(coll, (list, tuple, set, frozenset, dict, str)):
            if hasattr(x, "cmp"):
                return bor(*[x.cmp("==", e) for e in coll])
            if is_z3(x):
                return bor(*[compare("==", x, e) for e in coll])
            return x in coll
        raise Unsupported("`in` on %r (line %d)" % (coll, lineno))

    def ex_BinOp(self, node, env):
        a = self.eval(node.left, env)
        b = self.eval(node.right, env)
        return self.binop(type(node.op).__name__, a, b, node.lineno)

    def binop(self, opname, a, b, lineno, inplace=False):
        if isinstance(a, IntInvert):
            a = -1 - int(a.v)
        if isinstance(b, IntInvert):
            b = -1 - int(b.v)
        if opname == "Mod" and isinstance(a, str):
            args = b if isinstance(b, tuple) else (b,)
            if all(isinstance(x, (str, int)) and not isinstance(x, bool) for x in args):
                try:
                    return a % (b if isinstance(b, tuple) else (b,))
                except (TypeError, ValueError):
                    return a
            return a  # message formatting with symbolic values: content irrelevant
        if opname == "Add" and isinstance(a, str) and isinstance(b, str):
            return a + b
        if opname == "Add" and isinstance(a, (list, tuple)) and isinstance(b, (list, tuple)):
            return a + b
        if opname == "Mult" and isinstance(a, (list, str)) and isinstance(b, int):
            return a * b
        if opname == "Sub" and isinstance(a, (set, frozenset)):
            return a - b
        if opname == "BitOr" and isinstance(a, (set, frozenset)):
            return a | b
        if hasattr(a, "binop"):
            return a.binop(self, opname, b, False)
        if hasattr(b, "binop"):
            return b.binop(self, opname, a, True)
        if opname in ("Add", "Sub", "Mult", "Div", "FloorDiv", "Mod"):
            sym = {"Add": "+", "Sub": "-", "Mult": "*", "Div": "/", "FloorDiv": "//", "Mod": "%"}[
                opname]
            if sym in ("/", "//", "%"):
                self.div_safety(b, lineno)

            def f(x, y):
                return arith(sym, x, y)
            r = self.map2(f, a, b, lineno)
        elif opname == "Pow":
            r = self.map2(power, a, b, lineno)
        elif opname == "BitAnd":
            r = self.map2(band, a, b, lineno, kind="b")
        elif opname == "BitOr":
            r = self.map2(bor, a, b, lineno, kind="b")
        elif opname == "BitXor":
            r = self.map2(lambda x, y: z3.Xor(B(x), B(y)), a, b, lineno, kind="b")
        else:
            raise Unsupported("binary op %s (line %d)" % (opname, lineno))
        if inplace and is_array(a):
            # in-place update of the array object (a op= b)
            if isinstance(a, Comp):
                raise Unsupported("in-place op on a compressed copy")
            self.store_whole(a, r, lineno)
            return a
        return r

    def div_safety(self, b, lineno):
        """denominator != 0, registered eagerly (for arrays at a fresh generic index)"""
        if is_array(b):
            j = fresh("d")
            if isinstance(b, Comp):
                g = band(j >= 0, compare("<", j, b.mask.n), b.mask.f(j))
            else:
                g = band(j >= 0, compare("<", j, b.n))
            den = b.f(j)
            if is_z3(val_of(den)):
                self.safety("div", z3.Implies(B(g), B(compare("!=", val_of(den), 0))), lineno)
        elif is_scalar(b) and is_z3(val_of(b)):
            self.safety("div", compare("!=", val_of(b), 0), lineno)
        elif is_pynum(b) and b == 0:
            self.safety("div", False, lineno)

    def store_whole(self, a, r, lineno):
        if isinstance(a, ColView):
            a.pit.set_col(a.c, r.f if is_array(r) else (lambda j, _r=r: _r))
        else:
            a.f = r.f if is_array(r) else (lambda j, _r=r: _r)

    # elementwise lifting -------------------------------------------------------------------

    def map1(self, f, a, kind=None):
        if isinstance(a, (Arr, ColView)):
            g = a.f
            if hasattr(a, "labels"):
                return type(a)(a.n, lambda j: f(g(j)), kind or a.kind, labels=a.labels)
            return Arr(a.n, lambda j: f(g(j)), kind or a.kind)
        if isinstance(a, Comp):
            g = a.f
            return Comp(a.mask, lambda j: f(g(j)), kind or a.kind)
        if is_scalar(a):
            return f(a)
        if isinstance(a, Pit):
            g = a.f
            return Pit(a.n, lambda i, c: f(g(i, c)), a.ncols)
        raise Unsupported("elementwise op on %r" % (a,))

    def map2(self, f, a, b, lineno, kind=None):
        aa, ab = is_array(a), is_array(b)
        if not aa and not ab:
            if isinstance(a, Pit) or isinstance(b, Pit):
                raise Unsupported("2-D arithmetic (line %d)" % lineno)
            if not (is_scalar(a) or a is None or isinstance(a, str)) or \
                    not (is_scalar(b) or b is None or isinstance(b, str)):
                raise Unsupported("operands %r, %r (line %d)" % (a, b, lineno))
            return f(a, b)
        # a string literal compared with / combined with a column of string cells: cells are integer codes (val.str_code)
        if aa and isinstance(b, str) and getattr(a, "kind", "") == "i":
            b = V.str_code(b)
        if ab and isinstance(a, str) and getattr(b, "kind", "") == "i":
            a = V.str_code(a)
        if aa and not ab:
            if not is_scalar(b):
                raise Unsupported("array op %r (line %d)" % (b, lineno))
            return self.map1(lambda x: f(x, b), a, kind)
        if ab and not aa:
            if not is_scalar(a):
                raise Unsupported("array op %r (line %d)" % (a, lineno))
            return self.map1(lambda y: f(a, y), b, kind)
        # both arrays
        ca, cb = isinstance(a, Comp), isinstance(b, Comp)
        if ca and cb:
            self.same_mask(a.mask, b.mask, lineno)
            fa, fb = a.f, b.f
            return Comp(a.mask, lambda j: f(fa(j), fb(j)), kind or _rk(a, b))
        if ca != cb:
            c, o = (a, b) if ca else (b, a)
            # a compressed array combined with a full array whose length is Count(same mask)
            if isinstance(o.n, Count):
                self.same_mask(c.mask, o.n.mask, lineno)
                if getattr(o, "const_fill", None) is not None:
                    v = o.const_fill
                    fc = c.f
                    if ca:
                        return Comp(c.mask, lambda j: f(fc(j), v), kind or c.kind)
                    return Comp(c.mask, lambda j: f(v, fc(j)), kind or c.kind)
            # positional view of the compressed operand: k -> value at the k-th selected position
            if same_term(o.n, V.count_term(c.mask)) or (isinstance(o.n, Count) and o.n.mask is c.mask):
                self.add_sel_axioms(c.mask)
                sel, fc, fo = V.sel_fn(c.mask), c.f, o.f
                cn = V.count_term(c.mask)
                if ca:
                    return Arr(cn, lambda k: f(fc(sel(V.I(k))), fo(k)), kind or c.kind)
                return Arr(cn, lambda k: f(fo(k), fc(sel(V.I(k)))), kind or c.kind)
            self.safety("shape", False, lineno)
            raise Unsupported("compressed array combined with full array (line %d)" % lineno)
        fa, fb = a.f, b.f
        if not is_z3(a.n) and not isinstance(a.n, Count) and a.n == 1 and not same_term(a.n, b.n):
            return Arr(b.n, lambda j: f(fa(0), fb(j)), kind or _rk(a, b))     # numpy broadcasting
        if not is_z3(b.n) and not isinstance(b.n, Count) and b.n == 1 and not same_term(a.n, b.n):
            return Arr(a.n, lambda j: f(fa(j), fb(0)), kind or _rk(a, b))
        self.same_len(a.n, b.n, lineno)
        la, lb = getattr(a, "labels", None), getattr(b, "labels", None)
        if la is not None or lb is not None:
            # pandas aligns Series operands by label; the call sites combine selections made with
            # the same label array, for which alignment is positional
            if la is not None and lb is not None and la is not lb:
                raise Unsupported("arithmetic between Series with different label arrays (line %d)" % lineno)
            src = a if la is not None else b
            return type(src)(a.n, lambda j: f(fa(j), fb(j)), kind or _rk(a, b), labels=src.labels)
        return Arr(a.n, lambda j: f(fa(j), fb(j)), kind or _rk(a, b))

    def same_len(self, n1, n2, lineno):
        if same_term(n1, n2):
            return
        if isinstance(n1, Count) and isinstance(n2, Count):
            self.same_mask(n1.mask, n2.mask, lineno)
            return
        if isinstance(n1, Count) or isinstance(n2, Count):
            self.safety("shape", False, lineno)
            return
        self.safety("shape", compare("==", n1, n2), lineno)

    def same_mask(self, m1, m2, lineno):
        if m1 is m2:
            return
        self.same_len(m1.n, m2.n, lineno)
        j = fresh("s")
        a, b = m1.f(j), m2.f(j)
        if same_term(a, b):
            return
        g = band(j >= 0, compare("<", j, m1.n))
        eq = B(a) == B(b)
        self.safety("mask", z3.Implies(B(g), eq), lineno)

    # subscripts ----------------------------------------------------------------------------

    def eval_index(self, node, env):
        if isinstance(node, ast.Tuple):
            return tuple(self.eval_index(e, env) for e in node.elts)
        if isinstance(node, ast.Slice):
            lo = self.eval(node.lower, env) if node.lower is not None else None
            hi = self.eval(node.upper, env) if node.upper is not None else None
            st = self.eval(node.step, env) if node.step is not None else None
            return SliceV(lo, hi, st)
        return self.eval(node, env)

    def ex_Subscript(self, node, env):
        base = self.eval(node.value, env)
        idx = self.eval_index(node.slice, env)
        return self.subscript(base, idx, node.lineno, env)

    def subscript(self, base, idx, lineno, env=None):
        if hasattr(base, "getitem"):
            return base.getitem(self, idx, lineno)
        if isinstance(base, (list, tuple, str)):
            if isinstance(idx, SliceV):
                if any(is_z3(x) for x in (idx.lo, idx.hi, idx.step)):
                    raise Unsupported("symbolic slice of a python sequence")
                return base[slice(idx.lo, idx.hi, idx.step)]
            if isinstance(idx, int):
                if idx >= len(base) or idx < -len(base):
                    raise _Raise(ExcVal("IndexError"))
                return base[idx]
            raise Unsupported("index %r into python sequence (line %d)" % (idx, lineno))
        if isinstance(base, dict):
            if is_z3(idx):
                raise Unsupported("symbolic dict key")
            if idx not in base:
                raise _Raise(ExcVal("KeyError", (idx,)))
            return base[idx]
        if isinstance(base, Pit):
            return self.pit_get(base, idx, lineno, env)
        if isinstance(base, PitComp):
            r, c = idx if isinstance(idx, tuple) else (idx, None)
            if isinstance(r, SliceV) and r.lo is None and r.hi is None and c is not None and is_scalar(c):
                bf = base.base.f
                return Comp(base.mask, lambda j, _c=c: bf(j, _c), "f")
            if getattr(r, "is_arange_of", None) is base and isinstance(c, Comp):
                bf, cf = base.base.f, c.f
                self.same_mask(base.mask, c.mask, lineno)
                return Comp(base.mask, lambda j: bf(j, cf(j)), "f")
            raise Unsupported("index into a row-selected pit (line %d)" % lineno)
        if isinstance(base, RowView):
            return base.pit.at(base.i, idx)
        if isinstance(base, (Arr, ColView)):
            return self.arr_get(base, idx, lineno, env)
        if isinstance(base, Comp):
            if isinstance(idx, tuple) and len(idx) == 2 and isinstance(idx[0], SliceV) and idx[1] is None:
                return Col2D(base)
            if isinstance(idx, Comp) and idx.kind == "b":
                # selection of a selection: both are defined on the base domain
                self.same_mask(base.mask, idx.mask, lineno)
                m0, m1 = base.mask, idx
                both = Arr(m0.n, lambda j: band(m0.f(j), m1.f(j)), "b")
                return Comp(both, base.f, base.kind)
            if is_array(idx) and idx.kind == "b" and not isinstance(idx, Comp):
                # a full-length mask applied to a selection: lengths must agree
                self.safety("shape", compare("==", V.count_term(base.mask), idx.n), lineno)
                raise Unsupported("full-length mask applied to a compressed array (line %d)" % lineno)
            raise Unsupported("indexing a compressed array (line %d)" % lineno)
        if type(base).__name__ == "PV":
            return base.item()
        raise Unsupported("subscript of %r (line %d)" % (base, lineno))

    def arr_get(self, a, idx, lineno, env):
        if isinstance(idx, tuple) and len(idx) == 2 and isinstance(idx[0], SliceV) and idx[1] is None \
                and idx[0].lo is None and idx[0].hi is None:
            return Col2D(a)
        if isinstance(idx, tuple) and len(idx) == 2 and idx[0] is None and isinstance(idx[1], SliceV) \
                and idx[1].lo is None and idx[1].hi is None:
            return Row2D(a)
        if isinstance(idx, SliceV):
            if idx.lo is None and idx.hi is None and idx.step is None:
                return a
            if idx.step is None and not isinstance(a, Comp):
                lo = 0 if idx.lo is None else idx.lo
                hi = a.n if idx.hi is None else idx.hi
                if (isinstance(lo, int) and lo < 0) or (isinstance(hi, int) and hi < 0):
                    raise Unsupported("negative slice bound (line %d)" % lineno)
                af = a.f
                return Arr(arith("-", hi, lo), lambda j, _lo=lo: af(arith("+", j, _lo)), a.kind)
            raise Unsupported("slice of 1-D array (line %d)" % lineno)
        if is_array(idx):
            if idx.kind == "b":
                if isinstance(idx, Comp):
                    raise Unsupported("compressed mask as index")
                self.same_len(a.n, idx.n, lineno)
                return Comp(idx, a.f, a.kind)
            # integer gather
            g = idx.f
            af = a.f
            if isinstance(idx, Comp):
                return Comp(idx.mask, lambda j: af(g(j)), a.kind)
            return Arr(idx.n, lambda j: af(g(j)), a.kind)
        if is_scalar(idx):
            if isinstance(env, LoopEnv):
                return env.read(a, None, idx)
            return a.f(idx)
        raise Unsupported("index %r (line %d)" % (idx, lineno))

    def pit_get(self, p, idx, lineno, env):
        if not isinstance(idx, tuple):
            # pit[i] -> row view ; pit[lo:hi] -> row-slice view ; pit[mask] -> row selection
            if is_scalar(idx):
                return RowView(p, idx)
            if isinstance(idx, SliceV) and idx.step is None:
                if idx.lo is None and idx.hi is None:
                    return p
                return PitSlice(p, 0 if idx.lo is None else idx.lo, p.n if idx.hi is None else idx.hi)
            if is_array(idx) and idx.kind == "b" and not isinstance(idx, Comp):
                self.same_len(p.n, idx.n, lineno)
                return PitComp(p, idx)
            raise Unsupported("pit row selection %r (line %d)" % (idx, lineno))
        r, c = idx
        if isinstance(r, SliceV) and r.lo is None and r.hi is None and is_array(c) and not isinstance(c, Comp) \
                and not is_z3(c.n) and not isinstance(c.n, Count):
            cols = [c.f(k) for k in range(int(c.n))]
            if all(isinstance(x, int) for x in cols):
                return PitCols(p, cols)
        if isinstance(r, SliceV) and r.step is None and not (r.lo is None and r.hi is None):
            sub = PitSlice(p, 0 if r.lo is None else r.lo, p.n if r.hi is None else r.hi)
            if isinstance(c, SliceV) and c.lo is None and c.hi is None:
                return sub
            return self.pit_get(sub, (SliceV(None, None, None), c), lineno, env)
        if isinstance(r, SliceV) and isinstance(c, SliceV) and c.lo is None and c.hi is None:
            return p
        if is_array(r) and r.kind == "b" and not isinstance(r, Comp) and isinstance(c, SliceV) \
                and c.lo is None and c.hi is None:
            self.same_len(p.n, r.n, lineno)
            return PitComp(p, r)
        if isinstance(r, SliceV) and r.lo is None and r.hi is None and is_scalar(c):
            return ColView(p, c)
        if is_scalar(r) and is_scalar(c):
            if isinstance(env, LoopEnv):
                return env.read(p, c, r)
            return p.at(r, c)
        if is_array(r) and is_scalar(c):
            if r.kind == "b":
                if isinstance(r, Comp):
                    raise Unsupported("compressed mask")
                return Comp(r, lambda j, _c=c: p.at(j, _c), "f")
            g = r.f
            pf = p.f   # snapshot semantics: fancy indexing copies
            if isinstance(r, Comp):
                return Comp(r.mask, lambda j, _c=c: pf(g(j), _c), "f")
            return Arr(r.n, lambda j, _c=c: pf(g(j), _c), "f")
        if is_array(r) and is_array(c):
            gr, gc = r.f, c.f
            pf = p.f
            self.same_len(r.n, c.n, lineno)
            return Arr(r.n, lambda j: pf(gr(j), gc(j)), "f")
        raise Unsupported("pit index (line %d)" % lineno)

    def store_subscript(self, base, idx, v, lineno, env, aug=False):
        if type(idx).__name__ == "IndexObj":
            idx = idx.arr           # a pandas Index used as an integer index array
        if hasattr(base, "setitem"):
            return base.setitem(self, idx, v, lineno)
        if isinstance(base, dict):
            if is_z3(idx):
                raise Unsupported("symbolic dict key store")
            base[idx] = v
            return
        if isinstance(base, list):
            if not isinstance(idx, int):
                raise Unsupported("list store index")
            base[idx] = v
            return
        if isinstance(base, RowView):
            return self.store_subscript(base.pit, (base.i, idx), v, lineno, env, aug)
        if isinstance(base, Pit) and isinstance(idx, tuple) and isinstance(idx[0], Col2D) and isinstance(idx[1], Row2D):
            return self.outer_store(base, idx[0].arr, idx[1].arr, v, lineno)
        if isinstance(base, Pit):
            r, c = idx
            if isinstance(r, SliceV) and r.lo is None and r.hi is None and is_scalar(c):
                if is_array(v):
                    if isinstance(v, Comp) and (same_term(base.n, V.count_term(v.mask)) or
                                                (isinstance(base.n, Count) and base.n.mask is v.mask)):
                        # the column has one row per selected element: positional view of the selection
                        self.add_sel_axioms(v.mask)
                        sel_, vf0 = V.sel_fn(v.mask), v.f
                        v = Arr(V.count_term(v.mask), lambda k: vf0(sel_(V.I(k))), v.kind)
                    if isinstance(v, Comp):
                        # lengths must agree: number of selected elements == rows of the column
                        self.safety("shape", compare("==", base.n, V.count_term(v.mask)), lineno)
                        self.add_sel_axioms(v.mask)
                        sel_, vf0 = V.sel_fn(v.mask), v.f
                        v = Arr(base.n, lambda k: vf0(sel_(V.I(k))), v.kind)
                    self.same_len(base.n, v.n, lineno)
                    f = v.f
                else:
                    f = (lambda j, _v=v: _v)
                if self.store_guards:
                    g = band(*self.store_guards)
                    oldf = base.f
                    f = (lambda j, _n=f, _o=oldf, _g=g, _c=c: ite(_g, _n(j), _o(j, _c)))
                base.set_col(c, f)
                return
            if isinstance(r, SliceV) and r.lo is None and r.hi is None and isinstance(c, SliceV) \
                    and c.lo is None and c.hi is None:
                # pit[:, :] = row vector (broadcast over rows)
                if isinstance(v, (Arr,)) and not is_z3(v.n) and not isinstance(v.n, Count):
                    vf = v.f
                    oldf = base.f
                    if isinstance(base, PitSlice):
                        for cc in range(int(v.n)):
                            base.set_col(cc, (lambda j, _cc=cc: vf(_cc)))
                    else:
                        base.f = (lambda i, cc: vf(cc))
                    return
                raise Unsupported("whole-pit store (line %d)" % lineno)
            if isinstance(r, SliceV) and r.lo is None and r.hi is None and isinstance(c, (list, tuple)) \
                    and all(is_scalar(x) and not is_z3(x) for x in c) and is_scalar(v):
                # pit[:, [c1, c2, ...]] = scalar (broadcast over the listed columns)
                for cc in c:
                    self.store_subscript(base, (r, cc), v, lineno, env, aug)
                return
            if is_scalar(r) and is_scalar(c):
                if isinstance(env, LoopEnv):
                    return env.write(self, base, c, r, v, lineno)
                raise Unsupported("single element store outside a loop (line %d)" % lineno)
            if is_array(r) and is_scalar(c):
                cv = ColView(base, c)
                return self.arr_store(cv, r, v, lineno, env)
            if isinstance(r, SetVal) and is_scalar(c):
                cv = ColView(base, c)
                return self.arr_store(cv, r, v, lineno, env)
            raise Unsupported("pit store (line %d)" % lineno)
        if isinstance(base, (Arr, ColView)):
            return self.arr_store(base, idx, v, lineno, env)
        if isinstance(base, Comp) and isinstance(idx, Comp) and idx.kind == "b":
            # c[m] = v  on a compressed (fresh) array c with a mask m compressed the same way
            self.same_mask(base.mask, idx.mask, lineno)
            oldf, mf = base.f, idx.f
            if isinstance(v, Comp):
                raise Unsupported("compressed value stored into a compressed array (line %d)" % lineno)
            if is_array(v):
                raise Unsupported("array stored through a compressed mask (line %d)" % lineno)
            base.f = (lambda j: ite(mf(j), v, oldf(j)))
            return
        raise Unsupported("store into %r (line %d)" % (base, lineno))

    def arr_store(self, a, idx, v, lineno, env):
        old = a.snapshot().f

        def put(newf):
            if self.store_guards:
                g = band(*self.store_guards)
                nf0 = newf
                newf = (lambda j, _n=nf0, _o=old, _g=g: ite(_g, _n(j), _o(j)))
            if isinstance(a, ColView):
                a.pit.set_col(a.c, newf)
            else:
                a.f = newf
        if isinstance(idx, SliceV):
            if idx.lo is None and idx.hi is None and idx.step is None:
                if is_array(v):
                    self.same_len(a.n, v.n, lineno)
                    put(v.f if not isinstance(v, Comp) else None)
                else:
                    put(lambda j, _v=v: _v)
                return
            if idx.step is not None:
                raise Unsupported("strided slice store (line %d)" % lineno)
            lo = 0 if idx.lo is None else idx.lo
            hi = a.n if idx.hi is None else idx.hi
            if (isinstance(lo, int) and lo < 0) or (isinstance(hi, int) and hi < 0):
                raise Unsupported("negative slice bound in a store (line %d)" % lineno)
            inside = lambda j: band(compare(">=", j, lo), compare("<", j, hi))
            seglen = arith("-", hi, lo)
            if isinstance(a, Arr):
                a.__dict__.setdefault("segments", []).append((lo, hi, v))   # store log (engine E3)
            if isinstance(v, Comp):
                sel = V.sel_fn(v.mask)
                self.add_sel_axioms(v.mask)
                vf = v.f
                self.safety("tiling", compare("==", seglen, V.count_term(v.mask)), lineno)
                put(lambda j: ite(inside(j), vf(sel(V.I(arith("-", j, lo)))), old(j)))
            elif is_array(v):
                vf = v.f
                self.safety("tiling", compare("==", seglen, v.n), lineno)
                put(lambda j: ite(inside(j), vf(arith("-", j, lo)), old(j)))
            else:
                put(lambda j: ite(inside(j), v, old(j)))
            return
        if isinstance(idx, SetVal):
            mem = idx.member
            if is_array(v):
                raise Unsupported("set-indexed store of an array")
            put(lambda j: ite(mem(j), v, old(j)))
            return
        if is_array(idx) and idx.kind == "b":
            if isinstance(idx, Comp):
                # boolean index that is itself a selection (length = number of selected rows): numpy
                # demands that this length equals the length of the indexed array
                self.safety("shape", compare("==", a.n, V.count_term(idx.mask)), lineno)
                self.add_sel_axioms(idx.mask)
                sel_, mf_ = V.sel_fn(idx.mask), idx.f
                hv = z3.Function("havoc!%d" % next(V._counter), z3.IntSort(), z3.RealSort())
                # under that obligation row k corresponds to the k-th selected element; the stored
                # values are left unspecified (the obligations that need them are stated on code that
                # indexes consistently)
                put(lambda j: ite(mf_(sel_(V.I(j))), hv(V.I(j)), old(j)))
                return
            self.same_len(a.n, idx.n, lineno)
            m = idx.f
            if isinstance(v, Comp):
                self.same_mask(idx, v.mask, lineno)
                vf = v.f
                put(lambda j: ite(m(j), vf(j), old(j)))
            elif is_array(v):
                if isinstance(v.n, Count) and getattr(v, "const_fill", None) is not None:
                    self.same_mask(idx, v.n.mask, lineno)
                    cf = v.const_fill
                    put(lambda j: ite(m(j), cf, old(j)))
                else:
                    self.safety("shape", False, lineno)
                    raise Unsupported("full array stored through a mask (line %d)" % lineno)
            else:
                put(lambda j: ite(m(j), v, old(j)))
            return
        if is_scalar(idx):
            if isinstance(env, LoopEnv):
                return env.write(self, a, None, idx, v, lineno)
            if not is_z3(idx):
                put(lambda j: ite(compare("==", j, idx), v, old(j)))
                return
            raise Unsupported("symbolic single-element store outside a loop (line %d)" % lineno)
        if is_array(idx) or type(idx).__name__ == "WhereIdx":
            return self.fancy_store(a, idx, v, lineno, put, old)
        raise Unsupported("store index %r (line %d)" % (idx, lineno))

    def outer_store(self, base, rows, cols, v, lineno):
        """pit[rows[:, None], cols[None, :]] = other[:, cols] with rows = the positions selected by a mask
        (np.arange(n)[mask]) and a concrete column list: row n of the selection receives row rank(n) of
        the right-hand side"""
        if not (isinstance(rows, Comp) and isinstance(v, PitCols)):
            raise Unsupported("outer-index store (line %d)" % lineno)
        if is_z3(cols.n) or isinstance(cols.n, Count):
            raise Unsupported("outer-index store with symbolic columns (line %d)" % lineno)
        clist = [cols.f(k) for k in range(int(cols.n))]
        if clist != v.cols:
            self.safety("shape", False, lineno)
            raise Unsupported("column lists of an outer-index store differ (line %d)" % lineno)
        j0 = fresh("s")
        ident = rows.f(j0)
        if not (is_z3(ident) and ident.eq(j0)):
            raise Unsupported("outer-index store through a non-identity row selection (line %d)" % lineno)
        mask = rows.mask
        self.add_sel_axioms(mask)
        self.safety("shape", compare("==", V.count_term(mask), v.pit.n), lineno)
        rank = z3.Function("rank!%s" % V.sel_fn(mask).name(), z3.IntSort(), z3.IntSort())
        src = v.pit.snapshot_f()
        for c in clist:
            base.set_col(c, (lambda n, _c=c, _o=base.snapshot_f(): ite(mask.f(n), src(rank(V.I(n)), _c), _o(n, _c))))

    def fancy_aug(self, a, idx, opname, v, lineno):
        old = a.snapshot().f
        sym = "+" if opname == "Add" else "-"
        if isinstance(idx, Comp) and getattr(idx, "identity", False) or \
                (isinstance(idx, Comp) and idx.__dict__.get("_is_where")):
            pass
        hit = (lambda j: member(idx, j))
        if is_array(v):
            if isinstance(idx, Comp) and isinstance(v, Comp):
                self.same_mask(idx.mask, v.mask, lineno)
            elif not isinstance(idx, Comp) and not isinstance(v, Comp):
                self.same_len(idx.n, v.n, lineno)
            key_fn = getattr(v, "key_fn", None)
            if key_fn is not None and getattr(v, "keys", None) is idx:
                val_at = lambda j: key_fn(V.I(j))           # value of the group whose key is j
            elif isinstance(idx, Comp) and isinstance(v, Comp):
                # idx = g(b), v = w(b) on the same selected b: invert g on its image
                inv = z3.Function("ainv!%d" % next(V._counter), z3.IntSort(), z3.IntSort())
                jj = fresh("j")
                gi, vf, m = idx.f, v.f, idx.mask
                self.path.facts.append(z3.ForAll([jj], z3.Implies(
                    z3.And(jj >= 0, B(compare("<", jj, m.n)), B(m.f(jj))), inv(V.I(gi(jj))) == jj)))
                val_at = lambda j: vf(inv(V.I(j)))
            else:
                if isinstance(v, Comp) and not isinstance(idx, Comp) and \
                        (same_term(idx.n, V.count_term(v.mask)) or (isinstance(idx.n, Count) and idx.n.mask is v.mask)):
                    self.add_sel_axioms(v.mask)
                    sel_, vf0 = V.sel_fn(v.mask), v.f
                    v = Arr(V.count_term(v.mask), lambda k: vf0(sel_(V.I(k))), v.kind)
                iv = idx if not isinstance(idx, Comp) else None
                if iv is None or isinstance(v, Comp):
                    raise Unsupported("augmented fancy store with mixed compressed operands (line %d)" % lineno)
                inv = z3.Function("ainv!%d" % next(V._counter), z3.IntSort(), z3.IntSort())
                jj = fresh("j")
                idxf, vf = idx.f, v.f
                self.path.facts.append(z3.ForAll([jj], z3.Implies(
                    z3.And(jj >= 0, B(compare("<", jj, idx.n))), inv(V.I(idxf(jj))) == jj)))
                val_at = lambda j: vf(inv(V.I(j)))
        else:
            val_at = lambda j: v
        newf = (lambda j: ite(hit(j), arith(sym, old(j), val_at(j)), old(j)))
        if isinstance(a, ColView):
            a.pit.set_col(a.c, newf)
        else:
            a.f = newf

    def add_sel_axioms(self, mask):
        if not mask.__dict__.get("_sel_ax_added"):
            mask.__dict__["_sel_ax_added"] = True
            self._sel_masks = getattr(self, "_sel_masks", [])
            self._sel_masks.append(mask)
        for ax in V.sel_axioms(mask):
            if not any(ax.eq(f) for f in self.path.facts):
                self.path.facts.append(ax)

    def fancy_store(self, a, idx, v, lineno, put, old):
        """a[idx] = v with an integer index array.  Positions not hit keep their value; a position
        j that is hit receives v[k] for a k with idx[k] == j (with unique indices -- assumption A4
        for the call sites -- that k is unique; with a scalar v the value is v)."""
        if type(idx).__name__ == "WhereIdx":
            m = idx.mask.f
            if is_array(v):
                raise Unsupported("np.where-indexed store of an array (line %d)" % lineno)
            put(lambda j: ite(m(j), v, old(j)))
            return
        hit = lambda j: member(idx, j)
        if not is_array(v):
            put(lambda j: ite(hit(j), v, old(j)))
            return
        if isinstance(idx, Comp) and isinstance(v, Comp):
            self.same_mask(idx.mask, v.mask, lineno)
            inv = z3.Function("inv!%d" % next(V._counter), z3.IntSort(), z3.IntSort())
            gi, vf, mk_ = idx.f, v.f, idx.mask
            jj = fresh("j")
            self.path.facts.append(z3.ForAll([jj], z3.Implies(
                z3.And(jj >= 0, B(compare("<", jj, mk_.n)), B(mk_.f(jj))), inv(V.I(gi(jj))) == jj)))
            put(lambda j: ite(hit(j), vf(inv(V.I(j))), old(j)))
            return
        if isinstance(v, Comp) and not isinstance(idx, Comp):
            # positional view of the compressed right-hand side: element k is the k-th selected one
            self.add_sel_axioms(v.mask)
            sel_, vf0 = V.sel_fn(v.mask), v.f
            v = Arr(V.count_term(v.mask), lambda k: vf0(sel_(V.I(k))), v.kind)
        if isinstance(idx, Comp):
            raise Unsupported("fancy store with mixed compressed operands (line %d)" % lineno)
        self.same_len(idx.n, v.n, lineno)
        # inverse position: an uninterpreted function inv with idx[inv(j)] == j for hit positions
        inv = z3.Function("inv!%d" % next(V._counter), z3.IntSort(), z3.IntSort())
        idxf, vf = idx.f, v.f
        jj = fresh("j")
        self.path.facts.append(z3.ForAll([jj], z3.Implies(
            B(hit(jj)), z3.And(inv(jj) >= 0, B(compare("<", inv(jj), idx.n)),
                               B(compare("==", idxf(inv(jj)), jj))))))
        put(lambda j: ite(hit(j), vf(inv(V.I(j))), old(j)))

    # attributes ----------------------------------------------------------------------------

    def ex_Attribute(self, node, env):
        obj = self.eval(node.value, env)
        return self.getattr(obj, node.attr, node.lineno)

    def getattr(self, obj, attr, lineno):
        if hasattr(obj, "getattr_"):
            return obj.getattr_(self, attr, lineno)
        if isinstance(obj, Opaque):
            if obj.name in ("numpy", "np"):
                if attr == "pi":
                    return PI
                if attr == "nan":
                    return NS(z3.RealVal(0), True)
                if attr == "newaxis":
                    return None
                if attr == "linalg":
                    return Opaque("numpy.linalg")
                return NpFn(attr)
            if obj.name == "copy" and attr == "deepcopy":
                return Builtin("deepcopy")
            if obj.name.startswith("pandapipes"):
                try:
                    kind, ref = S.resolve_import_from(obj.name, attr)
                    if kind in ("function", "class", "const"):
                        return self.wrap_resolved(kind, ref)
                except S.SourceError:
                    pass
            return Opaque(obj.name + "." + attr)
        if isinstance(obj, Obj):
            if attr in obj.attrs:
                return obj.attrs[attr]
            if obj.cls is not None:
                from .classes import lookup_method
                fr = lookup_method(obj.cls, attr)
                if fr is not None:
                    deco = [d.id for d in fr.node.decorator_list if isinstance(d, ast.Name)]
                    if "classmethod" in deco:
                        return ClassMethodRef(obj.cls, fr)
                    if "staticmethod" in deco:
                        return fr
                    return BoundRepoMethod(obj, fr)
            raise _Raise(ExcVal("AttributeError", (attr,)))
        if is_array(obj) or isinstance(obj, (Pit, PitComp)):
            if attr == "shape":
                if isinstance(obj, (Pit, PitComp)):
                    return (obj.n, obj.ncols)
                return (obj.n,)
            if attr == "dtype":
                return Opaque("dtype:" + getattr(obj, "kind", "f"))
            if attr == "size":
                return obj.n
            if attr == "values" and getattr(obj, "is_series", False):
                if isinstance(obj, Comp):
                    return Comp(obj.mask, obj.f, obj.kind)
                if hasattr(obj, "labels"):
                    return Arr(obj.n, obj.f, obj.kind)
                return obj
            if attr == "T":
                raise Unsupported("transpose")
            if attr in ("astype", "copy", "sum", "any", "all", "round", "max", "min", "tolist", "item",
                        "mean", "cumsum", "repeat", "reshape", "flatten", "nonzero", "fill", "__len__"):
                return BoundMethod(obj, attr)
            raise _Raise(ExcVal("AttributeError", (attr,)))
        if isinstance(obj, (dict, list, tuple, str, set)):
            return BoundMethod(obj, attr)
        if is_scalar(obj):
            if attr in ("round", "astype", "item"):
                return BoundMethod(obj, attr)
            raise _Raise(ExcVal("AttributeError", (attr,)))
        if isinstance(obj, S.ClassRef):
            return self.class_attr(obj, attr)
        if isinstance(obj, ExcVal):
            if attr == "args":
                return obj.args
        raise Unsupported("attribute %s of %r (line %d)" % (attr, obj, lineno))

    def class_attr(self, cref, attr):
        from .classes import lookup_method, mro
        fr = lookup_method(cref, attr)
        if fr is None:
            for c in mro(cref):
                for st in c.node.body:
                    if isinstance(st, ast.Assign) and any(isinstance(t, ast.Name) and t.id == attr
                                                          for t in st.targets):
                        return c.module._eval_const(st.value, 0)
            if attr == "__name__":
                return cref.name
            raise _Raise(ExcVal("AttributeError", (attr,)))
        deco = [d.id for d in fr.node.decorator_list if isinstance(d, ast.Name)]
        if "staticmethod" in deco:
            return fr
        return ClassMethodRef(cref, fr)

    def setattr(self, obj, attr, v, lineno):
        if hasattr(obj, "setattr_"):
            return obj.setattr_(self, attr, v, lineno)
        if isinstance(obj, Obj):
            obj.attrs[attr] = v
            return
        raise Unsupported("attribute store on %r (line %d)" % (obj, lineno))

    # calls ---------------------------------------------------------------------------------

    def ex_Call(self, node, env):
        fn = self.eval(node.func, env)
        args = []
        for a in node.args:
            if isinstance(a, ast.Starred):
                args.extend(self.iterate(self.eval(a.value, env)))
            else:
                args.append(self.eval(a, env))
        kwargs = {}
        for k in node.keywords:
            if k.arg is None:
                v = self.eval(k.value, env)
                if isinstance(v, dict):
                    kwargs.update(v)
                elif hasattr(v, "merge_into"):
                    kwargs["__symdict__"] = v
                else:
                    raise Unsupported("** call argument %r" % (v,))
            else:
                kwargs[k.arg] = self.eval(k.value, env)
        return self.call(fn, args, kwargs, node.lineno, env)

    def iterate(self, v):
        if isinstance(v, (list, tuple)):
            return list(v)
        if hasattr(v, "concrete_iter"):
            return list(v.concrete_iter())
        if is_array(v) and is_z3(getattr(v, "n", None)):
            # f(*arr) with an array of symbolic length: one marker argument standing for all its elements
            return [StarArr(v)]
        raise Unsupported("iteration over %r" % (v,))

    def call(self, fn, args, kwargs, lineno, env=None):
        if isinstance(fn, S.FunctionRef):
            return self.call_function(fn, args, kwargs)
        if isinstance(fn, ClassMethodRef):
            return self.call_classmethod(fn, args, kwargs)
        if isinstance(fn, BoundRepoMethod):
            key = fn.fref.key
            if key in self.contracts:
                return self.contracts[key](self, [fn.recv] + list(args), kwargs)
            self.path.inlined.add(key)
            return self.call_function(fn.fref, [fn.recv] + list(args), kwargs)
        if isinstance(fn, Closure):
            return self.call_closure(fn, args, kwargs)
        if isinstance(fn, NpFn):
            from . import npmodel
            ov = self.hooks.get("np") if isinstance(self.hooks, dict) else None
            if ov and fn.name in ov:
                return ov[fn.name](self, args, kwargs)      # a unit may supply its own (assumed) contract for a numpy call
            return npmodel.call(self, fn.name, args, kwargs, lineno, env)
        if isinstance(fn, Builtin):
            from . import npmodel
            return npmodel.builtin(self, fn.name, args, kwargs, lineno, env)
        if isinstance(fn, BoundMethod):
            from . import npmodel
            return npmodel.method(self, fn.recv, fn.name, args, kwargs, lineno, env)
        if isinstance(fn, ExcClass):
            return ExcVal(fn.name, tuple(args))
        if isinstance(fn, S.ClassRef):
            from .classes import is_exception_class
            if is_exception_class(fn):
                return ExcVal(fn.name, tuple(args))
            raise Unsupported("instantiation of class %s (line %d)" % (fn.name, lineno))
        if hasattr(fn, "call"):
            return fn.call(self, args, kwargs, lineno)
        if isinstance(fn, Opaque):
            if fn.name.startswith(("logging", "logger", "warnings")) or ".logger." in fn.name:
                return None          # logging calls return None
            if fn.name in ("pandas.isnull", "pandas.isna", "pandas.notnull", "pandas.notna") and len(args) == 1:
                # pandas' missing-value test on a float array / scalar: the NaN flag (A4)
                neg_ = fn.name.endswith(("notnull", "notna"))
                f_ = (lambda x: bnot(nan_of(x))) if neg_ else (lambda x: nan_of(x))
                return self.map1(f_, args[0], kind="b") if is_array(args[0]) else f_(args[0])
            if fn.name == "numpy.dtype":
                return "dtype(%s)" % (getattr(args[0], "name", args[0]),)
            if fn.name in ("numpy.linalg.norm",):
                raise Unsupported("linalg.norm")
            raise Unsupported("call of external %s (line %d)" % (fn.name, lineno))
        raise Unsupported("call of %r (line %d)" % (fn, lineno))

    def call_closure(self, fn, args, kwargs):
        env = Env(fn.module, self, parent=fn.env)
        self.bind_params(fn.node, env, args, kwargs)
        if isinstance(fn.node, ast.Lambda):
            return self.eval(fn.node.body, env)
        try:
            self.exec_block(S.strip_docstring(fn.node.body), env)
        except _Return as r:
            return r.value
        return None

    def call_classmethod(self, cm, args, kwargs):
        deco = [d.id for d in cm.fref.node.decorator_list if isinstance(d, ast.Name)]
        if "classmethod" in deco:
            args = [cm.cref] + list(args)
        elif "staticmethod" in deco:
            pass
        else:
            pass
        key = cm.fref.key
        if key in self.contracts:
            return self.contracts[key](self, args, kwargs)
        return self.call_function(cm.fref, args, kwargs)

    def ex_Lambda(self, node, env):
        return Closure(node, env, env.module)

    def ex_ListComp(self, node, env):
        return self._comp(node, env, list)

    def ex_GeneratorExp(self, node, env):
        return tuple(self._comp(node, env, list))

    def ex_SetComp(self, node, env):
        return set(self._comp(node, env, list))

    def ex_DictComp(self, node, env):
        if len(node.generators) == 1:
            it = self.eval(node.generators[0].iter, env)
            if type(it).__name__ == "SymItems":
                from .symdict import comprehend
                return comprehend(self, node, env, it)
        out = {}
        self._comp_rec(node.generators, 0, Env(env.module, self, parent=env),
                       lambda e: out.__setitem__(self.eval(node.key, e), self.eval(node.value, e)))
        return out

    def _comp(self, node, env, typ):
        out = []
        self._comp_rec(node.generators, 0, Env(env.module, self, parent=env),
                       lambda e: out.append(self.eval(node.elt, e)))
        return out

    def _comp_rec(self, gens, k, env, emit):
        if k == len(gens):
            emit(env)
            return
        g = gens[k]
        it = self.eval(g.iter, env)
        if isinstance(it, dict):
            it = list(it.keys())
        if isinstance(it, (set, frozenset)):
            it = sorted(it, key=repr)
        if hasattr(it, "concrete_iter"):
            it = it.concrete_iter()
        if isinstance(it, SymRange) and not is_z3(it.n) and not isinstance(it.n, Count):
            it = range(it.n)
        if not isinstance(it, (list, tuple, range)):
            raise Unsupported("comprehension over %r" % (it,))
        for v in it:
            self.assign(g.target, v, env)
            ok = True
            for c in g.ifs:
                if not self.decide(self.eval_cond(c, env)):
                    ok = False
                    break
            if ok:
                self._comp_rec(gens, k + 1, env, emit)

    def ex_Starred(self, node, env):
        raise Unsupported("starred expression")

    def ex_NamedExpr(self, node, env):
        v = self.eval(node.value, env)
        env.set(node.target.id, v)
        return v


def _only_dropped(body):
    for st in body:
        if S.is_dropped_stmt(st) or isinstance(st, ast.Pass):
            continue
        if isinstance(st, ast.If) and _only_dropped(st.body) and _only_dropped(st.orelse):
            continue
        if isinstance(st, ast.For) and _only_dropped(st.body) and _only_dropped(st.orelse):
            continue
        return False
    return True


def _only_guardable(body):
    """statements that are array stores `a[...] = expr` (possibly nested in else-less ifs of the
    same kind, mixed with dropped statements)"""
    ok = False
    for st in body:
        if S.is_dropped_stmt(st) or isinstance(st, ast.Pass):
            continue
        if isinstance(st, ast.Assign) and len(st.targets) == 1 and isinstance(st.targets[0], ast.Subscript) \
                and not _has_call_effects(st.value):
            ok = True
            continue
        if isinstance(st, ast.If) and _only_guardable(st.body) and \
                (not st.orelse or _only_guardable(st.orelse)):
            ok = True
            continue
        return False
    return ok


def _has_call_effects(node):
    for n in ast.walk(node):
        if isinstance(n, ast.Call):
            f = n.func
            nm = f.attr if isinstance(f, ast.Attribute) else (f.id if isinstance(f, ast.Name) else "")
            if nm not in ("globals", "upper", "lower", "astype", "copy", "abs", "len"):
                return True
    return False


def _rk(a, b):
    ka, kb = getattr(a, "kind", "f"), getattr(b, "kind", "f")
    if ka == "f" or kb == "f":
        return "f"
    if ka == "i" or kb == "i":
        return "i"
    return ka


class BoundRepoMethod:
    def __init__(self, recv, fref):
        self.recv = recv
        self.fref = fref


class ClassMethodRef:
    def __init__(self, cref, fref):
        self.cref = cref
        self.fref = fref


class IntInvert:
    """`~` applied to a python bool.  CPython gives -1 / -2 (always truthy); numba types the
    operand as boolean and gives logical not.  `~` on python bools only occurs inside @jit
    kernels, so the numba reading is used (assumption A5)."""

    def __init__(self, v):
        self.v = v

    def truthy(self):
        return not self.v


class Poison:
    def __init__(self, name, lineno):
        self.name = name
        self.lineno = lineno


class SliceV:
    def __init__(self, lo, hi, step):
        self.lo, self.hi, self.step = lo, hi, step

    def __repr__(self):
        return "SliceV(%s,%s,%s)" % (self.lo, self.hi, self.step)


class SymRange:
    def __init__(self, n):
        self.n = n


class EnumArr:
    def __init__(self, arr):
        self.arr = arr
        self.n = arr.n


class Env:
    def __init__(self, module, ev, parent=None):
        self.module = module
        self.ev = ev
        self.vars = {}
        self.parent = parent

    def set(self, k, v):
        self.vars[k] = v

    def get(self, k):
        e = self
        while e is not None:
            if k in e.vars:
                return e.vars[k]
            e = e.parent
        return self.global_name(k)

    def global_name(self, k):
        ev = self.ev
        if "global" in ev.hooks:
            r = ev.hooks["global"](self.module, k)
            if r is not None:
                return r
        mod = self.module
        if k in mod.functions:
            return mod.functions[k]
        if k in mod.classes:
            return mod.classes[k]
        if k in mod.const_nodes or k in mod.imports or getattr(mod, "star_imports", None):
            kind, ref = S.resolve_import(mod, k)
            if kind == "opaque":
                return Opaque("%s.%s" % ref)
            if kind == "const" and isinstance(ref, (dict, list, set)):
                # mutable module-level object: one tracked instance per run (aliasing within the
                # run is preserved, writes are recorded for the frame obligations)
                gk = (mod.name, k)
                if gk not in ev.run_globals:
                    import copy as _copy
                    from .symdict import TrackedDict
                    ev.run_globals[gk] = TrackedDict(_copy.deepcopy(ref)) if isinstance(ref, dict) \
                        else _copy.deepcopy(ref)
                return ev.run_globals[gk]
            if kind != "unknown":
                return ev.wrap_resolved(kind, ref)
        if k in BUILTINS:
            return Builtin(k)
        if k in EXC_NAMES:
            return ExcClass(k)
        if k in ("True", "False", "None"):
            return {"True": True, "False": False, "None": None}[k]
        raise Unsupported("unknown name %s in %s" % (k, mod.name))


BUILTINS = {"len", "range", "max", "min", "abs", "int", "float", "bool", "enumerate", "zip", "list",
            "tuple", "dict", "set", "isinstance", "hasattr", "getattr", "next", "sorted", "sum",
            "any", "all", "str", "round", "iter", "type", "repr", "frozenset", "reversed", "map",
            "filter", "globals", "callable", "id", "print", "divmod", "object", "super", "map"}
EXC_NAMES = {"UserWarning", "ValueError", "KeyError", "IndexError", "AttributeError", "TypeError",
             "NotImplementedError", "Exception", "ImportError", "RuntimeError", "AssertionError",
             "ZeroDivisionError", "DeprecationWarning", "FutureWarning", "LookupError",
             "ModuleNotFoundError", "StopIteration"}


class LoopEnv(Env):
    """environment of a map-loop body for the symbolic index i: element stores are logged, reads
    at index i see the logged value"""

    def __init__(self, base, i):
        Env.__init__(self, base.module, base.ev, parent=base)
        self.i = i
        self.direct = {}    # (id(arr), col) -> (arr, col, value)
        self.scatter = []   # (arr, index term, value)
        self.written = set()

    def set(self, k, v):
        self.vars[k] = v

    def _key(self, arr, col):
        if isinstance(arr, ColView):
            arr, col = arr.pit, arr.c
        return (id(arr), None if col is None else (col if not is_z3(col) else col.get_id())), arr, col

    def read(self, arr, col, idx):
        key, arr, col = self._key(arr, col)
        if same_term(idx, self.i):
            if key in self.direct:
                return self.direct[key][2]
        else:
            if key in self.direct or any(a is arr for a, _, _ in self.scatter):
                raise Unsupported("array written in the loop is read at another index")
        if isinstance(arr, Pit):
            return arr.at(idx, col)
        return arr.f(idx)

    def write(self, ev, arr, col, idx, v, lineno):
        key, arr, col = self._key(arr, col)
        if same_term(idx, self.i):
            self.direct[key] = (arr, col, v)
            return
        if isinstance(arr, Pit):
            raise Unsupported("scatter store into a pit column (line %d)" % lineno)
        self.scatter.append((arr, idx, v))


def _subst(v, i, j):
    """substitute loop variable i by j in a value"""
    if isinstance(v, NS):
        return NS(_subst(v.t, i, j), _subst(v.nan, i, j))
    if is_z3(v):
        jj = j if is_z3(j) else z3.IntVal(j)
        return z3.substitute(v, (i, jj))
    return v


def _merged_elem(i, n, cases, oldf, total):
    """element function after a map loop: cases = [(cond(i), value(i))]"""
    def f(j):
        out = None if total else oldf(j)
        for k, (c, v) in enumerate(reversed(cases)):
            cj, vj = _subst(c, i, j), _subst(v, i, j)
            if out is None:
                out = vj
            else:
                out = ite(cj, vj, out)
        # outside [0, n) the old value stays (never observed: obligations carry 0 <= j < n)
        return out
    return f


def _scatter_elem(i, n, entries, oldf):
    """A[g(i)] = v(i) under cond(i):  A(x) = exists i. cond(i) & g(i)=x ? h(x) : old(x), provided
    v(i) depends on i only through g(i)."""
    hs = []
    for c, g, v in entries:
        x = fresh("x")
        if is_z3(val_of(v)) or isinstance(v, NS):
            vt = val_of(v)
            h = z3.substitute(vt, (g, x)) if is_z3(g) else vt
            if _occurs(h, i):
                raise Unsupported("scatter value is not a function of the store index")
            if isinstance(v, NS):
                raise Unsupported("NaN-flagged scatter value")
            hx = (lambda y, _h=h, _x=x: z3.substitute(_h, (_x, y if is_z3(y) else z3.IntVal(y))))
        else:
            hx = (lambda y, _v=v: _v)
        hs.append((c, g, hx))

    def f(xv):
        out = oldf(xv)
        for c, g, hx in hs:
            b = fresh("b")
            cb, gb = _subst(c, i, b), _subst(g, i, b)
            ex = z3.Exists([b], z3.And(b >= 0, B(compare("<", b, n)), B(cb), B(compare("==", gb, xv))))
            out = ite(ex, hx(xv), out)
        return out
    return f


def _occurs(t, v):
    if not is_z3(t):
        return False
    seen = set()
    stack = [t]
    while stack:
        x = stack.pop()
        if x.get_id() in seen:
            continue
        seen.add(x.get_id())
        if x.eq(v):
            return True
        if z3.is_quantifier(x):
            stack.append(x.body())
        else:
            stack.extend(x.children())
    return False
