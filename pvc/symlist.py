"""Engine E1: python lists with a symbolic prefix (elements known only through an uninterpreted
function of the position) plus concretely appended elements; IEEE float64 arrays for the
iteration driver (assumption A2)."""
import z3
from .val import *  # noqa
from . import val as V


class SymList:
    """list = [uf(0), ..., uf(base_len-1)] + appended"""

    def __init__(self, name, base_len, sort=None):
        self.name = name
        self.base_len = base_len
        self.sort = sort or V.FP64
        self.uf = z3.Function(name, z3.IntSort(), self.sort)
        self.appended = []

    def total_len(self):
        return arith("+", self.base_len, len(self.appended))

    def length(self):
        return self.total_len()

    def getitem(self, ev, idx, lineno):
        n = self.total_len()
        i = V.I(idx)
        pos = z3.If(i < 0, i + V.I(n), i) if is_z3(i) else (i if i >= 0 else arith("+", n, i))
        pos = V.I(pos)
        # index safety
        ev.safety("index", z3.And(pos >= 0, pos < V.I(n)), lineno)
        out = self.uf(pos)
        for k in range(len(self.appended) - 1, -1, -1):
            out = ite(pos == V.I(arith("+", self.base_len, k)), self.appended[k], out)
        return out

    def getattr_(self, ev, attr, lineno):
        if attr == "append":
            return _Append(self)
        raise Unsupported("list attribute %s" % attr)


class _Append:
    def __init__(self, sl):
        self.sl = sl

    def call(self, ev, args, kwargs, lineno):
        v = args[0]
        if self.sl.sort == V.FP64:
            v = V.to_fp(v)
        self.sl.appended.append(v)
        return None


def fp_arr(name, n):
    uf = z3.Function(name, z3.IntSort(), V.FP64)
    return Arr(n, lambda j: uf(V.I(j)), "F", name)
