"""Assumed contracts (A4) of the numpy functions, python builtins and array/dict/list methods
that occur in the functions under contract.  Each entry is the *model* of the library call; the
list MODEL_AXIOMS below is what the evidence reports as the trusted library model, and
replay/validate_axioms.py exercises every entry against the installed numpy."""
from fractions import Fraction
import z3
from .val import *  # noqa
from . import val as V
from . import ev as E

MODEL_AXIOMS = {
    "abs/absolute": "elementwise |x|; NaN propagates",
    "maximum/minimum, builtin max/min of two": "elementwise max/min; NaN in either operand propagates",
    "divide": "elementwise x / y (never raises); denominator != 0 is a safety obligation",
    "zeros_like/ones_like/empty_like/full_like/zeros/ones/empty/full": "fresh array of the given length and fill (empty: fill unspecified, modelled by a fresh uninterpreted element function)",
    "isclose(a, b, rtol, atol)": "|a - b| <= atol + rtol*|b|, False if either is NaN (defaults rtol=1e-5, atol=1e-8)",
    "isnan": "NaN flag of the element",
    "any/all": "exists / forall over the elements",
    "sum(mask)": "Count(mask), the number of True entries",
    "exp/log/log10/sqrt/power": "uninterpreted real functions with the axioms of assumption A3",
    "arange(n)": "array j -> j of length n",
    "isin(a, b)": "j -> exists k. b[k] == a[j]",
    "concatenate": "only as a membership bag",
    "setdiff1d(a, b)": "the set {x | x in a and x not in b} (sortedness/uniqueness not used)",
    "x[mask]": "order-preserving compress; elementwise operations between two arrays compressed by equivalent masks stay aligned",
    "y[mask] = v": "j -> mask[j] ? v[j] : y[j]",
    "x[idx]": "gather j -> x[idx[j]] (a copy)",
    "pit[:, c]": "live view of the column",
    "astype(int32)": "identity on integer-valued columns (declared int_cols), truncation otherwise",
    "astype(bool)": "x != 0",
    "copy": "fresh equal array",
    "less_equal": "elementwise <=",
    "where(mask)[0]": "index set {j | mask[j]}",
}


def _kw(kwargs, name, default):
    return kwargs.get(name, default)


def _as_kind(dtype):
    if isinstance(dtype, E.NpFn):
        n = dtype.name
    elif isinstance(dtype, E.Builtin):
        n = dtype.name
    elif isinstance(dtype, E.Opaque):
        n = dtype.name.split(".")[-1].split(":")[-1]
    elif isinstance(dtype, str):
        n = dtype
    else:
        n = "float64"
    if n in ("bool", "bool_", "b"):
        return "b"
    if n.startswith("int") or n == "i":
        return "i"
    return "f"


def _fill(n, v, kind, name=None):
    if kind == "i" and not isinstance(v, (int, bool)) and not (is_z3(v) and z3.is_int(v)):
        # a real value stored into an integer array is truncated towards zero (numpy casting, A4)
        rv = R(val_of(v)) if not isinstance(v, Fraction) else z3.RealVal(str(v))
        v = z3.If(rv >= 0, z3.ToInt(rv), -z3.ToInt(-rv))
    a = Arr(n, lambda j, _v=v: _v, kind, name)
    a.const_fill = v
    return a


def _zero(kind):
    return False if kind == "b" else 0


def _length_of(ev, x, lineno):
    if isinstance(x, (Arr, ColView, Comp, Pit, PitComp)):
        return x.n
    if isinstance(x, (list, tuple, dict, str, set)):
        return len(x)
    if hasattr(x, "length"):
        return x.length()
    raise Unsupported("len of %r (line %d)" % (x, lineno))


def astype(ev, a, dtype, lineno):
    k = _as_kind(dtype)
    if k == "b":
        return ev.map1(lambda x: x if (isinstance(x, bool) or (is_z3(x) and z3.is_bool(x))) else
                       compare("!=", x, 0), a, kind="b")
    if k == "i":
        def to_i(x):
            if isinstance(x, NS):
                # converting NaN to an integer is undefined: safety obligation "not NaN"
                ev.safety("nan", bnot(x.nan), lineno)
                x = x.t
            if isinstance(x, bool) or (is_z3(x) and z3.is_bool(x)):
                return ite(x, 1, 0)
            if not is_z3(x):
                return int(x)
            return V.I(x)
        r_ = ev.map1(to_i, a, kind="i")
        if is_array(a) and a.kind == "b" and not isinstance(a, Comp):
            r_._mask_src = a
        return r_

    def to_f(x):
        if isinstance(x, bool) or (is_z3(x) and z3.is_bool(x)):
            return ite(x, 1, 0)
        return x
    return ev.map1(to_f, a, kind="f")


def isclose(a, b, rtol=Fraction(1, 100000), atol=Fraction(1, 100000000)):
    nan = or_nan(nan_of(a), nan_of(b))
    d = absval(arith("-", val_of(a), val_of(b)))
    bound = arith("+", atol, arith("*", rtol, absval(val_of(b))))
    r = compare("<=", d, bound)
    if nan is False:
        return r
    return band(bnot(nan), r)


def isnan(x):
    return nan_of(x)


def call(ev, name, args, kwargs, lineno, env):
    m2 = lambda f, kind=None: ev.map2(f, args[0], args[1], lineno, kind)
    m1 = lambda f, kind=None: ev.map1(f, args[0], kind)
    if name in ("abs", "absolute"):
        return m1(absval)
    if name == "maximum":
        return m2(maxval)
    if name == "minimum":
        return m2(minval)
    if name == "divide":
        ev.div_safety(args[1], lineno)
        return m2(lambda x, y: arith("/", x, y))
    if name in ("zeros_like", "ones_like", "empty_like", "full_like"):
        a = args[0]
        kind = _as_kind(kwargs["dtype"]) if "dtype" in kwargs else getattr(a, "kind", "f")
        if not is_array(a):
            raise Unsupported("%s of %r" % (name, a))
        if name == "zeros_like":
            return _fill(a.n, _zero(kind), kind)
        if name == "ones_like":
            return _fill(a.n, True if kind == "b" else 1, kind)
        if name == "full_like":
            return _fill(a.n, args[1], kind)
        return _empty(a.n, kind)
    if name in ("zeros", "ones", "empty", "full"):
        shape = args[0] if args else kwargs.get("shape")
        dt = kwargs.get("dtype", args[2] if name == "full" and len(args) > 2 else
                        (args[1] if name != "full" and len(args) > 1 else None))
        kind = _as_kind(dt) if dt is not None else "f"
        if "shape" in kwargs and not args:
            shape = kwargs["shape"]
        if isinstance(shape, (tuple, list)):
            if len(shape) == 1:
                shape = shape[0]
            elif len(shape) == 2 and name in ("zeros", "ones", "full", "empty"):
                fill = {"zeros": 0, "ones": 1, "full": args[1] if len(args) > 1 else 0, "empty": 0}[name]
                if name == "empty":
                    u = _empty(shape[0], "f")
                    return Pit(shape[0], lambda i, c, _u=u: _u.f(arith("+", arith("*", i, 1000), c)), shape[1])
                return Pit(shape[0], lambda i, c, _v=fill: _v, shape[1])
            else:
                raise Unsupported("np.%s with %d-D shape (line %d)" % (name, len(shape), lineno))
        if name == "zeros":
            return _fill(shape, _zero(kind), kind)
        if name == "ones":
            return _fill(shape, True if kind == "b" else 1, kind)
        if name == "full":
            return _fill(shape, args[1], kind)
        return _empty(shape, kind)
    if name == "isclose":
        rtol = _kw(kwargs, "rtol", args[2] if len(args) > 2 else Fraction(1, 100000))
        atol = _kw(kwargs, "atol", args[3] if len(args) > 3 else Fraction(1, 100000000))
        return m2(lambda x, y: isclose(x, y, rtol, atol), "b")
    if name == "isnan":
        if type(args[0]).__name__ == "PV":
            return args[0].isnan()
        return m1(isnan, "b")
    if name in ("any", "all") and isinstance(args[0], (list, tuple)):
        vals = list(args[0])
        if name == "any":
            return bor(*vals)
        return band(*vals)
    if name == "any":
        a = args[0]
        if is_array(a):
            if isinstance(a, Comp):
                # any over the selected elements = any over the base domain of (selected and value)
                m_, f_ = a.mask, a.f
                return E.AnyOf(Arr(m_.n, lambda j: band(m_.f(j), f_(j)), "b"))
            return E.AnyOf(a)
        return a
    if name == "all":
        a = args[0]
        if isinstance(a, Comp):
            m_, f_ = a.mask, a.f
            return NotAny(Arr(m_.n, lambda j: band(m_.f(j), bnot(f_(j))), "b"))
        if is_array(a):
            neg = ev.map1(bnot, a, "b")
            if isinstance(a, Arr) and isinstance(neg, Arr):
                neg.__dict__["_not_of"] = a
            # all(a) == not any(~a)
            return NotAny(neg)
        return a
    if name == "sum":
        a = args[0]
        if is_array(a) and a.kind == "b" and not isinstance(a, Comp):
            return Count(a)
        if is_array(a) and not isinstance(a, Comp) and not is_z3(a.n) and not isinstance(a.n, Count):
            out = 0
            for k in range(int(a.n)):
                out = arith("+", out, a.f(k))
            return out
        if is_array(a) and not isinstance(a, Comp) and a.kind in ("i", "f"):
            ps = prefix_sum(ev, a)
            return ps(a.n)
        raise Unsupported("np.sum over a symbolic-length array (line %d)" % lineno)
    if name == "exp":
        return m1(V.exp)
    if name == "log":
        return m1(V.log)
    if name == "log10":
        return m1(V.log10)
    if name == "sqrt":
        return m1(V.sqrt)
    if name == "square":
        return m1(lambda x: arith("*", x, x))
    if name == "power":
        return m2(V.power)
    if name == "arange":
        if len(args) in (2, 3) and all(isinstance(a, int) and not isinstance(a, bool) for a in args):
            return ConcreteIdx(range(*args))
        if len(args) != 1:
            raise Unsupported("np.arange with start/step")
        if isinstance(args[0], int) and not isinstance(args[0], bool):
            return ConcreteIdx(range(args[0]))
        return Arr(args[0], lambda j: j, "i")
    if name == "isin":
        a, coll = args
        if not is_array(a):
            raise Unsupported("np.isin scalar")
        af = a.f
        if isinstance(a, Comp):
            return Comp(a.mask, lambda j: member(coll, af(j)), "b")
        return Arr(a.n, lambda j: member(coll, af(j)), "b")
    if name == "concatenate":
        parts = list(args[0])
        if all(is_array(p) for p in parts) and parts:
            for p in parts:
                if isinstance(p, Comp):
                    ev.add_sel_axioms(p.mask)
            return ConcatArr(parts)
        return Bag(parts)
    if name == "setdiff1d":
        a, b = args
        return SetVal(lambda x: band(member(a, x), bnot(member(b, x))))
    if name == "less_equal":
        return m2(lambda x, y: compare("<=", x, y), "b")
    if name in ("logical_and",):
        return m2(band, "b")
    if name in ("logical_or",):
        return m2(bor, "b")
    if name in ("logical_not",):
        return m1(bnot, "b")
    if name == "where":
        if len(args) == 1 and isinstance(args[0], PairMask):
            return where_pairs(ev, args[0], lineno)
        if len(args) == 1:
            a = args[0]
            if is_array(a) and a.kind == "b" and not isinstance(a, Comp):
                # the increasing array of True positions = arange compressed by the mask
                return (Comp(a, lambda j: j, "i"),)
            raise Unsupported("np.where(non-mask)")
        c, x, y = args
        if is_array(c):
            cf = c.f
            xf = x.f if is_array(x) else (lambda j: x)
            yf = y.f if is_array(y) else (lambda j: y)
            for o in (x, y):
                if is_array(o):
                    if isinstance(o, Comp):
                        ev.safety("shape", False, lineno)
                        raise Unsupported("np.where with a compressed operand (line %d)" % lineno)
                    ev.same_len(c.n, o.n, lineno)
            return Arr(c.n, lambda j: ite(cf(j), xf(j), yf(j)), "f")
        return ite(c, x, y)
    if name == "copy":
        if isinstance(args[0], PitComp):
            pc = args[0]
            ev.add_sel_axioms(pc.mask)
            sel_, bf_ = V.sel_fn(pc.mask), pc.base.snapshot_f()
            out = Pit(V.count_term(pc.mask), lambda k, c: bf_(sel_(V.I(k)), c), pc.ncols)
            out.compress_of = (pc.base, pc.mask)
            return out
        return method(ev, args[0], "copy", [], {}, lineno, env)
    if name in ("int32", "int64"):
        x = args[0]
        return astype(ev, x, "int32", lineno)
    if name in ("float64",):
        return args[0]
    if name in ("bool_", "bool"):
        return astype(ev, args[0], "bool", lineno)
    if name == "array":
        a = args[0]
        if is_array(a):
            return method(ev, a, "copy", [], {}, lineno, env)
        if isinstance(a, (list, tuple)):
            if len(a) == 0:
                return Arr(0, lambda j: 0, "f")
            if "dtype" in kwargs or len(args) > 1:
                return ObjList(list(a))
            if all(is_scalar(x) for x in a):
                items = list(a)
                return Arr(len(items), lambda j, _it=items: _select(_it, j), "f")
            return ObjList(list(a))
        if is_scalar(a):
            return a          # 0-d array: behaves like the scalar in the arithmetic that follows
        if hasattr(a, "getitem") and hasattr(a, "tag"):
            return a          # opaque array-like stand-in supplied by a contract
        raise Unsupported("np.array of %r" % (a,))
    if name in ("max", "min"):
        a = args[0]
        if is_array(a):
            return reduce_extreme(ev, name, a)
        raise Unsupported("np.%s" % name)
    if name in ("nanmax", "nanmin"):
        a = args[0]
        if is_array(a) and getattr(a, "kind", "") == "F" and not isinstance(a, Comp):
            return reduce_extreme_nan(ev, name[3:], a)
        raise Unsupported("np.%s of a non-IEEE array (line %d)" % (name, lineno))
    if name == "iterable":
        return is_array(args[0]) or isinstance(args[0], (list, tuple))
    if name == "shape":
        a = args[0]
        if is_array(a):
            return (a.n,)
        if isinstance(a, Pit):
            return (a.n, a.ncols)
        if is_scalar(a):
            return ()
        raise Unsupported("np.shape")
    if name == "cumsum":
        a = args[0]
        if "out" in kwargs:
            raise Unsupported("np.cumsum(out=...)")
        if is_array(a) and not isinstance(a, Comp) and a.kind in ("b", "i"):
            return cumsum_mask(ev, a)
        raise Unsupported("np.cumsum of a non-mask array (line %d)" % lineno)
    if name == "nan_to_num":
        if kwargs.get("copy", True) is False:
            raise Unsupported("np.nan_to_num(copy=False)")
        return m1(lambda x: ite(nan_of(x), 0, val_of(x)) if isinstance(x, NS) else x)
    if name == "repeat":
        vals, cnt = args[0], args[1]
        if is_array(vals) and is_array(cnt) and not isinstance(vals, Comp) and not isinstance(cnt, Comp) and cnt.kind == "i":
            # element k of the result belongs to the entry owner(k) of `vals`:  psum(owner k) <= k < psum(owner k + 1)
            ev.same_len(vals.n, cnt.n, lineno)
            ps = prefix_sum(ev, cnt)
            own = z3.Function("owner!%d" % next(V._counter), z3.IntSort(), z3.IntSort())
            k = fresh("k")
            total = ps(cnt.n)
            ev.path.facts.append(z3.ForAll([k], z3.Implies(z3.And(k >= 0, k < total), z3.And(
                own(k) >= 0, B(compare("<", own(k), cnt.n)), ps(own(k)) <= k, k < ps(own(k) + 1)))))
            vf = vals.f
            out = Arr(total, lambda j: vf(own(V.I(j))), vals.kind)
            out.repeat_of = (vals, cnt, own)
            return out
        raise Unsupported("np.repeat with these operands (line %d)" % lineno)
    if name == "unique":
        return unique(ev, args, kwargs, lineno)
    raise Unsupported("numpy function %s (line %d)" % (name, lineno))


def unique(ev, args, kwargs, lineno):
    """np.unique(a, return_inverse=, return_counts=) of a 1-D integer array (A4):
    u strictly increasing, every u[k] occurs in a, u[inverse[e]] == a[e], counts[k] = occ(u[k]) where
    occ(v) >= 1 is the number of positions of a holding v (a spec-level symbol recorded in path.notes as
    ("unique", {...})).  For a compressed operand the inverse stays compressed by the same mask."""
    a = args[0]
    if len(args) > 1 or set(kwargs) - {"return_inverse", "return_counts"} or not is_array(a) or a.kind != "i":
        raise Unsupported("np.unique with these operands (line %d)" % lineno)
    cid = next(V._counter)
    U = fresh("nunique", "int")
    uf = z3.Function("ukeys!%d" % cid, z3.IntSort(), z3.IntSort())
    inv = z3.Function("uinv!%d" % cid, z3.IntSort(), z3.IntSort())
    wit = z3.Function("uwit!%d" % cid, z3.IntSort(), z3.IntSort())
    occ = z3.Function("uocc!%d" % cid, z3.IntSort(), z3.IntSort())
    k, k2, e = fresh("k"), fresh("k2"), fresh("e")
    af = a.f
    if isinstance(a, Comp):
        mf = a.mask.f
        dom = lambda j: z3.And(j >= 0, B(compare("<", j, a.mask.n)), B(mf(j)))
    else:
        dom = lambda j: z3.And(j >= 0, B(compare("<", j, a.n)))
    facts = [U >= 0,
             z3.ForAll([k, k2], z3.Implies(z3.And(k >= 0, k < k2, k2 < U), uf(k) < uf(k2))),
             z3.ForAll([e], z3.Implies(dom(e), z3.And(inv(e) >= 0, inv(e) < U, uf(inv(e)) == V.I(af(e)),
                                                      occ(V.I(af(e))) >= 1))),
             z3.ForAll([k], z3.Implies(z3.And(k >= 0, k < U), z3.And(dom(wit(k)), V.I(af(wit(k))) == uf(k),
                                                                     occ(uf(k)) >= 1)))]
    ev.path.facts.extend(facts)
    u = Arr(U, lambda j: uf(V.I(j)), "i")
    u.member_fn = lambda x: member(a, x)
    out = [u]
    if kwargs.get("return_inverse"):
        if isinstance(a, Comp):
            out.append(Comp(a.mask, lambda j: inv(V.I(j)), "i"))
        else:
            out.append(Arr(a.n, lambda j: inv(V.I(j)), "i"))
    if kwargs.get("return_counts"):
        out.append(Arr(U, lambda j: occ(uf(V.I(j))), "i"))
    ev.path.notes.append(("unique", {"of": a, "keys": u, "n": U, "inv": inv, "occ": occ, "lineno": lineno}))
    return tuple(out) if len(out) > 1 else u


def prefix_sum(ev, a):
    """psum(k) = a[0] + ... + a[k-1], defined recursively (psum(0) = 0, psum(k+1) = psum(k) + a[k]); one
    function per array object, shared by np.sum and np.cumsum"""
    ps = a.__dict__.get("_psum")
    if ps is None:
        sort = z3.IntSort() if a.kind == "i" else z3.RealSort()
        uf = z3.Function("psum!%d" % next(V._counter), z3.IntSort(), sort)
        ps = lambda k: uf(V.I(k))
        a.__dict__["_psum"] = ps
        k = fresh("k")
        af = a.f
        elem = (lambda j: V.I(af(j))) if a.kind == "i" else (lambda j: V.R(val_of(af(j))))
        a.__dict__["_psum_facts"] = [uf(0) == 0, z3.ForAll([k], z3.Implies(
            z3.And(k >= 0, B(compare("<", k, a.n))), uf(k + 1) == uf(k) + elem(k)))]
    for fct in a.__dict__["_psum_facts"]:
        if not any(fct.eq(g) for g in ev.path.facts):
            ev.path.facts.append(fct)
    return ps


def _select(items, j):
    if not is_z3(j):
        return items[j]
    out = items[-1]
    for k in range(len(items) - 2, -1, -1):
        out = ite(compare("==", j, k), items[k], out)
    return out


_empty_ctr = [0]


def _empty(n, kind):
    _empty_ctr[0] += 1
    if kind == "b":
        uf = z3.Function("empty%d" % _empty_ctr[0], z3.IntSort(), z3.BoolSort())
    elif kind == "i":
        uf = z3.Function("empty%d" % _empty_ctr[0], z3.IntSort(), z3.IntSort())
    else:
        uf = z3.Function("empty%d" % _empty_ctr[0], z3.IntSort(), z3.RealSort())
    return Arr(n, lambda j: uf(V.I(j)), kind)


def cumsum_mask(ev, a):
    """np.cumsum(mask): number of True entries up to and including position j.  For a True position
    this is rank(j) + 1, rank being the position of j in the compress of the mask (A4)."""
    src = a.__dict__.get("_mask_src", a)       # astype(int32) of a mask keeps the mask
    ev.add_sel_axioms(src)
    cs = z3.Function("cumsum!%d" % next(V._counter), z3.IntSort(), z3.IntSort())
    sel = V.sel_fn(src)
    rank = z3.Function("rank!%s" % sel.name(), z3.IntSort(), z3.IntSort())
    j = z3.Int("j!cs")
    n = src.n
    ev.path.facts.append(z3.ForAll([j], z3.Implies(z3.And(j >= 0, B(compare("<", j, n)), B(src.f(j))),
                                                   cs(j) == rank(j) + 1)))
    ev.path.facts.append(z3.ForAll([j], z3.Implies(z3.And(j >= 0, B(compare("<", j, n))),
                                                   z3.And(cs(j) >= 0, cs(j) <= V.count_term(src)))))
    out = Arr(n, lambda jj: cs(V.I(jj)), "i")
    out._cumsum_of = src
    return out


def where_pairs(ev, pm, lineno):
    """np.where(A == B[:, None]) -> (s, b): all pairs with A[b] == B[s], in row-major order.
    Modelled by a fresh count and two fresh index functions with the bijection axioms (A4)."""
    a, bcol = pm.a, pm.b
    K_ = fresh("npairs", "int")
    sf = z3.Function("pair_s!%d" % next(V._counter), z3.IntSort(), z3.IntSort())
    bf = z3.Function("pair_b!%d" % next(V._counter), z3.IntSort(), z3.IntSort())
    pos = z3.Function("pair_pos!%d" % next(V._counter), z3.IntSort(), z3.IntSort(), z3.IntSort())
    p, s_, b_ = z3.Int("p!pair"), z3.Int("s!pair"), z3.Int("b!pair")
    if isinstance(bcol, Comp):
        ev.add_sel_axioms(bcol.mask)
        nb = V.count_term(bcol.mask)
        sel = V.sel_fn(bcol.mask)
        bval = lambda s: bcol.f(sel(s))
    else:
        nb = bcol.n
        bval = lambda s: bcol.f(s)
    na = a.n
    ev.path.facts.append(K_ >= 0)
    ev.path.facts.append(z3.ForAll([p], z3.Implies(z3.And(p >= 0, p < K_), z3.And(
        sf(p) >= 0, B(compare("<", sf(p), nb)), bf(p) >= 0, B(compare("<", bf(p), na)),
        B(compare("==", a.f(bf(p)), bval(sf(p)))), pos(sf(p), bf(p)) == p))))
    ev.path.facts.append(z3.ForAll([s_, b_], z3.Implies(
        z3.And(s_ >= 0, B(compare("<", s_, nb)), b_ >= 0, B(compare("<", b_, na)),
               B(compare("==", a.f(b_), bval(s_)))),
        z3.And(pos(s_, b_) >= 0, pos(s_, b_) < K_, sf(pos(s_, b_)) == s_, bf(pos(s_, b_)) == b_))))
    return (Arr(K_, lambda j: sf(V.I(j)), "i"), Arr(K_, lambda j: bf(V.I(j)), "i"))


def reduce_extreme(ev, op, a):
    """np.max / np.min: a fresh scalar m with  forall j. a[j] <= m  and  exists j. a[j] == m
    (the array must be non-empty: numpy raises otherwise -- safety obligation)"""
    if isinstance(a, Comp):
        raise Unsupported("np.%s of a compressed array" % op)
    ev.safety("index", compare(">=", a.n, 1), None)
    af = a.f
    rng = lambda v: z3.And(v >= 0, B(compare("<", v, a.n)))
    if a.kind == "F":
        # IEEE: np.max / np.min propagate NaN (A4).  Facts in skolemised / single-quantifier form:
        #   forall k. isNaN(a[k]) -> isNaN(m);  forall k. not isNaN(m) -> a[k] <= m;
        #   for the witness l0: (isNaN(m) -> isNaN(a[l0])) and (not isNaN(m) -> a[l0] == m)
        m = fresh("fpext_" + op, V.FP64)
        j, k = fresh("j"), fresh("j")
        l0 = fresh("wit")
        cmpf = z3.fpLEQ if op == "max" else z3.fpGEQ
        ev.path.facts.append(z3.ForAll([j], z3.Implies(z3.And(rng(j), z3.fpIsNaN(af(j))), z3.fpIsNaN(m))))
        ev.path.facts.append(z3.ForAll([k], z3.Implies(z3.And(rng(k), z3.Not(z3.fpIsNaN(m))),
                                                       cmpf(af(k), m))))
        ev.path.facts.append(z3.And(rng(l0), z3.Implies(z3.fpIsNaN(m), z3.fpIsNaN(af(l0))),
                                    z3.Implies(z3.Not(z3.fpIsNaN(m)), z3.fpEQ(af(l0), m))))
        return m
    m = fresh("ext_" + op, "int" if a.kind == "i" else "real")
    j = fresh("j")
    l0 = fresh("wit")
    cmpop = "<=" if op == "max" else ">="
    ev.path.facts.append(z3.ForAll([j], z3.Implies(rng(j), B(compare(cmpop, af(j), m)))))
    ev.path.facts.append(z3.And(rng(l0), B(compare("==", af(l0), m))))
    return m


def reduce_extreme_nan(ev, op, a):
    """np.nanmax / np.nanmin (A4): NaN entries are ignored; the result is NaN only if every entry is NaN:
       forall k. not isNaN(a[k]) -> (not isNaN(m) and a[k] <= m);  witness l0: isNaN(m) -> isNaN(a[l0]),
       not isNaN(m) -> a[l0] == m"""
    ev.safety("index", compare(">=", a.n, 1), None)
    af = a.f
    rng = lambda v: z3.And(v >= 0, B(compare("<", v, a.n)))
    m = fresh("fpnanext_" + op, V.FP64)
    k, l0 = fresh("j"), fresh("wit")
    cmpf = z3.fpLEQ if op == "max" else z3.fpGEQ
    ev.path.facts.append(z3.ForAll([k], z3.Implies(z3.And(rng(k), z3.Not(z3.fpIsNaN(af(k)))),
                                                   z3.And(z3.Not(z3.fpIsNaN(m)), cmpf(af(k), m)))))
    ev.path.facts.append(z3.And(rng(l0), z3.Implies(z3.fpIsNaN(m), z3.fpIsNaN(af(l0))),
                                z3.Implies(z3.Not(z3.fpIsNaN(m)), z3.fpEQ(af(l0), m))))
    return m


class NotAny:
    """np.all(a) = not np.any(~a)"""

    def __init__(self, negmask):
        self.neg = negmask


class ArrReduce:
    """np.max / np.min of an array: symbolic scalar with defining facts"""

    def __init__(self, op, arr):
        self.op = op
        self.arr = arr


class WhereIdx:
    """np.where(mask)[0]: the increasing index array of the True positions.  Used as an index
    (gather / store) it behaves like the mask itself."""

    def __init__(self, mask):
        self.mask = mask
        self.kind = "w"

    @property
    def n(self):
        return Count(self.mask)


class ObjList:
    """np.array(list, object): a python list of arbitrary values with fancy indexing by
    concrete positions"""

    def __init__(self, items):
        self.items = items

    def getitem(self, ev, idx, lineno):
        if isinstance(idx, int):
            return self.items[idx]
        if isinstance(idx, (list, tuple)):
            return ObjList([self.items[k] for k in idx])
        if isinstance(idx, ConcreteIdx):
            return ObjList([self.items[k] for k in idx.vals])
        raise Unsupported("object-array index %r" % (idx,))

    def concrete_iter(self):
        return list(self.items)

    def length(self):
        return len(self.items)


class ConcreteIdx(Arr):
    """np.arange(k) for concrete k: an integer array with known elements (sliceable)"""

    def __init__(self, vals):
        self.vals = list(vals)
        vs = self.vals
        Arr.__init__(self, len(vs), lambda j: _select(vs, j) if vs else 0, "i")

    def getitem(self, ev, idx, lineno):
        if isinstance(idx, E.SliceV):
            return ConcreteIdx(self.vals[slice(idx.lo, idx.hi, idx.step)])
        if isinstance(idx, int):
            return self.vals[idx]
        return ev.arr_get(self, idx, lineno, None)

    def concrete_iter(self):
        return list(self.vals)

    def length(self):
        return len(self.vals)


def builtin(ev, name, args, kwargs, lineno, env):
    if name == "len":
        return _length_of(ev, args[0], lineno)
    if name == "range":
        if len(args) == 1:
            n = args[0]
            if is_z3(n) or isinstance(n, Count):
                return E.SymRange(n)
            return range(n)
        if all(isinstance(a, int) for a in args):
            return range(*args)
        raise Unsupported("range with symbolic start")
    if name == "enumerate":
        a = args[0]
        if is_array(a):
            return E.EnumArr(a)
        return list(enumerate(ev.iterate(a) if not isinstance(a, (list, tuple)) else a))
    if name == "zip":
        seqs = [ev.iterate(a) if not isinstance(a, (list, tuple)) else list(a) for a in args]
        return list(zip(*seqs))
    if name in ("max", "min"):
        if len(args) == 1:
            a = args[0]
            if isinstance(a, (list, tuple)) and all(isinstance(x, (int, Fraction)) for x in a):
                return max(a) if name == "max" else min(a)
            if is_array(a):
                return ArrReduce(name, a)
            raise Unsupported("builtin %s of %r" % (name, a))
        out = args[0]
        f = maxval if name == "max" else minval
        for x in args[1:]:
            out = f(out, x)
        return out
    if name == "abs":
        return ev.map1(absval, args[0])
    if name == "int":
        x = args[0]
        if isinstance(x, (int, Fraction)):
            return int(x)
        if type(x).__name__ == "PV":
            return x.as_int()
        return V.I(x)
    if name == "float":
        return args[0]
    if name == "bool":
        x = args[0]
        if hasattr(x, "truthy"):
            return x.truthy()
        if is_z3(x):
            return B(x)
        return bool(x)
    if name == "map":
        # elementwise map idiom: map(f, s1, s2, ...) over symbolic sequences of one length is the sequence whose k-th
        # element is f(s1[k], s2[k], ...) (python zip semantics; the lengths must agree for nothing to be dropped)
        f, seqs = args[0], list(args[1:])
        sym = [q for q in seqs if is_array(q) or hasattr(q, "elem")]
        if sym and all(is_array(q) or hasattr(q, "elem") for q in seqs):
            n0 = sym[0].n
            for q in sym[1:]:
                ev.same_len(n0, q.n, lineno)
            at_ = lambda q, j: q.elem(j) if hasattr(q, "elem") else q.f(j)
            out = Arr(n0, lambda j: ev.call(f, [at_(q, j) for q in seqs], {}, lineno, env), "f")
            out.is_map = True
            return out
        return [ev.call(f, list(xs), {}, lineno, env) for xs in zip(*[ev.iterate(q) for q in seqs])]
    if name in ("list", "tuple"):
        if not args:
            return [] if name == "list" else ()
        a = args[0]
        if getattr(a, "is_map", False):
            return a
        if isinstance(a, (list, tuple)):
            return list(a) if name == "list" else tuple(a)
        if isinstance(a, dict):
            return list(a.keys())
        if hasattr(a, "concrete_iter"):
            return list(a.concrete_iter()) if name == "list" else tuple(a.concrete_iter())
        raise Unsupported("%s(%r)" % (name, a))
    if name == "dict":
        if not args and not kwargs and getattr(ev, "dict_universe", None):
            from .symdict import SymDict
            return SymDict.from_concrete(ev.dict_universe, {}, "fresh")
        if not args:
            return dict(kwargs)
        if isinstance(args[0], dict):
            d = dict(args[0])
            d.update(kwargs)
            return d
        if isinstance(args[0], (list, tuple)):
            return dict(args[0])
        raise Unsupported("dict(%r)" % (args[0],))
    if name in ("set", "frozenset"):
        if not args:
            return set()
        a = args[0]
        if hasattr(a, "keyset"):
            return a.keyset()
        if type(a).__name__ == "KeySet":
            return a
        return set(ev.iterate(a) if not isinstance(a, (list, tuple, set, dict)) else a)
    if name == "isinstance":
        return _isinstance(args[0], args[1])
    if name == "hasattr":
        o, a = args
        if is_array(o) or isinstance(o, Pit):
            return a in ("__len__", "shape", "dtype", "astype", "sum", "size") or \
                (a == "values" and getattr(o, "is_series", False))
        if is_scalar(o):
            return False
        if isinstance(o, E.Obj):
            return a in o.attrs
        if hasattr(o, "hasattr_"):
            return o.hasattr_(a)
        raise Unsupported("hasattr on %r" % (o,))
    if name == "getattr":
        try:
            return ev.getattr(args[0], args[1], lineno)
        except E._Raise:
            if len(args) > 2:
                return args[2]
            raise
    if name == "next":
        a = args[0]
        if isinstance(a, (tuple, list)):
            return a[0]
        raise Unsupported("next(%r)" % (a,))
    if name == "sorted":
        a = args[0]
        if isinstance(a, dict):
            a = list(a.keys())
        if hasattr(a, "concrete_iter"):
            a = a.concrete_iter()
        return sorted(a)
    if name == "str":
        return str(args[0]) if isinstance(args[0], (str, int)) else "<str>"
    if name == "deepcopy":
        return deepcopy(ev, args[0])
    if name == "super":
        e = env
        fref = None
        while e is not None and fref is None:
            fref = getattr(e, "fref", None)
            e = e.parent
        if fref is None or fref.cls is None:
            raise Unsupported("super() outside a method")
        if len(args) == 2 and isinstance(args[0], E.S.ClassRef) and isinstance(args[1], E.S.ClassRef):
            # super(Start, cls): lookup continues after Start in the MRO of cls
            return SuperProxy(args[1], args[0].name)
        if len(args) == 2 and isinstance(args[0], E.S.ClassRef) and isinstance(args[1], E.Obj) and args[1].cls is not None:
            # super(Start, self): instance methods looked up after Start in the MRO of self's class
            return SuperProxy(args[1].cls, args[0].name, recv=args[1])
        if args:
            raise Unsupported("super() with these arguments")
        cur = env.get("cls") if "cls" in _all_vars(env) else None
        if not isinstance(cur, E.S.ClassRef):
            raise Unsupported("super() without a class receiver")
        return SuperProxy(cur, fref.cls)
    if name == "globals":
        return GlobalsDict(env.module if env is not None else None, ev)
    if name == "round":
        return args[0]
    if name in ("any", "all"):
        a = args[0]
        if isinstance(a, (list, tuple)):
            vals = list(a)
            if name == "any":
                return bor(*vals) if any(is_z3(v) for v in vals) else any(vals)
            return band(*vals) if any(is_z3(v) for v in vals) else all(vals)
        return call(ev, name, args, kwargs, lineno, env)
    if name in ("any", "all") and is_array(args[0]):
        return call(ev, name, args, kwargs, lineno, env)
    if name == "sum":
        a = args[0]
        if isinstance(a, (list, tuple)):
            out = 0
            for x in a:
                out = arith("+", out, x)
            return out
        return call(ev, "sum", args, kwargs, lineno, env)
    if name == "type":
        return E.Opaque("type")
    if name == "print":
        return None
    if name == "callable":
        return isinstance(args[0], (E.Closure, E.BoundMethod)) or hasattr(args[0], "call")
    raise Unsupported("builtin %s (line %d)" % (name, lineno))


def _all_vars(env):
    out = set()
    e = env
    while e is not None:
        out |= set(e.vars)
        e = e.parent
    return out


class SuperProxy:
    """super() inside a classmethod: attribute lookup continues after the defining class in the
    method resolution order of the receiver class"""

    def __init__(self, cls_value, defining, recv=None):
        self.cls_value = cls_value
        self.defining = defining
        self.recv = recv

    def getattr_(self, ev, attr, lineno):
        from .classes import mro
        chain = mro(self.cls_value)
        names = [c.name for c in chain]
        if self.defining not in names:
            raise Unsupported("super(): %s not in the MRO of %s" % (self.defining, self.cls_value.name))
        for c in chain[names.index(self.defining) + 1:]:
            qn = "%s.%s" % (c.name, attr)
            if qn in c.module.functions:
                if self.recv is not None:
                    return E.BoundRepoMethod(self.recv, c.module.functions[qn])
                return E.ClassMethodRef(self.cls_value, c.module.functions[qn])
        raise E._Raise(E.ExcVal("AttributeError", (attr,)))


def _isinstance(x, t):
    ts = t if isinstance(t, tuple) else (t,)
    for tt in ts:
        if isinstance(tt, E.S.ClassRef) and isinstance(x, E.Obj) and x.cls is not None:
            from .classes import mro
            if tt.name in [c.name for c in mro(x.cls)]:
                return True
            continue
        nm = tt.name if hasattr(tt, "name") else str(tt)
        nm = nm.split(".")[-1]
        if nm in ("ndarray",) and (is_array(x) or isinstance(x, Pit)):
            return True
        if nm in ("Series",) and getattr(x, "is_series", False):
            return True
        if nm in ("float", "float64") and is_scalar(x) and not isinstance(x, bool):
            return True
        if nm in ("int", "int32", "int64", "integer") and (isinstance(x, int) or (is_z3(x) and z3.is_int(x))) \
                and not isinstance(x, bool):
            return True
        if nm == "bool" and isinstance(x, bool):
            return True
        if nm == "str" and isinstance(x, str):
            return True
        if nm == "dict" and isinstance(x, dict):
            return True
        if nm in ("list",) and isinstance(x, list):
            return True
        if nm in ("tuple",) and (isinstance(x, tuple) or getattr(x, "is_tuple", False)):
            return True
        if nm == "Iterable" and (isinstance(x, (list, tuple, str, dict)) or is_array(x)):
            return True
    return False


def deepcopy(ev, x):
    if hasattr(x, "deepcopy"):
        return x.deepcopy(ev)
    if isinstance(x, dict):
        return {k: deepcopy(ev, v) for k, v in x.items()}
    if isinstance(x, list):
        return [deepcopy(ev, v) for v in x]
    if isinstance(x, tuple):
        return tuple(deepcopy(ev, v) for v in x)
    if isinstance(x, (Arr, ColView)):
        return x.snapshot()
    if is_scalar(x) or x is None or isinstance(x, str) or type(x).__name__ == "PV":
        return x
    raise Unsupported("deepcopy of %r" % (x,))


class GlobalsDict:
    def __init__(self, module, ev):
        self.module = module
        self.ev = ev

    def getitem(self, ev, key, lineno):
        if not isinstance(key, str):
            raise Unsupported("globals()[symbolic]")
        try:
            return E.Env(self.module, ev).global_name(key)
        except Unsupported:
            raise E._Raise(E.ExcVal("KeyError", (key,)))


def method(ev, recv, name, args, kwargs, lineno, env):
    if is_array(recv) or isinstance(recv, Pit):
        if name == "astype":
            return astype(ev, recv, args[0] if args else kwargs.get("dtype"), lineno)
        if name == "copy":
            if isinstance(recv, Comp):
                return recv
            if isinstance(recv, Pit):
                f0 = recv.f
                return Pit(recv.n, f0, recv.ncols, recv.name)
            return recv.snapshot()
        if name == "sum":
            return call(ev, "sum", [recv], kwargs, lineno, env)
        if name == "any":
            return call(ev, "any", [recv], kwargs, lineno, env)
        if name == "all":
            return call(ev, "all", [recv], kwargs, lineno, env)
        if name == "round":
            return recv
        if name in ("max", "min"):
            return reduce_extreme(ev, name, recv)
        if name == "cumsum":
            return call(ev, "cumsum", [recv], kwargs, lineno, env)
        raise Unsupported("array method %s (line %d)" % (name, lineno))
    if isinstance(recv, dict):
        if name == "get":
            k = args[0]
            return recv.get(k, args[1] if len(args) > 1 else None)
        if name == "keys":
            return list(recv.keys())
        if name == "values":
            return list(recv.values())
        if name == "items":
            return list(recv.items())
        if name == "update":
            for a in args:
                recv.update(a)
            recv.update(kwargs)
            return None
        if name == "pop":
            if args[0] in recv:
                return recv.pop(args[0])
            if len(args) > 1:
                return args[1]
            raise E._Raise(E.ExcVal("KeyError", (args[0],)))
        if name == "setdefault":
            return recv.setdefault(args[0], args[1] if len(args) > 1 else None)
        if name == "copy":
            return dict(recv)
        raise Unsupported("dict method %s" % name)
    if isinstance(recv, list):
        if name == "append":
            recv.append(args[0])
            return None
        if name == "extend":
            recv.extend(ev.iterate(args[0]))
            return None
        if name == "index":
            return recv.index(args[0])
        if name == "copy":
            return list(recv)
        raise Unsupported("list method %s" % name)
    if isinstance(recv, str):
        if name == "upper":
            return recv.upper()
        if name == "lower":
            return recv.lower()
        if name == "join":
            return "<joined>"
        if name == "format":
            return recv
        if name == "startswith":
            return recv.startswith(args[0])
        raise Unsupported("str method %s" % name)
    if isinstance(recv, (set, frozenset)):
        if name == "add":
            recv.add(args[0])
            return None
        if name in ("union", "difference", "intersection"):
            return getattr(recv, name)(*args)
    if is_scalar(recv):
        if name == "round":
            return recv
        if name == "astype":
            return recv
        if name == "item":
            return recv
    raise Unsupported("method %s of %r (line %d)" % (name, recv, lineno))
